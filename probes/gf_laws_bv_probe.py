import z3, time, sys
polys = {2:0b111,3:0b1011,4:0b10011,5:0b100101,6:0b1000011,7:0b10000011,8:0b100011101,9:0b1000010001,10:0b10000001001,12:0b1000000001101,16:0b10000000000001011}
def gfmul(a, b, m, W):
    mod = z3.BitVecVal(polys[m], W)
    res = z3.BitVecVal(0, W)
    for i in range(m):
        res = z3.If(z3.Extract(i, i, b) == 1, res ^ (a << i), res)
    for d in range(2*m-2, m-1, -1):
        res = z3.If(z3.Extract(d, d, res) == 1, res ^ (mod << (d-m)), res)
    return res
for m in (4, 6, 8, 10, 12, 16):
    W = 2*m
    a, b, c = z3.BitVecs("a b c", W)
    lim = z3.BitVecVal(1 << m, W)
    s = z3.Solver(); s.set("timeout", 300000)
    s.add(z3.ULT(a, lim), z3.ULT(b, lim), z3.ULT(c, lim))
    s.add(gfmul(gfmul(a,b,m,W),c,m,W) != gfmul(a,gfmul(b,c,m,W),m,W))
    t0 = time.time(); r = s.check(); print("assoc m=",m, r, f"{time.time()-t0:.1f}s"); sys.stdout.flush()
    s = z3.Solver(); s.set("timeout", 300000)
    s.add(z3.ULT(a, lim), z3.ULT(b, lim), z3.ULT(c, lim))
    s.add(gfmul(a,b^c,m,W) != gfmul(a,b,m,W) ^ gfmul(a,c,m,W))
    t0 = time.time(); r = s.check(); print("distr m=",m, r, f"{time.time()-t0:.1f}s"); sys.stdout.flush()
