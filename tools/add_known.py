#!/usr/bin/env python3
"""Manual helper (never run by a check): turn the replay files of the last run of a check into one known-finding
entry per clause. usage: add_known.py <PID> <config-regex> <id> <what...>"""
import glob, json, re, sys, os
ROOT = os.path.dirname(os.path.dirname(os.path.abspath(__file__)))
pid, rx, fid = sys.argv[1], re.compile(sys.argv[2]), sys.argv[3]
what = " ".join(sys.argv[4:])
by = {}
for f in glob.glob(os.path.join(ROOT, "replays", pid, "*.json")):
    b = json.load(open(f))
    if rx.search(b["config"]):
        by.setdefault(b["clause"], set()).add(b["config"])
p = os.path.join(ROOT, "known_findings.json")
k = json.load(open(p))
for clause, cfgs in sorted(by.items()):
    ex = next((e for e in k["findings"] if e.get("id") == fid and e["clause"] == clause), None)
    if ex:
        ex["configs"] = sorted(set(ex["configs"]) | cfgs)
    else:
        k["findings"].append(dict(id=fid, property=pid, clause=clause, configs=sorted(cfgs), what=what))
    print(clause, len(cfgs))
json.dump(k, open(p, "w"), indent=1)
