"""C12 — binary channels follow their transition law and never leave their alphabet."""
from __future__ import annotations

import torch
import z3
from torch.utils._python_dispatch import _disable_current_modes

from .. import sym as S
from ..common import Check, Tally, ob, tier, replay_main, TIER
from ..engine import fresh_bits, fresh_reals, elems, from_arr, Ctx
from ..harness import sym_paths, decide, model_bits, real_bits, zor, zand
from ..sym import NotEncodable

PID = "C12"


def mk(kind, p=0.3, erasure_symbol=None):
    from kaira.channels import BinarySymmetricChannel, BinaryErasureChannel, BinaryZChannel
    if kind == "bec" and erasure_symbol is not None:
        return BinaryErasureChannel(p, erasure_symbol=erasure_symbol)
    return {"bsc": BinarySymmetricChannel, "bec": BinaryErasureChannel, "z": BinaryZChannel}[kind](p)


PATTR = {"bsc": "crossover_prob", "bec": "erasure_prob", "z": "error_prob"}


def run_item(item, tl, mutate=None):
    kind, alpha, n, dt = item["kind"], item["alphabet"], item["n"], item["dtype"]
    pmode = item["p"]           # 'sym' | 0.0 | 1.0
    config = item.get("config") or f"{kind} alphabet={alpha} n={n} dtype={dt} p={pmode}"
    shape = tuple(item.get("shape") or (n,))
    obs = []

    def rec(clause, status, **kw):
        obs.append(ob(clause, config, status, **kw, **tl.take()))
    ES = item.get("erasure_symbol")
    ESV = -1 if ES is None else ES
    ch = mk(kind, 0.3 if pmode == "sym" else pmode, ES)
    if mutate:
        mutate(ch)
    dtype = getattr(torch, dt)
    P = z3.Real("p")

    def run(ctx):
        b = fresh_bits("b", shape, dtype)
        if alpha == "bipolar":
            x = 2 * b - 1
        else:
            x = b
        before = list(elems(x))
        if pmode == "sym":
            setattr(ch, PATTR[kind], from_arr([S.topoly(P)], torch.float32, ()))
        y = ch(x)
        after = list(elems(x))
        return dict(b=b, x=x, y=y, before=before, after=after, draws=[g for k, g in ctx.rng_log], ndraw=len(ctx.rng_log))
    assume = [P >= 0, P <= 1]
    if alpha == "bipolar":
        assume.append(z3.Or([z3.Not(z3.Bool(f"b{i}")) for i in range(n)]))   # documented: the format is recognised by a -1
    paths = sym_paths(run, assume, tl, max_paths=300, state=(ch,))
    agg = {}

    def note(clause, st, mk_viol):
        cur = agg.get(clause)
        if st == "violated" and (cur is None or cur[0] != "violated"):
            agg[clause] = ("violated", mk_viol())
        elif st == "inconclusive" and (cur is None or cur[0] == "holds"):
            agg[clause] = (st, None)
        elif cur is None:
            agg[clause] = ("holds", None)
    for ctx, R in paths:
        bits = elems(R["b"])
        y = elems(R["y"])
        draws = R["draws"]
        pz = P if pmode == "sym" else z3.RealVal(str(pmode))

        def witness(model):
            w = {"b": model_bits(model, "b", n), "u": [float(S.zval(model, g)) for g in draws]}
            w["p"] = float(S.zval(model, P)) if pmode == "sym" else pmode
            return w
        if len(y) != n:
            note("law", "violated", lambda: dict(what=f"output has {len(y)} symbols for {n} inputs", witness={"n": len(y)}, replay={"reproduced": True}))
            continue
        # the order in which draws are consumed: BSC/BEC one per position; Z one per position that carries a 1 (on this path)
        if kind in ("bsc", "bec"):
            if len(draws) != n:
                note("law", "violated", lambda: dict(what=f"{len(draws)} uniform draws for {n} symbols: positions cannot be independent", witness={"draws": len(draws)}, replay={"reproduced": True}))
                continue
            dmap = {i: draws[i] for i in range(n)}
        else:
            ones = []
            for i in range(n):
                st1, _ = decide(ctx, z3.Not(S.zbool(bits[i])))
                if st1 == "holds":
                    ones.append(i)      # bit i is 1 on every model of this path
            if len(draws) not in (0, len(ones)):
                note("law", "violated", lambda: dict(what=f"{len(draws)} draws for {len(ones)} ones", witness={"draws": len(draws)}, replay={"reproduced": True}))
                continue
            dmap = {i: draws[k] for k, i in enumerate(ones)} if draws else {}
        viol_terms = []
        alph_terms = []
        for i in range(n):
            xb = bits[i]
            hit = (dmap[i] < pz) if i in dmap else z3.BoolVal(False)
            if kind == "bsc":
                expb = S.bxor(xb, S.mkbx(hit))
                exp = S.sub(S.mul(2, expb), 1) if alpha == "bipolar" else expb
            elif kind == "bec":
                xv = S.sub(S.mul(2, xb), 1) if alpha == "bipolar" else xb
                exp = S.where(S.mkbx(hit), ESV, xv)
            else:
                if kind == "z" and pmode != "sym" and float(pmode) == 0.0:
                    hit = z3.BoolVal(False)
                expb = S.band(xb, S.bnot(S.mkbx(hit)))
                exp = S.sub(S.mul(2, expb), 1) if alpha == "bipolar" else expb
            viol_terms.append(S.zbool(S.ne(y[i], exp)))
            allowed = [(-1, 1) if alpha == "bipolar" else (0, 1)][0]
            inalpha = z3.Or([S.zbool(S.eq(y[i], a)) for a in allowed] + ([S.zbool(S.eq(y[i], ESV))] if kind == "bec" else []))
            alph_terms.append(z3.Not(inalpha))
        st, model = decide(ctx, zor(viol_terms))
        note("transition law (per position, own draw only)", st, lambda: _viol(item, witness(model), "output differs from the transition law"))
        st, model = decide(ctx, zor(alph_terms))
        note("output stays in the alphabet", st, lambda: _viol(item, witness(model), "output symbol outside the input's alphabet (plus erasure symbol)"))
        st, model = decide(ctx, zor([S.zbool(S.ne(a, b_)) for a, b_ in zip(R["before"], R["after"])]))
        note("input tensor not modified", st, lambda: _viol(item, witness(model), "input tensor modified in place", clause="input"))
    for clause, (st, v) in agg.items():
        if st == "violated":
            rec(clause, st, **v)
        else:
            rec(clause, st, sample=dict(query=clause, paths=len(paths), n=n, p=str(pmode)))
    return obs


def real_run(item, w):
    """replay on the real channel with torch.rand_like stubbed to return the witness draws"""
    kind, alpha, n, dt = item["kind"], item["alphabet"], item["n"], item["dtype"]
    with _disable_current_modes():
        ch = mk(kind, float(w["p"]), item.get("erasure_symbol"))
        b = torch.tensor(w["b"]).to(getattr(torch, dt)).reshape(tuple(item.get("shape") or (n,)))
        x = 2 * b - 1 if alpha == "bipolar" else b
        x0 = x.clone()
        us = list(w["u"])
        orig = torch.rand_like

        def fake(t, *a, **k):
            vals = [us.pop(0) if us else 0.5 for _ in range(t.numel())]
            return torch.tensor(vals, dtype=t.dtype if t.dtype.is_floating_point else torch.float32).reshape(t.shape)
        torch.rand_like = fake
        try:
            y = ch(x)
        finally:
            torch.rand_like = orig
        return x0, x, y


def _viol(item, w, what, clause="law"):
    kind, alpha, n = item["kind"], item["alphabet"], item["n"]
    x0, x, y = real_run(item, w)
    us = list(w["u"])
    p = float(w["p"])
    rep = False
    if clause == "input":
        rep = not torch.equal(x0, x)
    else:
        k = 0
        for i in range(n):
            xb = w["b"][i]
            if kind in ("bsc", "bec"):
                hit = us[i] < p
            else:
                hit = False
                if xb == 1 and p > 0:
                    hit = us[k] < p if k < len(us) else False
                    k += 1
            if kind == "bsc":
                e = xb ^ int(hit)
                e = 2 * e - 1 if alpha == "bipolar" else e
            elif kind == "bec":
                e = (-1 if item.get("erasure_symbol") is None else item["erasure_symbol"]) if hit else (2 * xb - 1 if alpha == "bipolar" else xb)
            else:
                e = xb & (0 if hit else 1)
                e = 2 * e - 1 if alpha == "bipolar" else e
            if float(y.flatten()[i]) != float(e):
                rep = True
    return dict(what=f"{what}: x={x0.tolist()}, draws={['%.4f' % u for u in w['u']]}, p={p:.4f} -> y={y.tolist()}", witness=w, replay={"reproduced": rep})


def work(item):
    tl = Tally()
    try:
        if item.get("selftest"):
            import kaira.channels.digital as D
            orig = D.BinaryZChannel.forward

            def bad(self, x, *a, **k):
                y = orig(self, x, *a, **k)
                return torch.where(torch.rand_like(y.float()) < self.error_prob, 1 - y, y)     # also turns 0 into 1
            D.BinaryZChannel.forward = bad
            try:
                obs = run_item(dict(kind="z", alphabet="binary", n=3, dtype="float32", p="sym"), tl)
            finally:
                D.BinaryZChannel.forward = orig
            hit = any(o["status"] == "violated" for o in obs)
            return [ob("selftest:z-channel-flips-zeros", "selftest", "holds" if hit else "error", what="" if hit else "mutant not flagged")]
        return run_item(item, tl)
    except NotEncodable as e:
        return [ob("harness", item["config"], "error", what=f"NotEncodable: {e}")]


def all_items():
    items = []
    n = tier(4, 10)
    for kind in ("bsc", "bec", "z"):
        for alpha in ("binary", "bipolar"):
            for p in ("sym", 0.0, 1.0):
                for dt in (("float32", "int64", "bool", "uint8") if alpha == "binary" else ("float32", "int64")) if p == "sym" else ("float32",):
                    if kind == "bec" and alpha == "bipolar":
                        continue   # the default erasure symbol -1 collides with the bipolar alphabet: outside the statement
                    it = dict(kind=kind, alphabet=alpha, n=n if kind != "z" else min(n, 5), dtype=dt, p=p)
                    it["config"] = f"{kind} alphabet={alpha} n={it['n']} dtype={dt} p={p}"
                    items.append(it)
    # batched / nested layouts (elements keep their row-major order, one draw per element)
    for kind in ("bsc", "bec", "z"):
        for alpha in ("binary", "bipolar"):
            if kind == "bec" and alpha == "bipolar":
                continue
            for shape in ((2, 2), (1, 4), (2, 1, 2), (4, 1)):
                for p in ("sym", 1.0) if alpha == "bipolar" else ("sym",):
                    it = dict(kind=kind, alphabet=alpha, n=4, dtype="float32", p=p, shape=list(shape))
                    it["config"] = f"{kind} alphabet={alpha} shape={shape} dtype=float32 p={p}"
                    items.append(it)
    # custom (finite) erasure symbols, also on the bipolar alphabet where the default -1 would collide
    for es, alpha, dt in ((2.0, "binary", "float32"), (0.5, "binary", "float32"), (0.5, "binary", "int64"), (0.0, "bipolar", "float32"), (2.0, "bipolar", "float32")):
        it = dict(kind="bec", alphabet=alpha, n=4, dtype=dt, p="sym", erasure_symbol=es)
        it["config"] = f"bec alphabet={alpha} n=4 dtype={dt} p=sym erasure_symbol={es}"
        items.append(it)
    items.append(dict(selftest=True, config="selftest"))
    return items


def replay(body):
    for it in all_items():
        if it.get("config") == body["config"]:
            w = body["witness"]
            v = _viol(it, w, "", clause="input" if "modified" in body["clause"] else "law")
            return v["replay"]["reproduced"]
    return False


def main():
    replay_main(__name__)
    ck = Check(PID)
    items = all_items()
    import kaira.channels.digital as D
    ck.encoded(D.BinarySymmetricChannel.forward, D.BinaryErasureChannel.forward, D.BinaryZChannel.forward)
    ck.bound("inputs", f"n = {tier(4, 10)} symbols (Z channel: <= 5, one path per input pattern), both alphabets, float32, int64, bool and uint8 inputs; p symbolic in [0,1] plus the constants 0 and 1; uniform draws symbolic in [0,1)")
    ck.stub("torch.rand_like -> fresh symbolic reals in [0,1), logged in generation order (the generator itself is trusted to be i.i.d. uniform)")
    ck.assume("'independently with probability p' is decided as: output position i is a function of x_i and of its own draw only, hit exactly when u < p; the empirical rate of >= 10^6 real draws is a statement about torch's RNG (outside the claim)")
    ck.assume("bipolar inputs contain at least one -1 (documented recognition rule); BEC with bipolar input and the default erasure symbol -1 is excluded (collision); custom erasure symbols are finite (NaN / inf markers are outside the claim: the reals model has no such values)")
    ck.run_items(__name__, "work", items)
    ck.finish(min_obligations=20)


if __name__ == "__main__":
    main()
