"""C05 — noise-free modulation followed by hard demodulation returns the transmitted bits."""
from __future__ import annotations

import torch
import z3
from torch.utils._python_dispatch import _disable_current_modes

from .. import sym as S
from ..catalog import modem_specs, build_modem
from ..common import Check, Tally, ob, tier, replay_main, TIER
from ..engine import fresh_bits, elems
from ..harness import sym_paths, differs, decide, model_bits, real_bits, concolic
from ..sym import NotEncodable

PID = "C05"


def expected(m, bits, shape, bps):
    """list of (output position, expected scalar) under the scheme's start-up convention; bits = flat input scalars"""
    L = shape[-1] // bps
    lead = 1
    for s in shape[:-1]:
        lead *= s
    exp = []
    for r in range(lead):
        row = bits[r * shape[-1]:(r + 1) * shape[-1]]
        if m["memory"] == "dpsk":
            exp.append(row[bps:])                 # bits carried by the reference symbol are not returned
        elif m["memory"] == "oqpsk":
            e = []
            for i in range(L):
                e.append(row[2 * i])                  # in-phase bit of symbol i
                e.append(row[2 * (i - 1) + 1] if i > 0 else None)   # quadrature stream delayed by one symbol
            exp.append(e)
        else:
            exp.append(row)
    return exp


def prepare(mod, demod):
    for o in (mod, demod):
        o.eval()
        if hasattr(o, "reset_state"):
            o.reset_state()


LONG_SYMBOLS = 1030                      # crosses 256 / 512 / 1024: typical block sizes of vectorised implementations
LONG_WINDOW = (256, 512, 768, 1024)      # symbols whose bits are symbolic in a long frame (the rest is a fixed pseudo-random pattern)


def long_pattern(n):
    """fixed pseudo-random 0/1 pattern (LCG), independent of torch's RNG"""
    out, x = [], 12345
    for _ in range(n):
        x = (1103515245 * x + 12345) % (1 << 31)
        out.append(float((x >> 16) & 1))
    return out


def run_one(m, via_registry, shape, tl, obs, mutate=None, long=False):
    bps = m["bps"]
    config = f"{m['name']}{' via registry' if via_registry else ''} layout={tuple(shape)}" + (f" long frame, symbolic symbols {LONG_WINDOW}" if long else "")

    def rec(clause, status, **kw):
        obs.append(ob(clause, config, status, **kw, **tl.take()))
    mod, demod = build_modem(m, via_registry)
    if mutate:
        mutate(mod, demod)
    n = 1
    for s in shape:
        n *= s

    wpos = [s_ * bps + j for s_ in LONG_WINDOW for j in range(bps)] if long else []

    def mkinput():
        if not long:
            return fresh_bits("b", shape)
        base = torch.tensor(long_pattern(n))
        w = fresh_bits("b", (len(wpos),))
        base[torch.tensor(wpos)] = w          # symbolic bits written into the concrete frame
        return base

    def run(ctx):
        prepare(mod, demod)
        b = mkinput()
        y = mod(b)
        d = demod(y)
        return dict(b=b, y=y, d=d)
    try:
        paths = sym_paths(run, (), tl, max_paths=64, state=(mod, demod))
    except (RuntimeError, ValueError, IndexError, TypeError) as e:
        if isinstance(e, NotEncodable):
            raise
        with _disable_current_modes():
            prepare(mod, demod)
            try:
                demod(mod(torch.zeros(shape)))
                rep = False
            except Exception:
                rep = True
        rec("roundtrip", "violated", what=f"raises on layout {tuple(shape)}: {type(e).__name__}: {str(e)[:100]}", witness={"layout": list(shape), "raises": True}, replay={"reproduced": rep})
        return
    for ctx, R in paths:
        L = shape[-1] // bps
        if tuple(R["y"].shape) != tuple(shape[:-1]) + (L,):
            rec("symbol-count", "violated", what=f"{tuple(R['y'].shape)} symbols for bit layout {tuple(shape)} with {bps} bits/symbol", witness={"layout": list(shape)}, replay={"reproduced": True})
            continue

        def realfn(b):
            prepare(mod, demod)
            return demod(mod(b))
        okc, detail = (True, "") if long else concolic(ctx, {"b": R["b"]}, realfn, [R["d"]], tl)
        if not okc:
            rec("harness", "error", what="concolic disagreement: " + detail)
            continue
        exp = expected(m, elems(R["b"]), shape, bps)
        flat_exp = [e for row in exp for e in row]
        out = elems(R["d"])
        if len(out) != len(flat_exp):
            with _disable_current_modes():
                real_n = realfn(torch.zeros(shape)).numel()
            rec("roundtrip", "violated", what=f"demodulator returns {len(out)} bits, expected {len(flat_exp)} for layout {tuple(shape)}", witness={"layout": list(shape), "bits_out": len(out)}, replay={"reproduced": real_n != len(flat_exp)})
            continue
        pairs = [(o, e) for o, e in zip(out, flat_exp) if e is not None]
        st, model = decide(ctx, differs([p[0] for p in pairs], [p[1] for p in pairs]))
        if st == "violated":
            if long:
                wb = model_bits(model, "b", len(wpos))
                bb = [int(v) for v in long_pattern(n)]
                for q, v in zip(wpos, wb):
                    bb[q] = v
            else:
                bb = model_bits(model, "b", n)
            with _disable_current_modes():
                bt = real_bits(bb, shape)
                got = [int(round(float(v))) for v in realfn(bt).flatten().tolist()]
            exp_c = [e for row in expected(m, bb, shape, bps) for e in row]
            rep = any(e is not None and g != e for g, e in zip(got, exp_c))
            if long:
                wrong = [i for i, (g, e) in enumerate(zip(got, exp_c)) if e is not None and g != e]
                rec("roundtrip", st, what=f"long frame of {n // bps} symbols: bit positions {wrong[:12]} come back wrong (window bits {wb})", witness={"window_bits": wb, "layout": list(shape), "wrong_positions": wrong[:40]}, replay={"reproduced": rep})
            else:
                rec("roundtrip", st, what=f"bits {bb} -> demodulated {got}, expected {['-' if e is None else e for e in exp_c]}", witness={"bits": bb, "layout": list(shape)}, replay={"reproduced": rep})
        else:
            rec("roundtrip", st, sample=dict(query=f"exists bits in {{0,1}}^{list(shape)}: demod(mod(bits)) != bits (start-up convention: {m['memory'] or 'none'})", result=st))


def work(item):
    from .. import ops as O
    O.AUTO_TABLE = True
    tl = Tally()
    obs = []
    m = item["modem"]
    if item.get("selftest"):
        def mutate(mod, demod):
            bp = demod.modulator.bit_patterns
            bp[[1, 2]] = bp[[2, 1]].clone()      # two labels swapped in the demodulator's table
        run_one(m, False, (2 * m["bps"],), tl, obs, mutate)
        hit = any(o["status"] == "violated" and o["replay"]["reproduced"] for o in obs)
        return [ob("selftest:swapped-labels", "selftest", "holds" if hit else "error", what="" if hit else "mutant not flagged")]
    bps = m["bps"]
    Ls = [2] if (m["order"] or 2) > 16 else [tier(2, 3)]
    if m.get("memory") and (m["order"] or 2) <= 4 and 3 not in Ls:
        Ls = Ls + [3]          # schemes with memory: also an odd number of symbols per row (alternating constellations restart per row)
    try:
        for via in ([False, True] if m.get("registry") else [False]):
            for L in Ls:
                shapes = [(bps * L,), (2, bps * L), (2, 2, bps * L)] if not via else [(2, bps * L)]
                if bps * L * 4 > 64:
                    shapes = shapes[:2]
                for shape in shapes:
                    run_one(m, via, shape, tl, obs)
        if m["name"] in LONG_MODEMS and (TIER == "thorough" or m["name"] in LONG_QUICK):
            run_one(m, False, (LONG_SYMBOLS * bps,), tl, obs, long=True)
    except NotEncodable as e:
        obs.append(ob("harness", m["name"], "error", what=f"NotEncodable: {e}"))
    return obs


LONG_QUICK = ("DPSK4(gray=False)", "PSK4(gray=True)", "QAM16(gray=True,normalize=True)")
LONG_MODEMS = LONG_QUICK + ("BPSK", "DBPSK", "DPSK2(gray=False)", "DPSK8(gray=False)", "QPSK(normalize=True)", "PSK8(gray=True)", "PAM4(gray=True,normalize=True)", "OQPSK(normalize=True)",
                            "QAM4(gray=True,normalize=True)")   # not pi/4-QPSK: its 1-D hard output is a known finding (returns symbols)


def replay(body):
    for m in modem_specs():
        if body["config"].startswith(m["name"] + " ") or body["config"].startswith(m["name"] + " via"):
            obs = work({"modem": m})
            if any(o["config"] == body["config"] and o["clause"] == body["clause"] and o["status"] == "violated" and o["replay"]["reproduced"] for o in obs):
                return True
    return False


def main():
    replay_main(__name__)
    ck = Check(PID)
    items = [dict(modem=m, config=m["name"], stretch=bool(m.get("stretch"))) for m in modem_specs()]
    sm = [m for m in modem_specs() if m["name"] == "PSK8(gray=True)"][0]
    items.append(dict(modem=sm, selftest=True, config="selftest"))
    import kaira.modulations as MM
    ck.encoded(MM.BPSKModulator.forward, MM.BPSKDemodulator.forward, MM.QPSKModulator.forward, MM.QPSKDemodulator.forward, MM.PSKModulator.forward, MM.PSKDemodulator.forward,
               MM.QAMModulator.forward, MM.QAMDemodulator.forward, MM.PAMModulator.forward, MM.PAMDemodulator.forward, MM.DPSKModulator.forward, MM.DPSKDemodulator.forward,
               MM.OQPSKModulator.forward, MM.OQPSKDemodulator.forward, MM.Pi4QPSKModulator.forward, MM.Pi4QPSKDemodulator.forward, MM.IdentityModulator.forward)
    ck.bound("inputs", f"every bit sequence of L = {tier(2, 3)} symbols (2 for orders > 16) in layouts (bL,), (2,bL), (2,2,bL): one query per output tensor")
    ck.bound("long frames", f"{LONG_SYMBOLS} symbols with the bits of symbols {LONG_WINDOW} symbolic and a fixed pseudo-random pattern elsewhere (block/chunk boundaries of vectorised code): {len(LONG_QUICK)} modems (quick) / {len(LONG_MODEMS)} (thorough)")
    ck.bound("catalogue", f"{len(items) - 1} scheme/order/labelling/normalisation options, each also through ModulationRegistry.create where registered")
    ck.assume("values that depend on a few input bits are kept as finite tables whose leaves are computed by torch itself (exact float32/complex64): no reals-for-floats gap in this check")
    ck.assume("memory schemes: after reset_state() and eval(); DPSK: the reference symbol's bits are not returned; OQPSK: quadrature stream delayed by one symbol, its first output (reset state) unconstrained")
    ck.run_items(__name__, "work", items)
    ck.finish(min_obligations=40)


if __name__ == "__main__":
    main()
