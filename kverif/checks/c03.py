"""C03 — the (n, k, d) and structure a code object advertises are its true parameters."""
from __future__ import annotations

import math

import torch
import z3
from torch.utils._python_dispatch import _disable_current_modes

from .. import sym as S
from ..catalog import code_specs, build_code, cfg, spec, pmod
from ..common import Check, Tally, ob, tier, replay_main, TIER
from ..engine import fresh_bits, elems
from ..harness import sym_paths, decide, model_bits, real_bits, concolic, to_int_matrix, zor, zand
from ..sym import NotEncodable
from .c01 import ref_check_matrix, xor_dot

PID = "C03"


def advertised(enc):
    """(d_adv, exact?, source) from the object's own API / documented formula"""
    name = type(enc).__name__
    n, k = enc.code_length, enc.code_dimension
    if name == "HammingCodeEncoder":
        return enc.minimum_distance(), True, "minimum_distance()"
    if name == "GolayCodeEncoder":
        return enc.minimum_distance(), True, "minimum_distance()"
    if name == "BCHCodeEncoder":
        return enc.minimum_distance(), False, "minimum_distance() (= design distance, a lower bound)"
    if name == "CyclicCodeEncoder":
        return enc.minimum_distance(), k <= 12, "minimum_distance() (enumeration for k<=12, 'lower bound' above)"
    if name == "RepetitionCodeEncoder":
        return n, True, "documented d = n"
    if name == "SingleParityCheckCodeEncoder":
        return enc.minimum_distance, True, "minimum_distance attribute"
    if name == "ReedMullerCodeEncoder":
        return enc.minimum_distance, True, "minimum_distance attribute (2^(m-r))"
    if name == "ReedSolomonCodeEncoder":
        return enc.delta, False, "documented d = delta"
    return None, False, ""


def clauses(enc, config, tl):
    obs = []
    n, k = enc.code_length, enc.code_dimension

    def rec(clause, status, **kw):
        obs.append(ob(clause, config, status, **kw, **tl.take()))

    def run(ctx):
        m = fresh_bits("m", (1, k))
        return dict(m=m, c=enc(m))
    paths = sym_paths(run, (), tl)
    ctx, R = paths[0]
    m, c = elems(R["m"]), elems(R["c"])
    okc, detail = concolic(ctx, {"m": R["m"]}, lambda m: enc(m), [R["c"]], tl)
    if not okc:
        rec("harness", "error", what="concolic disagreement: " + detail)
        return obs
    # ---- length / dimension / rate ------------------------------------------------------------------
    bad = []
    if len(c) != n:
        bad.append(f"encoder emits {len(c)} bits per block, code_length says {n}")
    if abs(enc.code_rate - k / n) > 1e-12:
        bad.append(f"code_rate {enc.code_rate} != k/n = {k}/{n}")
    if enc.redundancy != n - k:
        bad.append(f"redundancy {enc.redundancy} != n-k")
    st, model = decide(ctx, z3.And(zand([z3.Not(S.zbool(x)) for x in c]), zor([S.zbool(b) for b in m])))
    if st == "violated":
        bad.append(f"dimension: non-zero message {model_bits(model, 'm', k)} maps to the zero word, true dimension < {k}")
    rec("length-dimension-rate", "violated" if bad else ("holds" if st == "holds" else st), what="; ".join(bad), witness={"issues": bad} if bad else None, replay={"reproduced": True} if bad else None)
    # ---- minimum distance ---------------------------------------------------------------------------
    d_adv, exact, src = advertised(enc)
    nz = zor([S.zbool(b) for b in m])
    cb = [S.zbool(x) for x in c]
    d_true_lb = None
    if d_adv is not None:
        d_adv = int(d_adv)
        st, model = decide(ctx, z3.And(nz, z3.PbLe([(b, 1) for b in cb], d_adv - 1))) if d_adv >= 1 else ("holds", None)
        if st == "violated":
            mb = model_bits(model, "m", k)
            with _disable_current_modes():
                w = int(enc(real_bits(mb, (1, k))).sum().item())
            rec("min-distance>=advertised", st, what=f"advertised d = {d_adv} ({src}) but message {mb} encodes to a word of weight {w}",
                witness={"m": mb, "weight": w, "advertised": d_adv}, replay={"reproduced": 0 < w < d_adv})
        else:
            rec("min-distance>=advertised", st, sample=dict(query=f"exists m != 0: wt(enc(m)) <= {d_adv - 1}", n=n, k=k, result=st, source=src))
            if st == "holds":
                d_true_lb = d_adv
        if exact:
            st2, model = decide(ctx, z3.And(nz, z3.PbEq([(b, 1) for b in cb], d_adv)))
            # here 'violated' means a witness of weight exactly d_adv exists, which is what we want
            if st2 == "violated":
                mb = model_bits(model, "m", k)
                with _disable_current_modes():
                    w = int(enc(real_bits(mb, (1, k))).sum().item())
                if w == d_adv:
                    rec("min-distance-exact", "holds", sample=dict(query=f"exists m: wt(enc(m)) == {d_adv}", witness=mb))
                else:
                    rec("harness", "error", what="weight witness does not replay")
            elif st2 == "holds":
                rec("min-distance-exact", "violated", what=f"documented exact distance {d_adv} ({src}) is not attained: every non-zero codeword is heavier",
                    witness={"advertised": d_adv, "attained": False}, replay={"reproduced": True})
            else:
                rec("min-distance-exact", st2)
    # ---- error-correction capability ----------------------------------------------------------------
    if hasattr(enc, "error_correction_capability") and hasattr(enc, "delta"):
        t = enc.error_correction_capability
        if t != (enc.delta - 1) // 2:
            rec("capability", "violated", what=f"error_correction_capability {t} != floor((delta-1)/2) with delta={enc.delta}", witness={"t": t}, replay={"reproduced": True})
        else:
            rec("capability", "holds")
    if type(enc).__name__ == "GolayCodeEncoder":
        t = enc.error_correction_capability
        rec("capability", "holds" if t == (int(d_adv) - 1) // 2 else "violated", what="" if t == (int(d_adv) - 1) // 2 else f"capability {t} vs d={d_adv}",
            witness=None if t == (int(d_adv) - 1) // 2 else {"t": t}, replay=None if t == (int(d_adv) - 1) // 2 else {"reproduced": True})
    # ---- perfect codes ------------------------------------------------------------------------------
    name = type(enc).__name__
    if name in ("HammingCodeEncoder", "GolayCodeEncoder") and not enc.extended and d_true_lb is not None:
        t = (d_true_lb - 1) // 2
        vol = sum(math.comb(n, i) for i in range(t + 1))
        okp = vol == 2 ** (n - k)
        rec("sphere-packing", "holds" if okp else "violated", what="" if okp else f"sum_i<=t C(n,i) = {vol} != 2^(n-k) = {2 ** (n - k)}",
            witness=None if okp else {"vol": vol}, replay=None if okp else {"reproduced": True})
    # ---- cyclic structure ---------------------------------------------------------------------------
    if hasattr(enc, "generator_poly"):
        info = item_info(config)
        g = enc.generator_poly.value
        gdiv = pmod((1 << n) | 1, g) == 0
        with _disable_current_modes():
            from kaira.models.fec.algebra import BinaryPolynomial
            real_rem = (BinaryPolynomial((1 << n) | 1) % BinaryPolynomial(g)).value
        if not gdiv or real_rem != 0:
            rec("g-divides-x^n+1", "violated", what=f"generator polynomial {bin(g)} does not divide X^{n}+1", witness={"g": g}, replay={"reproduced": True})
        else:
            rec("g-divides-x^n+1", "holds")
        if info in ("left", "right"):
            G = to_int_matrix(enc.generator_matrix)
            Href, rk = ref_check_matrix(G)
            ref = [xor_dot(m, [G[i][j] for i in range(k)]) for j in range(n)]
            st0, _ = decide(ctx, zor([S.zbool(S.ne(a, b)) for a, b in zip(c, ref)]))
            if st0 != "holds" or rk != k:
                rec("cyclic-closure", "inconclusive" if st0 == "inconclusive" else "violated", what="published generator does not describe the encoder (see C01): closure oracle unavailable",
                    witness={"oracle": "unavailable"}, replay={"reproduced": True})
            else:
                shifted = c[-1:] + c[:-1]
                st, model = decide(ctx, zor([S.zbool(xor_dot(shifted, h)) for h in Href])) if Href else ("holds", None)
                if st == "violated":
                    mb = model_bits(model, "m", k)
                    with _disable_current_modes():
                        cw = [int(v) for v in enc(real_bits(mb, (1, k))).flatten().tolist()]
                        sh = cw[-1:] + cw[:-1]
                        rep = any(sum(a * b for a, b in zip(sh, h)) % 2 for h in Href)
                    rec("cyclic-closure", st, what=f"cyclic shift of the codeword of m={mb} is not a codeword", witness={"m": mb, "codeword": cw}, replay={"reproduced": rep})
                else:
                    rec("cyclic-closure", st)
            # multiples of g, natural or reversed coefficient order
            from kaira.models.fec.algebra import BinaryPolynomial
            with _disable_current_modes():
                rems = [(BinaryPolynomial(1 << j) % BinaryPolynomial(g)).value for j in range(n)]
            if rems != [pmod(1 << j, g) for j in range(n)]:
                rec("harness", "error", what="kaira's X^j mod g disagrees with the independent bitmask routine (C18 territory)")
            deg = g.bit_length() - 1

            def notmult(order):
                bits = []
                for b in range(deg):
                    acc = False
                    for j in range(n):
                        if (rems[j] >> b) & 1:
                            acc = S.bxor(acc, c[j] if order == "natural" else c[n - 1 - j])
                    bits.append(S.zbool(acc))
                return zor(bits)
            res = {}
            for order in ("natural", "reversed"):
                res[order] = decide(ctx, notmult(order))
            if any(r[0] == "holds" for r in res.values()):
                rec("multiples-of-g", "holds", sample=dict(orders={o: r[0] for o, r in res.items()}))
            elif all(r[0] == "violated" for r in res.values()):
                mb = model_bits(res["natural"][1], "m", k)
                with _disable_current_modes():
                    cw = [int(v) for v in enc(real_bits(mb, (1, k))).flatten().tolist()]
                val = sum(b << j for j, b in enumerate(cw))
                rep = pmod(val, g) != 0
                rec("multiples-of-g", "violated", what=f"codeword of m={mb} is not a multiple of g(X)={bin(g)} (natural order; a reversed-order witness exists too)",
                    witness={"m": mb, "codeword": cw}, replay={"reproduced": rep})
            else:
                rec("multiples-of-g", "inconclusive")
    return obs


def item_info(config):
    if "information_set='right'" in config:
        return "right"
    if "information_set=[" in config:
        return "custom"
    return "left"


def work(item):
    tl = Tally()
    s = item["spec"]
    config = cfg(s)
    try:
        enc = build_code(s)
    except (ValueError, AssertionError, RuntimeError, IndexError):
        return []
    if item.get("after"):
        # call history: another object with the same generator polynomial but a different length was queried first
        try:
            first = build_code(item["after"])
            first.minimum_distance()
            enc = build_code(s)          # built after the first query, as a user session would
        except (ValueError, AssertionError, RuntimeError, IndexError):
            return []
        config = config + " after " + cfg(item["after"]) + ".minimum_distance()"
    if item.get("selftest") == "ext-column":
        # mutant: extension column all ones instead of overall parity -> d = 3 for extended Hamming
        enc._parity_submatrix_buffer[:, -1] = 1.0
        obs = clauses(enc, config, tl)
        hit = any(o["status"] == "violated" and o["clause"] == "min-distance>=advertised" and o["replay"]["reproduced"] for o in obs)
        return [ob("selftest:ext-column-all-ones", config, "holds" if hit else "error", what="" if hit else "mutant not flagged")]
    try:
        return clauses(enc, config, tl)
    except NotEncodable as e:
        return [ob("harness", config, "error", what=f"NotEncodable: {e}")]


def replay(body):
    for s in code_specs(["hamming", "repetition", "spc", "rm", "cyclic", "bch", "golay", "rs"]):
        if cfg(s) == body["config"]:
            obs = work({"spec": s})
            return any(o["clause"] == body["clause"] and o["status"] == "violated" and o["replay"]["reproduced"] for o in obs)
    return False


def main():
    replay_main(__name__)
    ck = Check(PID)
    specs = code_specs(["hamming", "repetition", "spc", "rm", "cyclic", "bch", "golay", "rs"])
    items = [{"spec": s, "config": cfg(s), "stretch": bool(s.get("stretch"))} for s in specs]
    items.append({"spec": spec("HammingCodeEncoder", mu=3, extended=True), "config": "selftest", "selftest": "ext-column"})
    # advertised values must not depend on which other code objects were queried before (same g(X), different length)
    for g, n1, n2 in ((0b111, 3, 6), (0b111, 9, 3), (0b1011, 7, 14), (0b1011, 14, 7), (0b11111, 5, 10), (0b11, 4, 6)):
        a = spec("CyclicCodeEncoder", code_length=n1, generator_polynomial=g)
        b = spec("CyclicCodeEncoder", code_length=n2, generator_polynomial=g)
        items.append({"spec": b, "after": a, "config": cfg(b) + " after " + cfg(a)})
    from kaira.models.fec.encoders import cyclic_code, bch_code, hamming_code, golay_code, reed_muller_code, reed_solomon_code, systematic_linear_block_code as SL, linear_block_code as L
    ck.encoded(L.LinearBlockCodeEncoder.forward, SL.SystematicLinearBlockCodeEncoder.forward, cyclic_code.CyclicCodeEncoder._generate_systematic_matrix,
               cyclic_code.CyclicCodeEncoder.minimum_distance, bch_code.compute_bch_generator_polynomial, hamming_code.create_hamming_parity_submatrix,
               golay_code.create_golay_parity_submatrix, reed_muller_code._generate_reed_muller_matrix, reed_solomon_code.ReedSolomonCodeEncoder._create_generator_matrix)
    ck.bound("catalogue", f"{len(specs)} code objects, n <= 31 (quick) / 32 (+ n = 63/64 stretch) ; all 2^k messages per query")
    ck.assume("advertised distance = the object's minimum_distance()/attribute, or the documented formula where no attribute exists (repetition: n; RS-style: delta)")
    ck.run_items(__name__, "work", items)
    ck.finish(min_obligations=50)


if __name__ == "__main__":
    main()
