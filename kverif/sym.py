"""Symbolic scalar algebra for the E1 engine.

Scalar kinds that can sit in one element of a symbolic tensor:
  concrete      python bool / int / float (floats of float32 tensors are kept float32-representable)
  Aff           affine form over GF(2): XOR of Bool variables (+ const); value in {0,1}; canonical
  BX            arbitrary z3 Bool term; value in {0,1}
  Poly          sparse polynomial with exact rational coefficients over atoms; atoms are 0/1 indicators
                (Aff without constant, BX) or z3 Int / Real terms (variables, purified sqrt/div, ite)
  SqrtV         +sqrt(Poly), kept lazy so that comparisons of moduli compare radicands exactly
  Cx            complex number = pair of real scalars
  Cases         finite case list [(guard, value)], guards mutually exclusive and exhaustive
The solver never sees `mod`: GF(2) arithmetic is normalised in Aff, integer sums of bits stay linear
(pseudo-Boolean atoms), real arithmetic is polynomially normalised before a comparison is emitted.
"""
from __future__ import annotations

import math
from fractions import Fraction

import z3


class NotEncodable(Exception):
    pass


# ------------------------------------------------------------------------------------------------
# path context hooks (set by engine): side conditions from purification live on the current path
# ------------------------------------------------------------------------------------------------
class _Env:
    side = None          # list to which purification constraints are appended (engine sets per path)
    defined = None       # list of definedness conditions (divisor != 0, radicand >= 0)
    fresh_counter = 0
    serial = 0           # unique number of the current path context (memo keys; id() of a dead list may be reused)
    inv_mode = False     # when set, a/b with a symbolic divisor is a * inv(b) with one reciprocal variable per divisor (up to scale)
    tainted = False      # set when a symbolic real was boxed into a Python float on the current path (see nanbox)
    kink_margin = 0      # when > 0, definedness conditions are recorded with this margin (radicand >= margin, |divisor| >= margin)
    tiefree = False      # when set, sign(x) of a symbolic real assumes x != 0 (recorded as a path assumption)
    tie_assumptions = 0


ENV = _Env()
_PURE = {}    # memo of purification variables per path (same operands -> same variable)
_DEFS = {}    # atom id of a purification / UF variable -> its definition (used by deriv())


def fresh_real(prefix="t"):
    ENV.fresh_counter += 1
    return z3.Real(f"__{prefix}{ENV.fresh_counter}")


_DEF_CONS = {}   # name of a purification variable -> the side constraints that define it (for cone-of-influence slicing)
_DEF_IDS = set()  # ids of the z3 constraints registered in _DEF_CONS


def add_side(c, defines=None):
    if ENV.side is None:
        raise NotEncodable("purification outside a path context")
    ENV.side.append(c)
    if defines is not None:
        for v in (defines if isinstance(defines, (list, tuple)) else [defines]):
            _DEF_CONS.setdefault(str(v), []).append(c)
        _DEF_IDS.add(c.get_id())


def add_defined(c):
    if ENV.defined is not None:
        ENV.defined.append(c)


# ------------------------------------------------------------------------------------------------
# GF(2) affine forms
# ------------------------------------------------------------------------------------------------
class Aff:
    __slots__ = ("vs", "c", "_z", "_h")

    def __init__(self, vs, c=0):
        self.vs = vs if isinstance(vs, frozenset) else frozenset(vs)
        self.c = c & 1
        self._z = None
        self._h = None

    def __hash__(self):
        if self._h is None:
            self._h = hash((self.vs, self.c))
        return self._h

    def __eq__(self, o):
        return isinstance(o, Aff) and self.vs == o.vs and self.c == o.c

    def __repr__(self):
        return "Aff(" + "^".join(sorted(self.vs)) + ("^1" if self.c else "") + ")"

    def z3(self):
        if self._z is None:
            vs = sorted(self.vs)
            e = z3.Bool(vs[0])
            for v in vs[1:]:
                e = z3.Xor(e, z3.Bool(v))
            if self.c:
                e = z3.Not(e)
            self._z = e
        return self._z


class BX:
    """general Boolean z3 term as a 0/1 value"""
    __slots__ = ("e",)

    def __init__(self, e):
        self.e = e

    def __repr__(self):
        return f"BX({self.e})"


def bitvar(name):
    return Aff(frozenset([name]), 0)


def is_conc(x):
    return isinstance(x, (bool, int, float))


# ---- NaN boxes: float(x) of a symbolic real must be an exact Python float; it is a quiet NaN whose payload indexes the
# symbolic value.  Re-entering symbolic arithmetic (or torch.tensor) unboxes it.  Python-level float arithmetic on the
# box in between is invisible, so a path that ever boxed a value is *tainted*: its obligations can be violated
# (replay-confirmed) but never 'holds'.
_NANBOX = {}
_NANBOX_NEXT = [1]


def nanbox(v):
    import struct
    k = _NANBOX_NEXT[0]
    _NANBOX_NEXT[0] = k + 1 if k < (1 << 21) - 1 else 1
    _NANBOX[k] = v
    ENV.tainted = True
    return struct.unpack("<d", struct.pack("<Q", 0x7ff8000000000000 | (k << 29)))[0]


def unbox(x):
    """symbolic value of a NaN box, else None"""
    import struct
    bits = struct.unpack("<Q", struct.pack("<d", x))[0]
    return _NANBOX.get((bits >> 29) & ((1 << 21) - 1))


def _dg(x):
    """finite-table values (kverif.gtab.G) take part in scalar arithmetic as case lists; NaN boxes are opened"""
    if type(x) is float:
        if x != x:
            v = unbox(x)
            if v is not None:
                return v
        return x
    if type(x).__name__ == "G":
        return x.cases()
    return x


def is_bitlike(x):
    return isinstance(x, (Aff, BX)) or (is_conc(x) and x in (0, 1))


def zbool(x):
    """0/1-valued or arbitrary scalar -> z3 Bool meaning (x != 0)"""
    if isinstance(x, Aff):
        return x.z3()
    if isinstance(x, BX):
        return x.e
    if is_conc(x):
        return z3.BoolVal(bool(x))
    if type(x).__name__ == "G":
        return x.zbool()
    if isinstance(x, Cases):
        ts = []
        for g, v in x.cs:
            t = band(g, tobit(v))
            if is_conc(t):
                if t:
                    return z3.BoolVal(True)
                continue
            ts.append(zbool(t))
        return z3.Or(ts) if len(ts) > 1 else (ts[0] if ts else z3.BoolVal(False))
    if isinstance(x, (Poly, SqrtV)):
        return zbool(ne(x, 0))
    if isinstance(x, Cx):
        return z3.Or(zbool(ne(x.re, 0)), zbool(ne(x.im, 0)))
    raise NotEncodable(f"zbool({type(x).__name__})")


def mkbx(e):
    if z3.is_true(e):
        return True
    if z3.is_false(e):
        return False
    return BX(e)


def bxor(a, b):
    if is_conc(a) and is_conc(b):
        return bool(a) != bool(b)
    if is_conc(a):
        a, b = b, a
    if is_conc(b):
        if not b:
            return a
        return bnot(a)
    if isinstance(a, Aff) and isinstance(b, Aff):
        vs = a.vs ^ b.vs
        c = a.c ^ b.c
        return Aff(vs, c) if vs else bool(c)
    return mkbx(z3.Xor(zbool(a), zbool(b)))


def bnot(a):
    if is_conc(a):
        return not a
    if isinstance(a, Aff):
        return Aff(a.vs, a.c ^ 1)
    return mkbx(z3.Not(zbool(a)))


def band(a, b):
    if is_conc(a):
        return b if a else False
    if is_conc(b):
        return a if b else False
    if isinstance(a, Aff) and isinstance(b, Aff) and a == b:
        return a
    return mkbx(z3.And(zbool(a), zbool(b)))


def bor(a, b):
    if is_conc(a):
        return True if a else b
    if is_conc(b):
        return True if b else a
    if isinstance(a, Aff) and isinstance(b, Aff) and a == b:
        return a
    return mkbx(z3.Or(zbool(a), zbool(b)))


def tobit(x):
    x = _dg(x)
    """scalar -> bit-like truth value (x != 0)"""
    if is_bitlike(x):
        return x
    if is_conc(x):
        return bool(x)
    return ne(x, 0)


# ------------------------------------------------------------------------------------------------
# atoms and polynomials
# ------------------------------------------------------------------------------------------------
class Atom:
    __slots__ = ("id", "kind", "p", "is_int")
    # kind: 'bit' (p = Aff with c == 0, or z3 Bool expr), 'num' (p = z3 Int/Real expr)


_ATOMS = {}
_ATOM_BY_ID = []


def _atom(key, kind, p, is_int):
    a = _ATOMS.get(key)
    if a is None:
        a = Atom()
        a.id = len(_ATOM_BY_ID)
        a.kind = kind
        a.p = p
        a.is_int = is_int
        _ATOMS[key] = a
        _ATOM_BY_ID.append(a)
    return a


def atom_of_aff(a):
    assert a.c == 0
    return _atom(("a", a.vs), "bit", a, True)


def atom_of_bool(e):
    return _atom(("b", e.get_id()), "bit", e, True)


def atom_of_num(e):
    return _atom(("n", e.get_id()), "num", e, z3.is_int(e))


def atom_bool_z3(a):
    return a.p.z3() if isinstance(a.p, Aff) else a.p


def F(x):
    if isinstance(x, Fraction):
        return x
    if isinstance(x, bool):
        return Fraction(int(x))
    if isinstance(x, int):
        return Fraction(x)
    if isinstance(x, float):
        if math.isnan(x) or math.isinf(x):
            raise NotEncodable("non-finite constant in symbolic arithmetic")
        return Fraction(x)
    raise NotEncodable(f"F({type(x).__name__})")


class Poly:
    """terms: {monomial: Fraction}; monomial = tuple of (atom_id, power) sorted; () = constant"""
    __slots__ = ("t", "_z")

    def __init__(self, t):
        self.t = t
        self._z = None

    def __repr__(self):
        return "Poly(" + " + ".join(f"{c}*{m}" for m, c in list(self.t.items())[:6]) + (" ..." if len(self.t) > 6 else "") + ")"

    @property
    def is_int(self):
        for m, c in self.t.items():
            if c.denominator != 1:
                return False
            for aid, _ in m:
                if not _ATOM_BY_ID[aid].is_int:
                    return False
        return True

    def const(self):
        return self.t.get((), Fraction(0))

    def is_const(self):
        return all(m == () for m in self.t)

    def degree(self):
        return max((sum(p for _, p in m) for m in self.t), default=0)

    def atoms(self):
        s = set()
        for m in self.t:
            for aid, _ in m:
                s.add(aid)
        return s


def _norm(t):
    t = {m: c for m, c in t.items() if c != 0}
    return Poly(t)


def _simp(p):
    """Poly -> simplest scalar"""
    if not p.t:
        return 0
    if len(p.t) == 1:
        (m, c), = p.t.items()
        if m == ():
            return int(c) if c.denominator == 1 else float(c)
        if c == 1 and len(m) == 1 and m[0][1] == 1:
            a = _ATOM_BY_ID[m[0][0]]
            if a.kind == "bit":
                return a.p if isinstance(a.p, Aff) else BX(a.p)
    elif len(p.t) == 2 and p.t.get(()) == 1:
        # 1 - bit
        for m, c in p.t.items():
            if m != () and c == -1 and len(m) == 1 and m[0][1] == 1:
                a = _ATOM_BY_ID[m[0][0]]
                if a.kind == "bit":
                    return bnot(a.p if isinstance(a.p, Aff) else BX(a.p))
    return p


def topoly(x):
    if isinstance(x, Poly):
        return x
    x = _dg(x)
    if isinstance(x, Aff):
        if not x.vs:
            return Poly({(): Fraction(x.c)} if x.c else {})
        a = atom_of_aff(Aff(x.vs, 0))
        if x.c:
            return Poly({(): Fraction(1), ((a.id, 1),): Fraction(-1)})
        return Poly({((a.id, 1),): Fraction(1)})
    if isinstance(x, BX):
        e = x.e
        if z3.is_not(e):
            a = atom_of_bool(e.arg(0))
            return Poly({(): Fraction(1), ((a.id, 1),): Fraction(-1)})
        a = atom_of_bool(e)
        return Poly({((a.id, 1),): Fraction(1)})
    if isinstance(x, (bool, int, float, Fraction)):
        f = F(x)
        return Poly({(): f} if f != 0 else {})
    if isinstance(x, SqrtV):
        return topoly(x.purify())
    if isinstance(x, Cases):
        return topoly(x.collapse())
    if isinstance(x, z3.ExprRef):
        a = atom_of_num(x)
        return Poly({((a.id, 1),): Fraction(1)})
    raise NotEncodable(f"topoly({type(x).__name__})")


def realvar(name):
    return topoly(z3.Real(name))


def intvar(name):
    return topoly(z3.Int(name))


def _mul_mono(m1, m2):
    if not m1:
        return m2
    if not m2:
        return m1
    d = dict(m1)
    for aid, p in m2:
        d[aid] = d.get(aid, 0) + p
    bits = [aid for aid in d if _ATOM_BY_ID[aid].kind == "bit"]
    if bits:
        for aid in bits:
            d[aid] = 1          # idempotent
        if len(bits) > 1:       # merge several indicator atoms into one conjunction atom
            e = z3.And([atom_bool_z3(_ATOM_BY_ID[aid]) for aid in sorted(bits)])
            for aid in bits:
                del d[aid]
            a = atom_of_bool(e)
            d[a.id] = 1
    return tuple(sorted(d.items()))


def padd(a, b, sb=1):
    t = dict(a.t)
    for m, c in b.t.items():
        v = t.get(m, 0) + sb * c
        if v == 0:
            t.pop(m, None)
        else:
            t[m] = v
    return Poly(t)


def pmul(a, b):
    if len(a.t) > len(b.t):
        a, b = b, a
    t = {}
    for m1, c1 in a.t.items():
        for m2, c2 in b.t.items():
            m = _mul_mono(m1, m2)
            v = t.get(m, 0) + c1 * c2
            if v == 0:
                t.pop(m, None)
            else:
                t[m] = v
    return Poly(t)


def pscale(a, k):
    k = F(k)
    if k == 0:
        return Poly({})
    return Poly({m: c * k for m, c in a.t.items()})


def zreal_const(c):
    return z3.RealVal(f"{c.numerator}/{c.denominator}") if c.denominator != 1 else z3.RealVal(c.numerator)


def poly_z3(p, want_int=None):
    """Poly -> z3 arithmetic term (Int if the polynomial is integral, else Real)"""
    as_int = p.is_int if want_int is None else want_int
    key = as_int
    if p._z is not None and p._z[0] == key:
        return p._z[1]
    terms = []
    for m, c in p.t.items():
        fs = []
        for aid, pw in m:
            a = _ATOM_BY_ID[aid]
            if a.kind == "bit":
                continue
            e = a.p
            if not as_int and z3.is_int(e):
                e = z3.ToReal(e)
            for _ in range(pw):
                fs.append(e)
        cv = z3.IntVal(c.numerator) if as_int else zreal_const(c)
        bits = [atom_bool_z3(_ATOM_BY_ID[aid]) for aid, _ in m if _ATOM_BY_ID[aid].kind == "bit"]
        body = cv
        for f in fs:
            body = body * f
        if bits:
            zero = z3.IntVal(0) if as_int else z3.RealVal(0)
            body = z3.If(bits[0] if len(bits) == 1 else z3.And(bits), body, zero)
        terms.append(body)
    if not terms:
        e = z3.IntVal(0) if as_int else z3.RealVal(0)
    elif len(terms) == 1:
        e = terms[0]
    else:
        e = z3.Sum(terms)
    p._z = (key, e)
    return e


def _pb_form(p):
    """if p = sum c_i * bit_i + c0 with integer coefficients: ([(boolexpr, c_i)], c0) else None"""
    args = []
    c0 = 0
    for m, c in p.t.items():
        if c.denominator != 1:
            return None
        if m == ():
            c0 = c.numerator
            continue
        if len(m) != 1 or _ATOM_BY_ID[m[0][0]].kind != "bit":
            return None
        args.append((atom_bool_z3(_ATOM_BY_ID[m[0][0]]), c.numerator))
    return args, c0


def _scale_to_int(p):
    """multiply by the lcm of denominators when every atom is a bit (keeps sign)"""
    den = 1
    for m, c in p.t.items():
        for aid, _ in m:
            if _ATOM_BY_ID[aid].kind != "bit":
                return None
        den = den * c.denominator // math.gcd(den, c.denominator)
    if den == 1:
        return p
    return pscale(p, den)


def pcmp0(p, op):
    """z3 Bool (or python bool) for  p <op> 0,  op in '<', '<=', '==', '!='"""
    if p.is_const():
        c = p.const()
        return {"<": c < 0, "<=": c <= 0, "==": c == 0, "!=": c != 0}[op]
    q = _scale_to_int(p)
    if q is not None:
        pb = _pb_form(q)
        if pb is not None and all(abs(c) < (1 << 30) for _, c in pb[0]) and abs(pb[1]) < (1 << 30):
            args, c0 = pb
            if op == "<=":
                return z3.PbLe(args, -c0)
            if op == "<":
                return z3.PbLe(args, -c0 - 1)
            if op == "==":
                return z3.PbEq(args, -c0)
            return z3.Not(z3.PbEq(args, -c0))
    e = poly_z3(p)
    zero = z3.IntVal(0) if z3.is_int(e) else z3.RealVal(0)
    return {"<": e < zero, "<=": e <= zero, "==": e == zero, "!=": e != zero}[op]


# ------------------------------------------------------------------------------------------------
# lazy square roots, complex numbers, finite case lists
# ------------------------------------------------------------------------------------------------
class SqrtV:
    __slots__ = ("p", "_pur")

    def __init__(self, p):
        self.p = p  # Poly (radicand, assumed >= 0 : recorded as definedness condition)
        self._pur = None

    def purify(self):
        if self._pur is None:
            key = ("sqrt", ENV.serial, frozenset(self.p.t.items()))
            if key in _PURE:
                self._pur = _PURE[key]
                return self._pur
            s = fresh_real("sqrt")
            ps = topoly(s)
            add_side(s >= 0, defines=s)
            add_side(zbool(eq(pmul(ps, ps), self.p)), defines=s)
            self._pur = ps
            _PURE[key] = ps
            _DEFS[_single_atom(ps)] = ("sqrt", self.p)
        return self._pur


class Cx:
    __slots__ = ("re", "im")

    def __init__(self, re, im):
        self.re = re
        self.im = im

    def __repr__(self):
        return f"Cx({self.re}, {self.im})"


def tocx(x):
    x = _dg(x)
    if isinstance(x, Cx):
        return x
    if isinstance(x, Cases):
        return Cx(x.map(lambda v: tocx(v).re), x.map(lambda v: tocx(v).im))
    if isinstance(x, complex):
        return Cx(x.real, x.imag)
    return Cx(x, 0.0 if isinstance(x, float) else 0)


class Cases:
    """[(guard(bit-like), value)] — guards mutually exclusive and exhaustive"""
    __slots__ = ("cs",)

    def __init__(self, cs):
        self.cs = cs

    def map(self, f):
        return mkcases([(g, f(v)) for g, v in self.cs])

    def collapse(self):
        """to a Poly / bit-like by ite summation"""
        vals = [v for _, v in self.cs]
        if all(is_bitlike(v) for v in vals):
            ts = []
            for g, v in self.cs:
                t = band(g, v)
                if is_conc(t):
                    if t:
                        return True
                    continue
                ts.append(zbool(t))
            if not ts:
                return False
            return BX(z3.Or(ts)) if len(ts) > 1 else BX(ts[0])
        acc = Poly({})
        for g, v in self.cs:
            acc = padd(acc, pmul(topoly(g), topoly(v)))
        return _simp(acc)


def mkcases(cs):
    cs = [(g, v) for g, v in cs if not (is_conc(g) and not g)]
    if len(cs) == 1:
        return cs[0][1]
    groups = {}
    order = []
    for g, v in cs:
        if is_conc(v) or isinstance(v, Aff):
            k = (type(v).__name__, v)
        else:
            k = ("id", id(v))
        if k not in groups:
            groups[k] = ([], v)
            order.append(k)
        groups[k][0].append(g)
    out = []
    for k in order:
        gs, v = groups[k]
        if len(gs) == 1:
            out.append((gs[0], v))
        elif any(is_conc(g) and g for g in gs):
            out.append((True, v))
        else:
            out.append((BX(z3.Or([zbool(g) for g in gs])), v))
    if len(out) == 1:
        return out[0][1]
    return Cases(out)


def lift_cases(f, *xs):
    """apply f over the cross product of case lists among xs"""
    idx = [i for i, x in enumerate(xs) if isinstance(x, Cases)]
    if not idx:
        return f(*xs)
    i = idx[0]
    out = []
    for g, v in xs[i].cs:
        ys = list(xs)
        ys[i] = v
        r = lift_cases(f, *ys)
        if isinstance(r, Cases):
            for g2, v2 in r.cs:
                out.append((band(g, g2), v2))
        else:
            out.append((g, r))
    return mkcases(out)


# ------------------------------------------------------------------------------------------------
# arithmetic on scalars
# ------------------------------------------------------------------------------------------------
def _is_sym(x):
    return not isinstance(x, (bool, int, float, complex, Fraction))


def f32(x):
    """round a python float to float32 (exact for + - * / sqrt by the double-rounding theorem)"""
    import numpy as np
    return float(np.float32(x))


def add(a, b):
    a, b = _dg(a), _dg(b)
    if not _is_sym(a) and not _is_sym(b):
        return a + b
    if isinstance(a, (Cx, complex)) or isinstance(b, (Cx, complex)):
        a, b = tocx(a), tocx(b)
        return Cx(add(a.re, b.re), add(a.im, b.im))
    if isinstance(a, Cases) or isinstance(b, Cases):
        return lift_cases(add, a, b)
    return _simp(padd(topoly(a), topoly(b)))


def sub(a, b):
    a, b = _dg(a), _dg(b)
    if not _is_sym(a) and not _is_sym(b):
        return a - b
    if isinstance(a, (Cx, complex)) or isinstance(b, (Cx, complex)):
        a, b = tocx(a), tocx(b)
        return Cx(sub(a.re, b.re), sub(a.im, b.im))
    if isinstance(a, Cases) or isinstance(b, Cases):
        return lift_cases(sub, a, b)
    return _simp(padd(topoly(a), topoly(b), -1))


def neg(a):
    a = _dg(a)
    if not _is_sym(a):
        return -a
    if isinstance(a, Cx):
        return Cx(neg(a.re), neg(a.im))
    if isinstance(a, Cases):
        return a.map(neg)
    return _simp(pscale(topoly(a), -1))


def mul(a, b):
    a, b = _dg(a), _dg(b)
    if not _is_sym(a) and not _is_sym(b):
        return a * b
    if isinstance(a, (Cx, complex)) or isinstance(b, (Cx, complex)):
        a, b = tocx(a), tocx(b)
        return Cx(sub(mul(a.re, b.re), mul(a.im, b.im)), add(mul(a.re, b.im), mul(a.im, b.re)))
    if isinstance(a, Cases) or isinstance(b, Cases):
        return lift_cases(mul, a, b)
    if is_conc(a) and a == 0 or is_conc(b) and b == 0:
        return 0
    if isinstance(a, SqrtV) and isinstance(b, SqrtV) and a.p is b.p:
        return _simp(a.p)
    if isinstance(a, SqrtV) and is_conc(b) and b > 0:
        return SqrtV(pscale(a.p, F(b) * F(b)))
    if isinstance(b, SqrtV) and is_conc(a) and a > 0:
        return SqrtV(pscale(b.p, F(a) * F(a)))
    if is_bitlike(a) and is_bitlike(b) and _is_sym(a) and _is_sym(b):
        return band(a, b)
    return _simp(pmul(topoly(a), topoly(b)))


def div(a, b):
    a, b = _dg(a), _dg(b)
    if not _is_sym(a) and not _is_sym(b):
        if b == 0:
            if isinstance(a, complex) or isinstance(b, complex):
                return complex("nan")
            return math.nan if a == 0 else math.copysign(math.inf, a) * (1 if math.copysign(1, b) > 0 else -1)
        return a / b
    if isinstance(b, (Cx, complex)):
        a, b = tocx(a), tocx(b)
        den = add(mul(b.re, b.re), mul(b.im, b.im))
        num = mul(a, Cx(b.re, neg(b.im)))
        return Cx(div(num.re, den), div(num.im, den))
    if isinstance(a, (Cx, complex)):
        a = tocx(a)
        return Cx(div(a.re, b), div(a.im, b))
    if isinstance(a, Cases) or isinstance(b, Cases):
        return lift_cases(div, a, b)
    if not _is_sym(b):
        if b == 0:
            raise NotEncodable("symbolic value divided by constant zero")
        return _simp(pscale(topoly(a), 1 / F(b)))
    pb = topoly(b)
    if pb.is_const():
        return div(a, float(pb.const()))
    pa = topoly(a)
    if ENV.inv_mode:
        return _simp(pmul(pa, _inv(pb, b)))
    key = ("div", ENV.serial, frozenset(pa.t.items()), frozenset(pb.t.items()))
    if key in _PURE:
        return _PURE[key]
    q = fresh_real("div")
    pq = topoly(q)
    nz = zbool(ne(b, 0))
    if ENV.kink_margin:
        add_defined(z3.Or(zbool(ge(b, ENV.kink_margin)), zbool(le(b, -ENV.kink_margin))))
    else:
        add_defined(nz)
    add_side(z3.Implies(nz, zbool(eq(pmul(pq, pb), pa))), defines=q)
    _PURE[key] = pq
    _DEFS[_single_atom(pq)] = ("div", pa, pb)
    if len(_PURE) > 20000:
        _PURE.clear()
    return pq


_INVREG = {}


def _monic(p):
    lead = max(p.t)
    c = p.t[lead]
    return pscale(p, 1 / c), c


def _inv(pb, b):
    """reciprocal of a non-constant polynomial as a polynomial in reciprocal variables: one variable u per divisor
    (divisors are made monic first; squares and pairwise products of divisors already met reuse their variables)"""
    pn, c = _monic(pb)
    if ENV.kink_margin:
        add_defined(z3.Or(zbool(ge(b, ENV.kink_margin)), zbool(le(b, -ENV.kink_margin))))
    else:
        add_defined(zbool(ne(b, 0)))
    key = ("inv", ENV.serial, frozenset(pn.t.items()))
    u = _PURE.get(key)
    if u is None:
        reg = _INVREG.setdefault(ENV.serial, [])
        if len(_INVREG) > 64:
            for k in list(_INVREG)[:-8]:
                del _INVREG[k]
        for i, (q1, u1) in enumerate(reg):
            for q2, u2 in reg[i:]:
                pr = pmul(q1, q2)
                if pr.t and _monic(pr)[0].t == pn.t:
                    u = pscale(pmul(u1, u2), _monic(pr)[1])
                    break
            if u is not None:
                break
        if u is None:
            v = fresh_real("inv")
            u = topoly(v)
            add_side(z3.Implies(zbool(ne(_simp(pn), 0)), zbool(eq(pmul(u, pn), 1))), defines=v)
            _DEFS[_single_atom(u)] = ("inv", pn)
            reg.append((pn, u))
        _PURE[key] = u
    return pscale(u, 1 / c)


def reciprocal(a):
    return div(1.0, a)


def sqrt(a):
    a = _dg(a)
    if isinstance(a, Cx):
        # principal complex square root w = p + jq:  p^2 - q^2 = re, 2pq = im, p >= 0 (and q >= 0 on the negative real axis)
        if not _is_sym(a.re) and not _is_sym(a.im):
            import cmath
            w = cmath.sqrt(complex(a.re, a.im))
            return Cx(w.real, w.imag)
        key = ("csqrt", ENV.serial, frozenset(topoly(a.re).t.items()), frozenset(topoly(a.im).t.items()))
        if key in _PURE:
            return _PURE[key]
        pv, qv = fresh_real("csqrt_re"), fresh_real("csqrt_im")
        pp, pq = topoly(pv), topoly(qv)
        add_side(zbool(eq(sub(pmul(pp, pp), pmul(pq, pq)), a.re)), defines=[pv, qv])
        add_side(zbool(eq(pscale(pmul(pp, pq), 2), a.im)), defines=[pv, qv])
        add_side(z3.And(pv >= 0, z3.Implies(pv == 0, qv >= 0)), defines=[pv, qv])
        out = Cx(pp, pq)
        _PURE[key] = out
        return out
    if not _is_sym(a):
        return math.sqrt(a) if a >= 0 else math.nan
    if isinstance(a, Cases):
        return a.map(sqrt)
    p = topoly(a)
    add_defined(zbool(ge(a, ENV.kink_margin)))
    return SqrtV(p)


def square(a):
    a = _dg(a)
    if isinstance(a, SqrtV):
        return _simp(a.p)
    return mul(a, a)


def powi(a, k):
    a = _dg(a)
    """a ** k for a concrete exponent"""
    if not _is_sym(a):
        return a ** k
    if isinstance(a, Cases):
        return a.map(lambda v: powi(v, k))
    if k == 0.5:
        return sqrt(a)
    if k == -0.5:
        return div(1.0, sqrt(a))
    if float(k) != int(k):
        raise NotEncodable(f"pow with exponent {k}")
    k = int(k)
    if k < 0:
        return div(1.0, powi(a, -k))
    if k == 0:
        return 1.0
    if isinstance(a, Cx):
        r = a
        for _ in range(k - 1):
            r = mul(r, a)
        return r
    if isinstance(a, SqrtV):
        r = powi(_simp(a.p), k // 2)
        return mul(r, a) if k % 2 else r
    if is_bitlike(a):
        return a
    r = topoly(a)
    base = r
    for _ in range(k - 1):
        r = pmul(r, base)
    return _simp(r)


def _cmp(a, b, op):
    a, b = _dg(a), _dg(b)
    """returns bit-like"""
    if not _is_sym(a) and not _is_sym(b):
        return {"<": a < b, "<=": a <= b, "==": a == b, "!=": a != b}[op]
    if isinstance(a, (Cx, complex)) or isinstance(b, (Cx, complex)):
        if op not in ("==", "!="):
            raise NotEncodable("ordering of complex numbers")
        a, b = tocx(a), tocx(b)
        e = band(_cmp(a.re, b.re, "=="), _cmp(a.im, b.im, "=="))
        return e if op == "==" else bnot(e)
    if isinstance(a, Cases) or isinstance(b, Cases):
        r = lift_cases(lambda x, y: _cmp(x, y, op), a, b)
        return r.collapse() if isinstance(r, Cases) else r
    if op in ("==", "!=") and is_bitlike(a) and is_bitlike(b):
        x = bxor(a, b)
        return bnot(x) if op == "==" else x
    if isinstance(a, (Aff, BX)) and is_conc(b) or isinstance(b, (Aff, BX)) and is_conc(a):
        # a 0/1 value against a constant: decide both cases, answer is const, the bit or its negation
        bit = a if isinstance(a, (Aff, BX)) else b
        f = {"<": lambda x, y: x < y, "<=": lambda x, y: x <= y, "==": lambda x, y: x == y, "!=": lambda x, y: x != y}[op]
        r0 = f(0, b) if bit is a else f(a, 0)
        r1 = f(1, b) if bit is a else f(a, 1)
        if r0 == r1:
            return bool(r0)
        return bit if r1 else bnot(bit)
    if isinstance(a, SqrtV) or isinstance(b, SqrtV):
        # monotone: compare radicands when both sides are non-negative roots / non-negative constants
        def rad(x):
            if isinstance(x, SqrtV):
                return x.p
            if is_conc(x):
                if x < 0:
                    return None
                return topoly(F(x) * F(x))
            return None
        ra, rb = rad(a), rad(b)
        if ra is not None and rb is not None:
            return mkres(pcmp0(padd(ra, rb, -1), op))
        if is_conc(b) and b < 0 and isinstance(a, SqrtV):
            return {"<": False, "<=": False, "==": False, "!=": True}[op]
        if is_conc(a) and a < 0 and isinstance(b, SqrtV):
            return {"<": True, "<=": True, "==": False, "!=": True}[op]
    d = padd(topoly(a), topoly(b), -1)
    return mkres(pcmp0(d, op))


def mkres(r):
    if isinstance(r, bool):
        return r
    return mkbx(r)


def lt(a, b):
    return _cmp(a, b, "<")


def le(a, b):
    return _cmp(a, b, "<=")


def gt(a, b):
    return _cmp(b, a, "<")


def ge(a, b):
    return _cmp(b, a, "<=")


def eq(a, b):
    return _cmp(a, b, "==")


def ne(a, b):
    return _cmp(a, b, "!=")


def where(c, a, b):
    c, a, b = _dg(c), _dg(a), _dg(b)
    if is_conc(c):
        return a if c else b
    if a is b:
        return a
    if isinstance(c, Cases):
        return lift_cases(lambda cc: where(cc, a, b), c)
    if not _is_sym(a) and not _is_sym(b) and not isinstance(a, complex) and not isinstance(b, complex) and a == b:
        return a
    if isinstance(a, (Cx, complex)) or isinstance(b, (Cx, complex)):
        a, b = tocx(a), tocx(b)
        return Cx(where(c, a.re, b.re), where(c, a.im, b.im))
    if is_bitlike(a) and is_bitlike(b):
        if is_conc(a) and is_conc(b):
            return c if a else bnot(c)
        return mkbx(z3.If(zbool(c), zbool(a), zbool(b)))
    if isinstance(a, SqrtV) or isinstance(b, SqrtV) or isinstance(a, Cases) or isinstance(b, Cases):
        return mkcases([(c, a), (bnot(c), b)])
    pa, pb = topoly(a), topoly(b)
    pc = topoly(c)
    allbits = all(_ATOM_BY_ID[i].kind == "bit" for i in pa.atoms() | pb.atoms())
    if allbits or pa.is_const() and pb.is_const():
        # c*a + (1-c)*b stays linear in indicator atoms
        return _simp(padd(pmul(pc, pa), pmul(padd(topoly(1), pc, -1), pb)))
    ea, eb = poly_z3(pa), poly_z3(pb)
    if z3.is_int(ea) != z3.is_int(eb):
        ea, eb = poly_z3(pa, False), poly_z3(pb, False)
    r = topoly(z3.If(zbool(c), ea, eb))
    _DEFS[_single_atom(r)] = ("ite", c, pa, pb)
    return r


def _isinf(x):
    return type(x) is float and math.isinf(x)


def minimum(a, b):
    a, b = _dg(a), _dg(b)
    if not _is_sym(a) and not _is_sym(b):
        return min(a, b)
    # +-inf as a neutral / absorbing element (the masked_fill(mask, inf).amin() idiom)
    for u, v in ((a, b), (b, a)):
        if _isinf(u):
            return v if u > 0 else u
    return where(le(a, b), a, b)


def maximum(a, b):
    a, b = _dg(a), _dg(b)
    if not _is_sym(a) and not _is_sym(b):
        return max(a, b)
    for u, v in ((a, b), (b, a)):
        if _isinf(u):
            return v if u < 0 else u
    return where(ge(a, b), a, b)


def absv(a):
    a = _dg(a)
    if not _is_sym(a):
        return abs(a)
    if isinstance(a, Cx):
        return sqrt(add(square(a.re), square(a.im)))
    if is_bitlike(a) or isinstance(a, SqrtV):
        return a
    if isinstance(a, Cases):
        return a.map(absv)
    return where(ge(a, 0), a, neg(a))


def sign(a):
    a = _dg(a)
    if not _is_sym(a):
        return (a > 0) - (a < 0) if not isinstance(a, float) else float((a > 0) - (a < 0))
    if is_bitlike(a):
        return a
    if isinstance(a, Cases):
        return a.map(sign)
    if isinstance(a, Cx):
        # torch.sgn of a complex number: z/|z|, and 0 at z == 0
        r = absv(a)
        z = eq(r, 0)
        n0 = len(ENV.defined) if ENV.defined is not None else 0
        out = Cx(where(z, 0.0, div(a.re, r)), where(z, 0.0, div(a.im, r)))
        if ENV.defined is not None:      # the quotient is only evaluated where z is false
            for i in range(n0, len(ENV.defined)):
                ENV.defined[i] = z3.Or(zbool(z), ENV.defined[i])
        return out
    if ENV.tiefree:
        add_side(zbool(ne(a, 0)))
        ENV.tie_assumptions += 1
        return where(lt(a, 0), -1.0, 1.0)
    return where(gt(a, 0), 1.0, where(lt(a, 0), -1.0, 0.0))


def clamp(a, lo, hi):
    r = a
    if lo is not None:
        r = maximum(r, lo)
    if hi is not None:
        r = minimum(r, hi)
    return r


def mod2(x):
    x = _dg(x)
    """x mod 2 for an integer-valued scalar"""
    if not _is_sym(x):
        return x % 2
    if is_bitlike(x):
        return x
    if isinstance(x, Cases):
        return x.map(mod2)
    p = topoly(x)
    r = False
    for m, c in p.t.items():
        if c.denominator != 1:
            raise NotEncodable("mod 2 of a non-integer polynomial")
        if c.numerator % 2 == 0:
            continue
        if m == ():
            r = bxor(r, True)
            continue
        if len(m) != 1 or _ATOM_BY_ID[m[0][0]].kind != "bit":
            raise NotEncodable("mod 2 of a non-bit atom")
        a = _ATOM_BY_ID[m[0][0]]
        r = bxor(r, a.p if isinstance(a.p, Aff) else BX(a.p))
    return r


def remainder(x, k):
    x = _dg(x)
    if not _is_sym(x):
        return x % k
    if k == 2:
        return mod2(x)
    if isinstance(x, Cases):
        return x.map(lambda v: remainder(v, k))
    p = topoly(x)
    if not p.is_int or int(k) != k:
        raise NotEncodable(f"remainder of non-integer symbolic by {k}")
    return topoly(poly_z3(p, True) % int(k))


def floordiv(x, k):
    x = _dg(x)
    if not _is_sym(x):
        return x // k
    if isinstance(x, Cases):
        return x.map(lambda v: floordiv(v, k))
    p = topoly(x)
    if not p.is_int or int(k) != k or k <= 0:
        raise NotEncodable(f"floor division of symbolic by {k}")
    return topoly(poly_z3(p, True) / int(k))


def round_(x):
    x = _dg(x)
    if not _is_sym(x):
        return round(x) if not isinstance(x, float) else float(round(x))  # python round = half-to-even, as torch
    if is_bitlike(x):
        return x
    if isinstance(x, Cases):
        return x.map(round_)
    p = topoly(x)
    if p.is_int:
        return x
    # round-half-to-even of a symbolic real: an Int variable k with |x - k| <= 1/2 and even k at the two ties
    key = ("round", ENV.serial, frozenset(p.t.items()))
    if key in _PURE:
        return _PURE[key]
    ENV.fresh_counter += 1
    k = z3.Int(f"__round{ENV.fresh_counter}")
    xe = poly_z3(p, False)
    half = z3.RealVal("1/2")
    kr = z3.ToReal(k)
    add_side(z3.And(kr - half <= xe, xe <= kr + half, z3.Implies(z3.Or(xe == kr - half, xe == kr + half), k % 2 == 0)), defines=k)
    r = topoly(k)
    _PURE[key] = r
    return r


def to_int_like(x):
    x = _dg(x)
    """float -> integer dtype cast (trunc); only integer-valued symbolics are encodable"""
    if isinstance(x, float):
        return int(x)
    if not _is_sym(x):
        return int(x)
    if is_bitlike(x):
        return x
    if isinstance(x, Cases):
        return x.map(to_int_like)
    p = topoly(x)
    if p.is_int:
        return x
    raise NotEncodable("cast of a symbolic real to an integer dtype")


# ------------------------------------------------------------------------------------------------
# evaluation under a model (for concolic validation and replay)
# ------------------------------------------------------------------------------------------------
def zval(model, e):
    v = model.eval(e, model_completion=True)
    if z3.is_true(v):
        return True
    if z3.is_false(v):
        return False
    if z3.is_int_value(v):
        return v.as_long()
    if z3.is_rational_value(v):
        return Fraction(v.numerator_as_long(), v.denominator_as_long())
    if z3.is_algebraic_value(v):
        a = v.approx(30)
        return Fraction(a.numerator_as_long(), a.denominator_as_long())
    raise NotEncodable(f"cannot read model value {v}")


def evaluate(x, model):
    if not _is_sym(x):
        return x
    if type(x).__name__ == "G":
        return x.evaluate(model)
    if isinstance(x, Aff):
        r = x.c
        for v in x.vs:
            r ^= 1 if zval(model, z3.Bool(v)) else 0
        return r
    if isinstance(x, BX):
        return 1 if zval(model, x.e) else 0
    if isinstance(x, Poly):
        tot = Fraction(0)
        for m, c in x.t.items():
            term = c
            for aid, pw in m:
                a = _ATOM_BY_ID[aid]
                if a.kind == "bit":
                    val = Fraction(1 if zval(model, atom_bool_z3(a)) else 0)
                else:
                    val = Fraction(zval(model, a.p))
                term *= val ** pw
                if term == 0:
                    break
            tot += term
        return tot
    if isinstance(x, SqrtV):
        return math.sqrt(max(float(evaluate(x.p, model)), 0.0))
    if isinstance(x, Cx):
        return complex(float(evaluate(x.re, model)), float(evaluate(x.im, model)))
    if isinstance(x, Cases):
        for g, v in x.cs:
            if evaluate(g, model):
                return evaluate(v, model)
        raise NotEncodable("no case active under the model")
    raise NotEncodable(f"evaluate({type(x).__name__})")


# ------------------------------------------------------------------------------------------------
# symbolic differentiation of a scalar with respect to one real atom (used by the C19 gradient clause)
# ------------------------------------------------------------------------------------------------
def _single_atom(p):
    (m, c), = p.t.items()
    assert c == 1 and len(m) == 1 and m[0][1] == 1
    return m[0][0]


def atom_id(v):
    """atom id of a scalar that is a plain variable"""
    return _single_atom(topoly(v))


def _is_zero(v):
    return not _is_sym(v) and not isinstance(v, complex) and v == 0


def deriv(v, xid, memo=None):
    """d v / d atom[xid], where v was computed on the current path.  Purification variables are differentiated
    implicitly from their definitions (u = a/b: du = (da - u db)/b;  u = sqrt(r): du = dr/(2u)); bits, integer
    roundings and case guards are locally constant (the derivative is that of the smooth piece the path lies on)."""
    if memo is None:
        memo = {}
    v = _dg(v)
    if not _is_sym(v):
        return 0.0
    if isinstance(v, Cx):
        return Cx(deriv(v.re, xid, memo), deriv(v.im, xid, memo))
    if isinstance(v, Cases):
        return v.map(lambda u: deriv(u, xid, memo))
    if isinstance(v, SqrtV):
        v = v.purify()
    p = topoly(v)
    total = 0.0
    for m, c in p.t.items():
        for i, (aid, pw) in enumerate(m):
            da = _datom(aid, xid, memo)
            if _is_zero(da):
                continue
            rest = list(m[:i]) + ([(aid, pw - 1)] if pw > 1 else []) + list(m[i + 1:])
            total = add(total, mul(_simp(Poly({tuple(rest): c * pw})), da))
    return total


def _datom(aid, xid, memo):
    if aid == xid:
        return 1.0
    if aid in memo:
        return memo[aid]
    a = _ATOM_BY_ID[aid]
    d = _DEFS.get(aid)
    if a.kind == "bit" or d is None or d[0] == "round":
        r = 0.0
    elif d[0] == "div":
        pa, pb = d[1], d[2]
        da, db = deriv(pa, xid, memo), deriv(pb, xid, memo)
        q = Poly({((aid, 1),): Fraction(1)})
        if _is_zero(da) and _is_zero(db):
            r = 0.0
        else:
            r = div(sub(da, mul(q, db)), pb)
    elif d[0] == "inv":
        dp = deriv(d[1], xid, memo)
        q = Poly({((aid, 2),): Fraction(-1)})
        r = 0.0 if _is_zero(dp) else mul(_simp(q), dp)
    elif d[0] == "sqrt":
        dp = deriv(d[1], xid, memo)
        q = Poly({((aid, 1),): Fraction(1)})
        r = 0.0 if _is_zero(dp) else div(dp, mul(2.0, q))
    elif d[0] == "ite":
        da, db = deriv(d[2], xid, memo), deriv(d[3], xid, memo)
        r = 0.0 if _is_zero(da) and _is_zero(db) else where(d[1], da, db)
    elif d[0] == "angle":
        re, im = d[1], d[2]
        dre, dim = deriv(re, xid, memo), deriv(im, xid, memo)
        if _is_zero(dre) and _is_zero(dim):
            r = 0.0
        else:
            r = div(sub(mul(re, dim), mul(im, dre)), add(mul(re, re), mul(im, im)))
    elif d[0] in ("cos", "sin"):
        dp = deriv(d[1], xid, memo)
        r = 0.0 if _is_zero(dp) else (neg(mul(d[2], dp)) if d[0] == "cos" else mul(d[2], dp))
    elif d[0] == "uf":
        name, parg = d[1], d[2]
        dp = deriv(parg, xid, memo)
        t = Poly({((aid, 1),): Fraction(1)})
        if _is_zero(dp):
            r = 0.0
        elif name == "exp":
            r = mul(t, dp)
        elif name == "log":
            r = div(dp, parg)
        elif name == "tanh":
            r = mul(sub(1.0, mul(t, t)), dp)
        elif name == "sigmoid":
            r = mul(mul(t, sub(1.0, t)), dp)
        else:
            raise NotEncodable(f"derivative of {name} of an input-dependent argument")
    else:
        raise NotEncodable(f"derivative through {d[0]}")
    memo[aid] = r
    return r
