"""C18 - binary polynomials form a Euclidean ring, GF(2^m) satisfies the field axioms (DESIGN section 4 "C18").

Engine E2 (kverif.e2): the REAL source of kaira.models.fec.algebra (BinaryPolynomial, FiniteBifield,
FiniteBifieldElement) and of CyclicCodeEncoder._custom_div_with_remainder is re-parsed on every run and
interpreted over z3 bit-vectors.  Every law below is an ordinary Python function over the real API; the
same function object is
  (a) interpreted by E2 with symbolic arguments  -> path conditions + one truth value per path,
      negation handed to z3 (unsat = the law holds for every input inside the bound), and
  (b) called natively on the un-instrumented classes to replay a solver model (only a reproducing model
      is reported; a non-reproducing one is a harness error).
Work items = (clause, configuration, sub-domain); sub-domains (degree pairs / most significant bits) only
partition the input space so that the pool can work on them in parallel.
"""
from __future__ import annotations

import ast
import inspect
import random
import sys
import time

import z3

from kaira.models.fec import algebra as A
from kaira.models.fec.algebra import BinaryPolynomial, FiniteBifield, FiniteBifieldElement
from kaira.models.fec.encoders.cyclic_code import CyclicCodeEncoder

from kverif import common, e2
from kverif.common import Check, Tally, ob, replay_main, tier

MOD = "kverif.checks.c18"
PID = "C18"


# ================================================================================================
# laws over the real API (interpreted symbolically AND run natively for replays)
# ================================================================================================
# ---- binary polynomials --------------------------------------------------------------------------
def law_divmod(a, b):
    """a = q.b + r and deg r < deg b, with q = a.div(b), r = a % b, product by the real __mul__"""
    pa = BinaryPolynomial(a)
    pb = BinaryPolynomial(b)
    q = pa.div(pb)
    r = pa % pb
    return ((q * pb).value ^ r.value) == a and r.degree < pb.degree and q.value >= 0 and r.value >= 0


def law_custom_divmod(a, b):
    """the cyclic-code encoder's own division: a = q.b + r, deg r < deg b, and it agrees with div / %"""
    pa = BinaryPolynomial(a)
    pb = BinaryPolynomial(b)
    qr = CyclicCodeEncoder._custom_div_with_remainder(None, pa, pb)
    q = qr[0]
    r = qr[1]
    return (((q * pb).value ^ r.value) == a and r.degree < pb.degree
            and q.value == pa.div(pb).value and r.value == (pa % pb).value)


def law_gcd_divides(a, b):
    """gcd(a, b) divides both operands (and gcd(0, 0) = 0)"""
    pa = BinaryPolynomial(a)
    pb = BinaryPolynomial(b)
    g = pa.gcd(pb)
    if g.value == 0:
        return a == 0 and b == 0
    return (pa % g).value == 0 and (pb % g).value == 0


def law_gcd_bezout(a, b):
    """gcd(a, b) = s.a + t.b; the witnesses s, t come from the extended Euclidean recurrence run over the
    real div / __mul__ (invariant r_i = s_i.a + t_i.b)"""
    pa = BinaryPolynomial(a)
    pb = BinaryPolynomial(b)
    g = pa.gcd(pb)
    r0 = pa
    r1 = pb
    s0 = 1
    s1 = 0
    t0 = 0
    t1 = 1
    while r1.value != 0:
        q = r0.div(r1)
        r2 = BinaryPolynomial(r0.value ^ (q * r1).value)
        s2 = s0 ^ (q * BinaryPolynomial(s1)).value
        t2 = t0 ^ (q * BinaryPolynomial(t1)).value
        r0 = r1
        r1 = r2
        s0 = s1
        s1 = s2
        t0 = t1
        t1 = t2
    comb = (BinaryPolynomial(s0) * pa).value ^ (BinaryPolynomial(t0) * pb).value
    return comb == g.value


def law_lcm_gcd(a, b):
    """lcm(a, b) . gcd(a, b) = a . b"""
    pa = BinaryPolynomial(a)
    pb = BinaryPolynomial(b)
    return (pa.lcm(pb) * pa.gcd(pb)).value == (pa * pb).value


def law_pmul_comm(a, b):
    return (BinaryPolynomial(a) * BinaryPolynomial(b)).value == (BinaryPolynomial(b) * BinaryPolynomial(a)).value


def law_pmul_assoc(a, b, c):
    pa = BinaryPolynomial(a)
    pb = BinaryPolynomial(b)
    pc = BinaryPolynomial(c)
    return ((pa * pb) * pc).value == (pa * (pb * pc)).value


def law_pmul_distrib(a, b, c):
    pa = BinaryPolynomial(a)
    return (pa * BinaryPolynomial(b ^ c)).value == (pa * BinaryPolynomial(b)).value ^ (pa * BinaryPolynomial(c)).value


def law_pmul_unit_degree(a, b):
    """1 is the unit, 0 annihilates, and deg(a.b) = deg a + deg b for non-zero operands"""
    pa = BinaryPolynomial(a)
    pb = BinaryPolynomial(b)
    p = pa * pb
    ok = (pa * BinaryPolynomial(1)).value == a and (pa * BinaryPolynomial(0)).value == 0
    if a == 0 or b == 0:
        return ok and p.value == 0
    return ok and p.degree == pa.degree + pb.degree


# ---- GF(2^m) -------------------------------------------------------------------------------------
def law_f_add(F, a, b, c):
    """(F, +) is an abelian group of exponent 2 with neutral element F.zero"""
    x = F(a)
    y = F(b)
    z = F(c)
    return ((x + y).value == (y + x).value and ((x + y) + z).value == (x + (y + z)).value
            and (x + F.zero).value == a and (x + x).value == 0 and 0 <= (x + y).value and (x + y).value < F.size)


def law_f_mul_comm(F, a, b):
    x = F(a)
    y = F(b)
    p = x * y
    return p.value == (y * x).value and 0 <= p.value and p.value < F.size


def law_f_identity(F, a):
    x = F(a)
    return (x * F.one).value == a and (F.one * x).value == a and (x * F.zero).value == 0 and (F.zero * x).value == 0


def law_f_inverse(F, a):
    """a . a^-1 = 1 for a != 0 (inverse() raises for 0: checked by law_f_inverse_zero)"""
    x = F(a)
    i = x.inverse()
    return (x * i).value == 1 and (i * x).value == 1 and 0 < i.value and i.value < F.size


def law_f_inverse_zero(F, a):
    F(a).inverse()
    return True


def law_f_no_zero_divisors(F, a, b):
    return (F(a) * F(b)).value != 0


def law_f_distrib(F, a, b, c):
    x = F(a)
    y = F(b)
    z = F(c)
    return (x * (y + z)).value == ((x * y) + (x * z)).value


def law_f_assoc(F, a, b, c):
    x = F(a)
    y = F(b)
    z = F(c)
    return ((x * y) * z).value == (x * (y * z)).value


def law_f_frobenius(F, a, b):
    x = F(a)
    y = F(b)
    s = x + y
    return (s * s).value == ((x * x) + (y * y)).value and (s ** 2).value == (s * s).value


def law_f_pow_def(F, a, i):
    """power agrees with its definition: a^0 = 1, a^(i+1) = a^i . a"""
    x = F(a)
    return (x ** 0).value == 1 and (x ** (i + 1)).value == ((x ** i) * x).value


def law_f_pow_add(F, a, i, j):
    """a^(i+j) = a^i . a^j"""
    x = F(a)
    return (x ** (i + j)).value == ((x ** i) * (x ** j)).value


def law_f_pow_negative(F, a, i):
    F(a) ** i
    return True


def law_prim_lower(F, e):
    """alpha^e != 1 for every 1 <= e < 2^m - 1"""
    al = F.primitive_element()
    return (al ** e).value != 1


def law_prim_full(F, e):
    """alpha^(2^m - 1) = 1 (e is pinned to 2^m - 1 by the harness) and alpha != 0"""
    al = F.primitive_element()
    return (al ** e).value == 1 and al.value != 0


def law_f_trace(F, a, b):
    """trace is 0/1, additive, and equals the sum of a^(2^i), i < m (by repeated squaring with the real *)"""
    x = F(a)
    y = F(b)
    tx = x.trace()
    acc = x
    sq = x
    for _ in range(1, F.m):
        sq = sq * sq
        acc = acc + sq
    return (tx == 0 or tx == 1) and (x + y).trace() == (tx ^ y.trace()) and acc.value == tx


def law_f_conjugates(F, a):
    """conjugates() = [a, a^2, a^4, ...] up to (excluding) the first return to a: consecutive entries are
    squares (real *), the square of the last one is a again (closed under squaring), entries are distinct
    and agree with a^(2^i) computed by the real __pow__"""
    x = F(a)
    cs = x.conjugates()
    n = len(cs)
    ok = n >= 1 and n <= F.m and cs[0].value == a
    for i in range(n):
        nxt = cs[i] * cs[i]
        if i + 1 < n:
            ok = ok and nxt.value == cs[i + 1].value
        else:
            ok = ok and nxt.value == a
        ok = ok and cs[i].value == (x ** (2 ** i)).value
        for j in range(i):
            ok = ok and cs[i].value != cs[j].value
    return ok


def law_f_minpoly_vanishes(F, a):
    """p = minimal_polynomial(a) is monic of degree len(conjugates) and p(a) = 0, evaluated here by Horner's
    rule over the real * and + (independent of BinaryPolynomial.evaluate, which must agree)"""
    x = F(a)
    cs = x.conjugates()
    d = len(cs)
    p = x.minimal_polynomial()
    acc = F(0)
    for i in range(d, -1, -1):
        acc = acc * x
        if (p.value >> i) & 1:
            acc = acc + F.one
    ev = p.evaluate(x)
    return p.degree == d and d >= 1 and acc.value == 0 and ev.value == 0


def law_f_minpoly_least(F, a, f):
    """no non-zero binary polynomial f with deg f < deg p vanishes at a (f symbolic)"""
    x = F(a)
    p = x.minimal_polynomial()
    pf = BinaryPolynomial(f)
    if pf.degree >= p.degree:
        return True
    return pf.evaluate(x).value != 0


def law_f_minpoly_irreducible(F, a, q, r):
    """p = minimal_polynomial(a) is irreducible: no q, r of degree >= 1 with q . r = p (q, r symbolic, real __mul__)"""
    p = F(a).minimal_polynomial()
    return (BinaryPolynomial(q) * BinaryPolynomial(r)).value != p.value


# ---- value probes for the translator validation --------------------------------------------------
def val_degree(a):
    return BinaryPolynomial(a).degree


def val_pmul(a, b):
    return (BinaryPolynomial(a) * BinaryPolynomial(b)).value


def val_pmod(a, b):
    return (BinaryPolynomial(a) % BinaryPolynomial(b)).value


def val_pdiv(a, b):
    return BinaryPolynomial(a).div(BinaryPolynomial(b)).value


def val_pgcd(a, b):
    return BinaryPolynomial(a).gcd(BinaryPolynomial(b)).value


def val_plcm(a, b):
    return BinaryPolynomial(a).lcm(BinaryPolynomial(b)).value


def val_custom_div(a, b):
    qr = CyclicCodeEncoder._custom_div_with_remainder(None, BinaryPolynomial(a), BinaryPolynomial(b))
    return (qr[0].value, qr[1].value)


def val_pderiv_eval(a, b):
    return BinaryPolynomial(a).evaluate(b)


def val_fmul(F, a, b):
    return (F(a) * F(b)).value


def val_fadd(F, a, b):
    return (F(a) + F(b)).value


def val_fpow(F, a, i):
    return (F(a) ** i).value


def val_finv(F, a):
    return F(a).inverse().value


def val_ftrace(F, a):
    return F(a).trace()


def val_fconj(F, a):
    cs = F(a).conjugates()
    return (len(cs), cs[len(cs) - 1].value)


def val_fminpoly(F, a):
    return F(a).minimal_polynomial().value


def val_feval(F, p, a):
    return BinaryPolynomial(p).evaluate(F(a)).value


def val_fprim(F, i):
    return (F.primitive_element() ** i).value


CLASSES = (BinaryPolynomial, FiniteBifield, FiniteBifieldElement)
ENCODED = [BinaryPolynomial.__init__, BinaryPolynomial.degree.fget, BinaryPolynomial.__mul__, BinaryPolynomial.__mod__, BinaryPolynomial.div,
           BinaryPolynomial.gcd, BinaryPolynomial.lcm, BinaryPolynomial.evaluate, BinaryPolynomial.__eq__,
           FiniteBifield.__call__, FiniteBifield.primitive_element, FiniteBifield.__eq__,
           FiniteBifieldElement.__init__, FiniteBifieldElement.__add__, FiniteBifieldElement.__mul__, FiniteBifieldElement.__pow__,
           FiniteBifieldElement.inverse, FiniteBifieldElement.trace, FiniteBifieldElement.conjugates, FiniteBifieldElement.minimal_polynomial,
           FiniteBifieldElement.__eq__, CyclicCodeEncoder._custom_div_with_remainder]
NATIVE = [FiniteBifield.__new__, FiniteBifield.__init__]


def make_interp(W, *, merged=True, unroll=None, mutants=None, pow_fork=True, timeout_ms=None):
    """all loops of the polynomial arithmetic are unrolled under guards (merge mode) with solver-checked
    unwinding assertions; loops that build lists / search (conjugates, minimal_polynomial) and the
    square-and-multiply loop fork per trip count"""
    lm = {}
    if pow_fork:
        lm["FiniteBifieldElement.__pow__"] = "fork"
    lm["FiniteBifieldElement.conjugates"] = "fork"
    lm["FiniteBifieldElement.trace"] = "fork"
    lm["law_f_conjugates"] = "fork"
    lm["law_f_trace"] = "fork"
    return e2.Interp(W, classes=CLASSES, loop_mode=lm, default_loop="merge" if merged else "fork", max_unroll=80,
                     always_interpret={FiniteBifield.__call__}, attr_stubs={(FiniteBifield, "_element_cache"): e2.NullCache()},
                     unroll=unroll, mutants=mutants, decide_timeout_ms=timeout_ms or tier(60000, 120000),
                     drop_attr_stores={"_minimal_poly"},
                     pure={FiniteBifieldElement.__mul__, FiniteBifieldElement.__add__, BinaryPolynomial.__mul__, BinaryPolynomial.__mod__,
                           BinaryPolynomial.div, BinaryPolynomial.degree.fget, FiniteBifieldElement.__pow__})


# ================================================================================================
# symbolic inputs: every variable is  prefix . free-bits, zero-extended to the interpreter width
# ================================================================================================
def sym_value(W, name, nbits, prefix_bits=0, prefix=0):
    """value with `nbits` significant bits whose top `prefix_bits` bits are the constant `prefix`"""
    free = nbits - prefix_bits
    if nbits == 0:
        return z3.BitVecVal(0, W)
    if free == 0:
        return z3.BitVecVal(prefix, W)
    v = z3.BitVec(name, free)
    if prefix_bits:
        v = z3.Concat(z3.BitVecVal(prefix, prefix_bits), v)
    return z3.ZeroExt(W - nbits, v) if W > nbits else v


def poly_of_degree(W, name, d):
    """all polynomials of degree exactly d (d = -1: the zero polynomial)"""
    if d < 0:
        return z3.BitVecVal(0, W)
    return sym_value(W, name, d + 1, 1, 1)


def native_of(law, names, fixed=()):
    def native(**vals):
        try:
            return (bool(law(*fixed, *[vals[n] for n in names])), "returned")
        except Exception as e:  # noqa
            return ("raised", type(e).__name__)
    return native


def cross_pick(key):
    rnd = random.Random(common.SEED * 104729 + sum(map(ord, key)))
    p = tier(0.05, 0.10)
    return lambda: rnd.random() < p


# ================================================================================================
# clause table
# ================================================================================================
POLY2 = {
    "poly.divmod": (law_divmod, "a = (a div b).b + (a mod b), deg(a mod b) < deg b   [div, %, *, degree]"),
    "poly.custom_divmod": (law_custom_divmod, "CyclicCodeEncoder._custom_div_with_remainder(a, b) = (q, r): a = q.b + r, deg r < deg b, q = a.div(b), r = a % b"),
    "poly.gcd_divides": (law_gcd_divides, "gcd(a, b) divides a and b"),
    "poly.gcd_bezout": (law_gcd_bezout, "gcd(a, b) = s.a + t.b  (s, t from the extended Euclidean recurrence over the real div and *)"),
    "poly.lcm_gcd": (law_lcm_gcd, "lcm(a, b) . gcd(a, b) = a . b"),
    "poly.mul_comm": (law_pmul_comm, "a . b = b . a"),
    "poly.mul_unit_degree": (law_pmul_unit_degree, "a.1 = a, a.0 = 0, deg(a.b) = deg a + deg b"),
}
POLY3 = {
    "poly.mul_assoc": (law_pmul_assoc, "(a . b) . c = a . (b . c)"),
    "poly.mul_distrib": (law_pmul_distrib, "a . (b + c) = a.b + a.c"),
}
# field clauses: name -> (law, variable kinds, text); kinds: 'e' element (m bits), 'x' small exponent
FIELD = {
    "field.add_group": (law_f_add, "eee", "(F,+): commutative, associative, a + 0 = a, a + a = 0, closed"),
    "field.mul_comm": (law_f_mul_comm, "ee", "a . b = b . a, closed"),
    "field.identity": (law_f_identity, "e", "a . 1 = 1 . a = a, a . 0 = 0 . a = 0"),
    "field.inverse": (law_f_inverse, "e", "a != 0 => a . a^-1 = a^-1 . a = 1"),
    "field.no_zero_divisors": (law_f_no_zero_divisors, "ee", "a != 0 and b != 0 => a . b != 0"),
    "field.distrib": (law_f_distrib, "eee", "a . (b + c) = a.b + a.c"),
    "field.assoc": (law_f_assoc, "eee", "(a . b) . c = a . (b . c)"),
    "field.frobenius": (law_f_frobenius, "ee", "(a + b)^2 = a^2 + b^2"),
    "field.pow_def": (law_f_pow_def, "ex", "a^0 = 1, a^(i+1) = a^i . a"),
    "field.pow_add": (law_f_pow_add, "exx", "a^(i+j) = a^i . a^j"),
    "field.trace": (law_f_trace, "ee", "tr(a) in {0,1}, tr(a+b) = tr(a)+tr(b), tr(a) = sum a^(2^i)"),
    "field.conjugates": (law_f_conjugates, "e", "conjugates(a) = distinct a^(2^i), closed under squaring"),
    "field.minpoly_vanishes": (law_f_minpoly_vanishes, "e", "p = minimal_polynomial(a): monic, deg = #conjugates, p(a) = 0"),
    "field.minpoly_least": (law_f_minpoly_least, "ef", "no non-zero f with deg f < deg p has f(a) = 0"),
    "field.minpoly_irreducible": (law_f_minpoly_irreducible, "eqr", "p = minimal_polynomial(a): no q, r of degree >= 1 with q . r = p"),
}
POW_BITS = 4          # exponents i, j <= 8 fit 4 bits


def bounds():
    q = dict(
        divmod=8, gcd=4, ring2=8, ring_assoc=5, ring_distrib=5,
        field_pairs=6, field_distrib=5, field_assoc=5, field_single=7, field_pow=4, field_trace=6, field_conj=6,
        minpoly=4, prim=12, nzd=11,
    )
    t = dict(
        divmod=12, gcd=6, ring2=12, ring_assoc=6, ring_distrib=8,
        field_pairs=8, field_distrib=7, field_assoc=6, field_single=10, field_pow=6, field_trace=8, field_conj=8,
        minpoly=6, prim=16, nzd=13,
    )
    return tier(q, t)


# ================================================================================================
# work items
# ================================================================================================
def build_items():
    B = bounds()
    its = []
    its.append(dict(kind="validate", clause="e2.translator_validation", config="polynomials", part="poly", cost=30))
    for m in (1, 2, 3, 4, 5, 8):
        its.append(dict(kind="validate", clause="e2.translator_validation", config=f"GF(2^{m})", part="field", m=m, cost=30))
    # ---- polynomials: one item per pair of exact degrees ------------------------------------------
    for cl in POLY2:
        D = B["divmod"] if "divmod" in cl else (B["gcd"] if ("gcd" in cl or "lcm" in cl) else B["ring2"])
        for da in range(-1, D + 1):
            for db in range(-1, D + 1):
                if db < 0 and "divmod" in cl:
                    continue            # division by the zero polynomial raises by contract (own clause below)
                its.append(dict(kind="poly", clause=cl, config=f"deg a = {da}, deg b = {db}", degs=[da, db], D=D,
                                cost=(da + db + 2) ** 2 * (8 if ("gcd" in cl or "lcm" in cl) else 1)))
    its.append(dict(kind="poly_divzero", clause="poly.division_by_zero_raises", config=f"deg a <= {B['divmod']}, b = 0", D=B["divmod"], cost=5))
    for cl in POLY3:
        D = B["ring_assoc"] if cl == "poly.mul_assoc" else B["ring_distrib"]
        for da in range(-1, D + 1):
            for db in range(-1, D + 1):
                its.append(dict(kind="poly", clause=cl, config=f"deg a = {da}, deg b = {db}, deg c <= {D}", degs=[da, db, None], D=D, cost=(da + db + D) ** 2))
    # ---- fields ------------------------------------------------------------------------------------
    def field_items(cl, mmax, cube_from, stretch_from=None, stretch_to=None, m_from=1):
        law, kinds, _ = FIELD[cl]
        top = stretch_to if stretch_to else mmax
        for m in range(m_from, top + 1):
            ne = sum(1 for k in kinds if k in "efqr")
            total_bits = ne * m + (POW_BITS * kinds.count("x"))
            nb = 0
            if total_bits > cube_from:
                nb = min(m, max(0, total_bits - cube_from), 8)
            for cube in range(1 << nb):
                its.append(dict(kind="field", clause=cl, m=m, cube_bits=nb, cube=cube,
                                config=f"GF(2^{m})" + (f", top {nb} bits of a = {cube:0{nb}b}" if nb else ""),
                                stretch=bool(stretch_from and m >= stretch_from), cost=2 ** (total_bits - nb) * m))
    field_items("field.add_group", B["field_pairs"], 18)
    field_items("field.mul_comm", B["field_pairs"], 12)
    field_items("field.identity", B["field_single"], 16)
    field_items("field.inverse", B["field_single"], 8)
    field_items("field.frobenius", B["field_pairs"], 12)
    field_items("field.distrib", B["field_distrib"], 12)
    field_items("field.assoc", B["field_assoc"], 11)
    field_items("field.pow_def", B["field_pow"], 8)
    field_items("field.pow_add", B["field_pow"], 10)
    field_items("field.trace", B["field_trace"], 10)
    field_items("field.conjugates", B["field_conj"], 8)
    field_items("field.minpoly_vanishes", B["minpoly"], 8)
    field_items("field.minpoly_least", B["minpoly"], 8)
    field_items("field.minpoly_irreducible", B["minpoly"], 12, m_from=2)     # m = 1: no q, r of degree >= 1 below degree 1
    for m in range(1, B["nzd"] + 1):
        # unsat proofs of irreducibility get hard above m = 11: m = 12, 13 are split over the top bits of a;
        # m = 14..16 are not reached (probed: `unknown` at 100 s already for m = 13 unsplit)
        nb = {12: 4, 13: 5}.get(m, 0)
        for cube in range(1 << nb):
            its.append(dict(kind="field", clause="field.no_zero_divisors", m=m, cube_bits=nb, cube=cube,
                            config=f"GF(2^{m})" + (f", top {nb} bits of a = {cube:0{nb}b}" if nb else ""), cost=4 ** min(m, 11)))
    for m in range(1, B["field_single"] + 1):
        its.append(dict(kind="field_raises", clause="field.inverse_of_zero_raises", m=m, config=f"GF(2^{m})", cost=1))
        its.append(dict(kind="field_raises", clause="field.negative_exponent_raises", m=m, config=f"GF(2^{m})", cost=1))
    for m in range(1, B["prim"] + 1):
        if m == 1:
            its.append(dict(kind="prim", clause="field.primitive_order_exact", m=m, config=f"GF(2^{m})", cost=1))
        for L in range(1, (min(m, 13) if m == 16 else m) + 1 if m > 1 else 0):     # one item per bit length of the exponent (= trip count of __pow__)
            its.append(dict(kind="prim", clause="field.primitive_order_exact", m=m, L=L, config=f"GF(2^{m}), bit_length(e) = {L}", cost=2 ** L * m * 4,
                            stretch=(m == 16 and L >= 12) or (common.TIER == "quick" and m == 12 and L >= 10)))
        # probed: m = 16 is decided up to 11-bit exponents within the item timeout; quick tier: the three slowest
        # m = 12 items (60..150 s each) are stretch so that the tier stays inside its wall budget
        # (m = 16, L = 14..16 were probed `unknown` at 500 s and are left out; L = 12, 13 run as stretch)
        its.append(dict(kind="prim_full", clause="field.primitive_order_divides", m=m, config=f"GF(2^{m})", cost=m))
    for name in MUTANTS:
        its.append(dict(kind="mutant", clause="c18.mutant_selftest", config=name, cost=50))
    its.sort(key=lambda it: (bool(it.get("stretch")), -it.get("cost", 0)))
    return its


# ================================================================================================
# workers
# ================================================================================================
def work(item):
    k = item["kind"]
    if k == "validate":
        return w_validate(item)
    if k == "poly":
        return w_poly(item)
    if k == "poly_divzero":
        return w_poly_divzero(item)
    if k == "field":
        return w_field(item)
    if k == "field_raises":
        return w_field_raises(item)
    if k in ("prim", "prim_full"):
        return w_prim(item)
    if k == "mutant":
        return w_mutant(item)
    raise ValueError(k)


def poly_setup(cl, degs, D, mutants=None):
    three = cl in POLY3
    law, text = (POLY3 if three else POLY2)[cl]
    W = (3 * D + 5) if three else (2 * D + 5)
    unroll = {"BinaryPolynomial.__mod__": D + 2, "BinaryPolynomial.div": D + 2, "BinaryPolynomial.gcd": D + 3,
              "BinaryPolynomial.__mul__": D + 2, "law_gcd_bezout": D + 3, "CyclicCodeEncoder._custom_div_with_remainder": D + 2}
    if three:
        unroll["BinaryPolynomial.__mul__"] = 2 * D + 3
    I = make_interp(W, unroll=unroll, mutants=mutants)
    names = ["a", "b", "c"][:len(degs)]
    vs = {}
    for n, d in zip(names, degs):
        vs[n] = poly_of_degree(W, n, d) if d is not None else sym_value(W, n, D + 1)
    return I, law, text, names, vs


def w_poly(item, mutants=None, native=None):
    cl = item["clause"]
    I, law, text, names, vs = poly_setup(cl, item["degs"], item["D"], mutants)
    tally = Tally()
    return e2.obligations(PID, cl, item["config"], I, lambda: I.call(law, [e2.SI(vs[n]) for n in names]), vs, [],
                          native or native_of(law, names), tally, text=text, timeout_s=tier(240, 400),
                          cross_check=cross_pick(cl + item["config"]))


def law_div_by_zero(a):
    BinaryPolynomial(a).div(BinaryPolynomial(0))
    return True


def law_mod_by_zero(a):
    BinaryPolynomial(a) % BinaryPolynomial(0)
    return True


def w_poly_divzero(item):
    D = item["D"]
    W = 2 * D + 5
    out = []
    for law, nm in ((law_div_by_zero, "a.div(0) raises"), (law_mod_by_zero, "a % 0 raises")):
        I = make_interp(W)
        a = sym_value(W, "a", D + 1)
        tally = Tally()
        out += e2.obligations(PID, item["clause"], item["config"] + f" [{nm}]", I, lambda: I.call(law, [e2.SI(a)]), {"a": a}, [],
                              native_of(law, ["a"]), tally, text=nm, expect="raises", timeout_s=60)
    return out


def field_vars(W, m, kinds, cube_bits=0, cube=0):
    names, vs, assume = [], {}, []
    letters = iter("abc")
    exps = iter("ij")
    for k in kinds:
        if k == "e":
            n = next(letters)
            vs[n] = sym_value(W, n, m, cube_bits if n == "a" else 0, cube if n == "a" else 0)
        elif k in "fqr":
            n = k
            vs[n] = sym_value(W, n, m)
        else:
            n = next(exps)
            vs[n] = sym_value(W, n, POW_BITS)
            assume.append(z3.ULE(vs[n], z3.BitVecVal(8, W)))
        names.append(n)
    return names, vs, assume


def field_unroll(m):
    return {"BinaryPolynomial.__mod__": m + 1, "BinaryPolynomial.__mul__": m + 1, "BinaryPolynomial.evaluate": m + 2}


def w_field(item, F=None, mutants=None, patch=None):
    cl = item["clause"]
    m = item["m"]
    law, kinds, text = FIELD[cl]
    W = 2 * m + 4
    I = make_interp(W, unroll=field_unroll(m), mutants=mutants)
    F = F or FiniteBifield(m)
    names, vs, assume = field_vars(W, m, kinds, item.get("cube_bits", 0), item.get("cube", 0))
    if cl == "field.inverse":
        assume.append(vs["a"] != 0)
    if cl == "field.no_zero_divisors":
        assume += [vs["a"] != 0, vs["b"] != 0, z3.ULE(vs["a"], vs["b"])]
    if cl == "field.minpoly_least":
        assume.append(vs["f"] != 0)
    if cl == "field.minpoly_irreducible":
        assume += [z3.UGE(vs["q"], 2), z3.UGE(vs["r"], 2), z3.ULE(vs["q"], vs["r"])]
    tally = Tally()
    nat = native_of(law, names, fixed=(F,))
    if patch is not None:
        nat = patch(nat)
    config_level = cl in ("field.no_zero_divisors",)
    return e2.obligations(PID, cl, item["config"], I, lambda: I.call(law, [F] + [e2.SI(vs[n]) for n in names]), vs, assume,
                          nat, tally, text=text, timeout_s=tier(240, 500), stretch=bool(item.get("stretch")),
                          cross_check=cross_pick(cl + item["config"]),
                          config_level=config_level,
                          describe=lambda w, info: f"{text} fails in FiniteBifield({m}) (modulus {bin(F.modulus.value)}) at {w}: {info}")


def w_field_raises(item):
    m = item["m"]
    W = 2 * m + 4
    I = make_interp(W, unroll=field_unroll(m))
    F = FiniteBifield(m)
    tally = Tally()
    if item["clause"] == "field.inverse_of_zero_raises":
        a = z3.BitVecVal(0, W)
        z = z3.BitVec("z", 1)         # a dummy symbolic bit so that the obligation has a model to replay
        vs = {"a": z3.ZeroExt(W - 1, z) & 0}
        return e2.obligations(PID, item["clause"], item["config"], I, lambda: I.call(law_f_inverse_zero, [F, e2.SI(vs["a"])]), vs, [],
                              native_of(law_f_inverse_zero, ["a"], fixed=(F,)), tally, text="F(0).inverse() raises", expect="raises", timeout_s=60)
    a = sym_value(W, "a", m)
    i = z3.BitVec("i", W)
    vs = {"a": a, "i": i}
    return e2.obligations(PID, item["clause"], item["config"], I, lambda: I.call(law_f_pow_negative, [F, e2.SI(a), e2.SI(i)]), vs,
                          [i < 0, i >= -(1 << (W - 2))], native_of(law_f_pow_negative, ["a", "i"], fixed=(F,)), tally,
                          text="a ** i raises for i < 0", expect="raises", timeout_s=60)


def w_prim(item, F=None, mutants=None, patch=None):
    """multiplicative order of the designated primitive element: exactly 2^m - 1"""
    m = item["m"]
    W = 2 * m + 4
    I = make_interp(W, unroll=field_unroll(m), mutants=mutants)
    F = F or FiniteBifield(m)
    tally = Tally()
    full = (1 << m) - 1
    if item["kind"] == "prim_full":
        z = z3.BitVec("z", 1)
        e = z3.BitVecVal(full, W) | (z3.ZeroExt(W - 1, z) & 0)
        vs = {"e": e}
        nat = native_of(law_prim_full, ["e"], fixed=(F,))
        if patch is not None:
            nat = patch(nat)
        return e2.obligations(PID, item["clause"], item["config"], I, lambda: I.call(law_prim_full, [F, e2.SI(z3.BitVecVal(full, W))]), vs, [],
                              nat, tally, text=f"alpha^(2^{m} - 1) = 1 and alpha != 0, alpha = F.primitive_element()", timeout_s=60,
                              describe=lambda w, info: f"FiniteBifield({m}).primitive_element() = {F.primitive_element().value}: alpha^{full} = {_safe(lambda: (F.primitive_element() ** full).value)} != 1 (modulus {bin(F.modulus.value)})")
    if m == 1:
        return [ob(item["clause"], item["config"], "holds", what="no exponent 1 <= e < 2^1 - 1 exists (empty range): nothing to decide",
                   note="vacuous by the range, not by the harness")]
    L = item.get("L", m)
    e = sym_value(W, "e", L, 1, 1) if "L" in item else sym_value(W, "e", m)
    vs = {"e": e}
    assume = [e >= 1, e < full]
    if z3.is_bv_value(e) and not (1 <= e.as_long() < full):
        return [ob(item["clause"], item["config"], "holds", what=f"no exponent with this bit length in 1 <= e < 2^{m} - 1 (empty range): nothing to decide",
                   note="vacuous by the range, not by the harness")]
    if z3.is_bv_value(e):          # single exponent (bit length 1): keep one symbolic bit for the model/replay plumbing
        z = z3.BitVec("z", 1)
        vs = {"e": e | (z3.ZeroExt(W - 1, z) & 0)}
    nat = native_of(law_prim_lower, ["e"], fixed=(F,))
    if patch is not None:
        nat = patch(nat)

    def block(w):           # every multiple of a found order violates the clause as a consequence of that order
        # (written as disequalities: a remainder circuit in the blocking clause costs the solver far more)
        return z3.And([e != z3.BitVecVal(k * w["e"], W) for k in range(1, full // max(1, w["e"]) + 1)])

    return e2.obligations(PID, item["clause"], item["config"], I, lambda: I.call(law_prim_lower, [F, e2.SI(e)]), vs, assume, nat, tally,
                          text=f"alpha^e != 1 for all 1 <= e < 2^{m} - 1, alpha = F.primitive_element()", timeout_s=tier(240, 500), block_of=block,
                          cross_check=cross_pick(item["clause"] + item["config"]),
                          describe=lambda w, info: f"FiniteBifield({m}).primitive_element() has multiplicative order {w['e']} < 2^{m} - 1 = {full}: alpha^{w['e']} = 1 (modulus {bin(F.modulus.value)} is not primitive)")


def _safe(f):
    try:
        return f()
    except Exception as e:  # noqa
        return f"<{type(e).__name__}>"


# ================================================================================================
# translator validation (Serval style): interpreter on wrapped constants == real code
# ================================================================================================
LIT_POLY_PAIRS = [(0b11, 0b101), (0b1101, 0b11), (0b1101, 0b101), (0b10, 0b100), (0, 0b101), (0b101, 0b11), (0b100, 0b11), (0b101, 0b101),
                  (0b101, 0), (0, 0), (0b1101, 0b1101), (0b10101, 0b111), (0b1011, 0b10), (13, 1), (1, 13), (0b10011, 0b1011)]
LIT_POLY_SINGLE = [0, 1, 2, 3, 4, 0b1010, 0b10001, 0b101, 0b111, 0b1101, 0b10101, 0b1011, 13]
LIT_FIELD = {3: [(5, 3), (3, 5), (5, 0), (0, 5), (1, 1), (2, 2), (7, 7), (10, 3)], 4: [(7, 1), (7, 0), (3, 5), (13, 2), (2, 2), (5, 5), (15, 15)],
             5: [(1, 1), (2, 3), (31, 30)], 8: [(2, 141), (255, 255), (29, 2)], 1: [(0, 0), (1, 1), (1, 0)], 2: [(2, 3), (3, 3), (1, 2)]}


def _conc(I, fn, fixed, xs):
    r = I.run_concrete(fn, fixed, xs)
    return ("raised", "") if r[0] == "raised" else r


def _nat(fn, fixed, xs):
    try:
        return ("value", fn(*fixed, *xs))
    except Exception:  # noqa
        return ("raised", "")


def w_validate(item):
    rnd = random.Random(common.SEED * 31 + 18 + item.get("m", 0))
    n_rand = tier(220, 600)
    checked = 0
    cases = []
    if item["part"] == "poly":
        D = 12
        W = 3 * D + 6
        I = make_interp(W)
        two = [val_pmul, val_pmod, val_pdiv, val_pgcd, val_plcm, val_custom_div, law_divmod, law_custom_divmod, law_gcd_divides, law_gcd_bezout,
               law_lcm_gcd, law_pmul_comm, law_pmul_unit_degree]
        three = [law_pmul_assoc, law_pmul_distrib]
        for fn in two:
            ins = list(LIT_POLY_PAIRS) + [(rnd.randrange(1 << rnd.randrange(1, D + 2)), rnd.randrange(1 << rnd.randrange(1, D + 2))) for _ in range(n_rand // 8)]
            cases += [(fn, (), x) for x in ins]
        for fn in three:
            ins = [(3, 5, 6), (0b1101, 0b11, 0b101), (0, 1, 2)] + [tuple(rnd.randrange(1 << rnd.randrange(1, D + 2)) for _ in range(3)) for _ in range(n_rand // 8)]
            cases += [(fn, (), x) for x in ins]
        cases += [(val_degree, (), (x,)) for x in LIT_POLY_SINGLE + [rnd.randrange(1 << 30) for _ in range(30)]]
        cases += [(val_pderiv_eval, (), x) for x in [(0b101, 1), (0b111, 1), (0, 5), (0b1011, 2), (0b1101, 3)]]
    else:
        m = item["m"]
        W = 2 * m + 4
        I = make_interp(W)
        F = FiniteBifield(m)
        size = 1 << m
        lit = LIT_FIELD.get(m, [])
        rp = lambda k: tuple(rnd.randrange(size) for _ in range(k))
        n = max(8, n_rand // 12)
        for fn in (val_fmul, val_fadd, law_f_mul_comm, law_f_frobenius, law_f_trace, law_f_no_zero_divisors):
            cases += [(fn, (F,), x) for x in lit + [rp(2) for _ in range(n)]]
        for fn in (law_f_add, law_f_distrib, law_f_assoc):
            cases += [(fn, (F,), rp(3)) for _ in range(n)]
        for fn in (val_finv, val_ftrace, val_fconj, law_f_identity, law_f_inverse, law_f_conjugates):
            cases += [(fn, (F,), (x,)) for x in ([0, 1, 2, 3, 5, 7, 13][:size] + [rp(1)[0] for _ in range(n)])]
        if m <= 5:
            cases += [(fn, (F,), (x,)) for fn in (val_fminpoly, law_f_minpoly_vanishes) for x in range(size)]
            cases += [(law_f_minpoly_least, (F,), (x, f)) for x in range(0, size, 3) for f in (1, 2, 3, size - 1)]
            cases += [(val_feval, (F,), (p, x)) for p in (0, 0b1011, 0b101, 0b10011) for x in (0, 1, 2, size - 1)]
        for fn in (val_fpow, val_fprim):
            cases += [(fn, (F,), (rnd.randrange(size), e) if fn is val_fpow else (e,)) for e in [0, 1, 2, 3, 5, 8, 10, size - 2, size - 1, size, -1]]
        cases += [(law_f_pow_def, (F,), (rnd.randrange(size), rnd.randrange(9))) for _ in range(n)]
        cases += [(law_f_pow_add, (F,), (rnd.randrange(size), rnd.randrange(9), rnd.randrange(9))) for _ in range(n)]
    for fn, fixed, xs in cases:
        try:
            a = _conc(I, fn, fixed, xs)
        except (e2.NotEncodable, e2.Unwind) as ex:
            return [ob(item["clause"], item["config"], "error", what=f"translator validation: {fn.__name__}{xs}: {type(ex).__name__}: {ex}")]
        b = _nat(fn, fixed, xs)
        if a != b:
            return [ob(item["clause"], item["config"], "error", what=f"translator validation mismatch: {fn.__name__}{xs}: interpreted {a} vs real {b}")]
        checked += 1
    return [ob(item["clause"], item["config"], "holds", what="interpreted value == real value on the repository's literal test inputs and seeded random inputs",
               validated=checked, sample=dict(law="E2(fn)(x) == fn(x) on wrapped constants", inputs=checked, functions=sorted({c[0].__name__ for c in cases})))]


# ================================================================================================
# mutant self-tests: a deliberately broken in-memory copy of one function must be flagged
# ================================================================================================
def _mut_table_modulus(node):
    """FiniteBifield.__init__: wrong entry in the table of primitive polynomials (m = 4: x^4+x+1 -> x^4+x^2+1)"""
    for n in ast.walk(node):
        if isinstance(n, ast.Constant) and n.value == 0b10011 and type(n.value) is int:
            n.value = 0b10101
            return True
    return False


def _mut_mod_early_return(node):
    """BinaryPolynomial.__mod__: `if self.degree < modulus.degree: return self`  ->  `<=`"""
    for n in ast.walk(node):
        if isinstance(n, ast.Compare) and isinstance(n.ops[0], ast.Lt) and "modulus.degree" in ast.unparse(n):
            n.ops[0] = ast.LtE()
            return True
    return False


def _mut_lcm_no_division(node):
    """BinaryPolynomial.lcm: `quotient = product.div(gcd)`  ->  `quotient = product`"""
    for n in ast.walk(node):
        if isinstance(n, ast.Assign) and isinstance(n.value, ast.Call) and ast.unparse(n.value) == "product.div(gcd)":
            n.value = ast.Name(id="product", ctx=ast.Load())
            return True
    return False


# name -> function to break, AST transformation, and the (kind, clause, small configuration) that has to flag it
MUTANTS = {
    "BinaryPolynomial.__mul__: result |= a instead of result ^= a":
        dict(fn=BinaryPolynomial.__mul__, tr=e2.mut_replace_binop(ast.BitXor, ast.BitOr), run=("poly", "poly.divmod", dict(degs=[3, 2], D=4))),
    "BinaryPolynomial.div: special-cased literal (self.value == 77 returns quotient 3)":
        dict(fn=BinaryPolynomial.div, tr=e2.mut_special_case("self.value", 77, "BinaryPolynomial(3)"), run=("poly", "poly.divmod", dict(degs=[6, 3], D=6))),
    "BinaryPolynomial.__mod__: early return on deg a <= deg b instead of <":
        dict(fn=BinaryPolynomial.__mod__, tr=_mut_mod_early_return, run=("poly", "poly.divmod", dict(degs=[3, 3], D=4))),
    "BinaryPolynomial.lcm: product not divided by the gcd":
        dict(fn=BinaryPolynomial.lcm, tr=_mut_lcm_no_division, run=("poly", "poly.lcm_gcd", dict(degs=[3, 2], D=3))),
    "CyclicCodeEncoder._custom_div_with_remainder: special-cased literal (dividend 45 returns (0, dividend))":
        dict(fn=CyclicCodeEncoder._custom_div_with_remainder, tr=e2.mut_special_case("dividend.value", 45, "(BinaryPolynomial(0), dividend)"),
             run=("poly", "poly.custom_divmod", dict(degs=[5, 2], D=5)), owner=CyclicCodeEncoder),
    "FiniteBifieldElement.__mul__: special-cased literal (self.value == 6 returns other)":
        dict(fn=FiniteBifieldElement.__mul__, tr=e2.mut_special_case("self.value", 6, "other"), run=("field", "field.mul_comm", dict(m=3))),
    "FiniteBifieldElement.__add__: | instead of ^":
        dict(fn=FiniteBifieldElement.__add__, tr=e2.mut_replace_binop(ast.BitXor, ast.BitOr), run=("field", "field.add_group", dict(m=3))),
    "FiniteBifieldElement.inverse: exponent size - 3 instead of size - 2":
        dict(fn=FiniteBifieldElement.inverse, tr=e2.mut_constant(2, 3), run=("field", "field.inverse", dict(m=4))),
    "FiniteBifieldElement.trace: one squaring short (range(2, m))":
        dict(fn=FiniteBifieldElement.trace, tr=e2.mut_constant(1, 2), run=("field", "field.trace", dict(m=4))),
    "FiniteBifieldElement.conjugates: special-cased literal (self.value == 3 returns [self])":
        dict(fn=FiniteBifieldElement.conjugates, tr=e2.mut_special_case("self.value", 3, "[self]"), run=("field", "field.conjugates", dict(m=3))),
    "FiniteBifieldElement.minimal_polynomial: special-cased literal (self.value == 5 returns x^3+x^2+x+1)":
        dict(fn=FiniteBifieldElement.minimal_polynomial, tr=e2.mut_special_case("self.value", 5, "BinaryPolynomial(15)"), run=("field", "field.minpoly_vanishes", dict(m=3))),
    "FiniteBifield.__init__: wrong modulus in the table of primitive polynomials (m = 4: 0b10011 -> 0b10101)":
        dict(fn=FiniteBifield.__init__, tr=_mut_table_modulus, native_field=4, run=("prim", "field.primitive_order_exact", dict(m=4))),
    "FiniteBifield.primitive_element: returns 1 instead of x":
        dict(fn=FiniteBifield.primitive_element, tr=e2.mut_constant(0b10, 0b1), run=("prim", "field.primitive_order_exact", dict(m=3))),
}


class _Patched:
    """process-local replacement of one function of the real class by the compiled mutant while the replay
    of a mutant witness runs (nothing is written to /repo)"""

    def __init__(self, fn, compiled, owner=None):
        q = fn.__qualname__.split(".")
        self.cls = owner or getattr(A, q[0])
        self.name = q[1]
        self.compiled = compiled
        self.orig = inspect.getattr_static(self.cls, self.name)

    def __enter__(self):
        setattr(self.cls, self.name, self.compiled)

    def __exit__(self, *a):
        setattr(self.cls, self.name, self.orig)


def w_mutant(item):
    spec = MUTANTS[item["config"]]
    fn = spec["fn"]
    node = e2.mutant_of(fn, spec["tr"])
    compiled = e2.compile_mutant(fn, node)
    kind, cl, params = spec["run"]
    sub = dict(kind=kind, clause=cl, config="mutant: " + item["config"], **params)
    F = None
    if "native_field" in spec:        # mutated constructor: build the (wrong) field object with the compiled mutant
        F = object.__new__(FiniteBifield)
        compiled(F, spec["native_field"])

    def patch(nat):
        def run(**vals):
            with _Patched(fn, compiled, spec.get("owner")):
                return nat(**vals)
        return run

    mutants = {fn: node}
    if kind == "poly":
        I, law, text, names, vs = poly_setup(cl, params["degs"], params["D"], mutants)
        obs = w_poly(sub, mutants=mutants, native=patch(native_of(law, names)))
    elif kind == "field":
        sub.update(cube_bits=0, cube=0)
        obs = w_field(sub, F=F, mutants=mutants, patch=patch)
    else:
        obs = w_prim(sub, F=F, mutants=mutants, patch=patch)
    flagged = [o for o in obs if o["status"] == "violated" and (o.get("replay") or {}).get("reproduced")]
    q = {}
    for o in obs:
        for k2, v in o["queries"].items():
            q[k2] = q.get(k2, 0) + v
    st = dict(queries=q, solver_s=sum(o["solver_s"] for o in obs), paths=sum(o["paths"] for o in obs), validated=sum(o["validated"] for o in obs))
    if flagged:
        return [ob(item["clause"], item["config"], "holds", what=f"mutant flagged by {cl} at {flagged[0]['witness']}",
                   sample=dict(mutant=item["config"], flagged_by=cl, config=params, witness=flagged[0]["witness"]), **st)]
    why = "; ".join(f"{o['status']}: {o['what'][:160]}" for o in obs)
    return [ob(item["clause"], item["config"], "error", what=f"mutant NOT flagged by {cl} ({why})", **st)]


# ================================================================================================
# replay of a stored violation  (./check C18 --replay file)
# ================================================================================================
def replay(body):
    cl = body["clause"]
    w = body["witness"] or {}
    cfg = body["config"]
    if cl in POLY2 or cl in POLY3:
        law = (POLY2.get(cl) or POLY3.get(cl))[0]
        names = [n for n in ("a", "b", "c") if n in w]
        r = native_of(law, names)(**w)
        return r[0] is not True
    m = int(cfg.split("GF(2^")[1].split(")")[0]) if "GF(2^" in cfg else None
    F = FiniteBifield(m) if m else None
    if cl in FIELD:
        law, kinds, _ = FIELD[cl]
        names, _, _ = field_vars(2 * m + 4, m, kinds)
        return native_of(law, names, fixed=(F,))(**w)[0] is not True
    if cl == "field.primitive_order_exact":
        return native_of(law_prim_lower, ["e"], fixed=(F,))(**w)[0] is not True
    if cl == "field.primitive_order_divides":
        return native_of(law_prim_full, ["e"], fixed=(F,))(e=(1 << m) - 1)[0] is not True
    raise SystemExit(f"no replay for clause {cl}")


# ================================================================================================
def main():
    chk = Check(PID, level="model_checking")
    chk.encoded(*ENCODED)
    B = bounds()
    chk.bound("poly.divmod / poly.custom_divmod", f"all a, b with deg a <= {B['divmod']}, deg b <= {B['divmod']}, b != 0; one item per (deg a, deg b); b = 0 must raise")
    chk.bound("poly.gcd_divides / gcd_bezout / lcm_gcd", f"all a, b with degrees <= {B['gcd']} (including 0); one item per (deg a, deg b)")
    chk.bound("poly.mul_comm / mul_unit_degree", f"all a, b with degrees <= {B['ring2']}")
    chk.bound("poly.mul_assoc", f"all a, b, c with degrees <= {B['ring_assoc']}")
    chk.bound("poly.mul_distrib", f"all a, b, c with degrees <= {B['ring_distrib']}")
    chk.bound("field.add_group / mul_comm / frobenius", f"every m = 1..{B['field_pairs']}, all pairs (add_group: triples)")
    chk.bound("field.identity / inverse", f"every m = 1..{B['field_single']}, all elements")
    chk.bound("field.distrib", f"every m = 1..{B['field_distrib']}, all triples")
    chk.bound("field.assoc", f"every m = 1..{B['field_assoc']}, all triples (m = 7, 8 not reached: probed `unknown` at 400 s per cube)")
    chk.bound("field.pow_def / pow_add", f"every m = 1..{B['field_pow']}, all elements, exponents i, j <= 8 symbolic")
    chk.bound("field.trace", f"every m = 1..{B['field_trace']}, all pairs")
    chk.bound("field.conjugates", f"every m = 1..{B['field_conj']}, all elements")
    chk.bound("field.minpoly_vanishes / minpoly_irreducible", f"every m = 1..{B['minpoly']}, all elements (irreducible: all q, r of degree >= 1 and < m)")
    chk.bound("field.minpoly_least", f"every m = 1..{B['minpoly']}, all elements x all non-zero f with deg f < m")
    chk.bound("field.primitive_order_exact / primitive_order_divides", f"every m = 1..{min(B['prim'], 15)}, all exponents 1 <= e < 2^m - 1, one item per bit length of e"
              + ("; m = 16: alpha^(2^16-1) = 1 and all exponents below 2^11 claimed, 12- and 13-bit exponents stretch, 14..16-bit exponents not reached" if B['prim'] >= 16 else ""))
    chk.bound("field.no_zero_divisors", f"every m = 1..{B['nzd']}, all pairs of non-zero elements (a <= b by commutativity of the query only); m = 14..16 not reached")
    chk.bound("bit-vector widths", "2.D+5 (two-operand polynomial laws), 3.D+5 (three-operand), 2.m+4 (field laws); every << + - * carries a no-overflow side condition")
    chk.bound("loops", "merge mode: unrolled under guards, unwinding assertion (guard after the last unrolling unsatisfiable) decided by z3 per path; __pow__, conjugates, minimal_polynomial, trace: fork per trip count; unwinding cap 80")
    chk.stub("FiniteBifield.__call__: the element cache `_element_cache` is replaced by an always-empty mapping (membership False, stores dropped), so every call constructs FiniteBifieldElement(field, value % size) through the real __init__ - same observable value, object identity of cached elements is not modelled")
    chk.stub("FiniteBifield(m) itself (constructor with the table of primitive polynomials, log/exp tables) runs natively on the real class with concrete m on every run; its `modulus` enters the formulas as the constant it computes")
    chk.stub("FiniteBifieldElement.minimal_polynomial: the per-object memo `_minimal_poly` is absent on symbolic elements (hasattr False) and stores to it are dropped, so every call recomputes; lru_cache/functools wrappers would be bypassed via __wrapped__ (none present in algebra.py)")
    chk.stub("records: instances with symbolic fields are value records; `is` identity of merged records is not modelled")
    chk.assume("Python ints == signed bit-vectors of the stated width as long as the recorded no-overflow side conditions hold; they are proved per path (violation = harness error)")
    chk.assume("gcd 'is a combination of the operands': witnesses s, t are those of the extended Euclidean recurrence over the real div/__mul__ (existence is shown by exhibiting them)")
    chk.assume("minimal polynomial 'of least degree': decided directly (no non-zero f of smaller degree vanishes) and via irreducibility of every returned polynomial")
    chk.assume("exceptions: a law that raises on an admissible input counts as violated; division by the zero polynomial, inverse of 0 and negative exponents must raise")
    items = build_items()
    chk.extra["work_items"] = len(items)
    chk.extra["mutants"] = list(MUTANTS)
    chk.extra["engine"] = "E2: AST interpretation of the real source over QF_BV, merge-on-if, guarded loop unrolling / fork per trip count, z3 5.x; cvc5 cross-check on a seeded sample of unsat obligations"
    claimed = [it for it in items if not it.get("stretch")]
    stretch = [it for it in items if it.get("stretch")]
    t_run = time.time()
    # claimed items are bounded by their own solver timeouts; the pool budget is only a last-resort guard and is
    # far above their sum, so that a loaded machine cannot turn claimed obligations into "budget" inconclusives
    chk.run_items(MOD, "work", claimed, budget_s=tier(2400, 5400))
    # a worker killed from outside (e.g. by the kernel's OOM killer on a shared machine) breaks the whole pool:
    # items that were never run because of that are run once more on a fresh pool
    lost = {o["config"] for o in chk.obs if o["clause"] == "harness" and str(o["what"]).startswith("worker failed")}
    if lost:
        redo = [it for it in items if str(it.get("config", it)) in lost]
        done = {(o["clause"], o["config"]) for o in chk.obs if o["clause"] != "harness"}
        redo = [it for it in redo if (it["clause"], it["config"]) not in done]
        chk.obs = [o for o in chk.obs if not (o["clause"] == "harness" and str(o["what"]).startswith("worker failed"))]
        chk.extra["items_rerun_after_worker_loss"] = len(redo)
        if redo:
            chk.run_items(MOD, "work", redo, budget_s=tier(2400, 5400))
    # stretch items only get what is left of the tier's nominal wall time; unfinished ones are listed as undecided
    left = tier(240, 1800) - (time.time() - t_run)
    if stretch and left > 30:
        chk.run_items(MOD, "work", stretch, budget_s=left)
    else:
        for it in stretch:
            chk.add(ob(it["clause"], it["config"], "inconclusive", what="stretch item not started: tier wall time used up by the claimed items", stretch=True))
    chk.finish(min_obligations=100)


if __name__ == "__main__":
    replay_main(MOD)
    main()
