#!/usr/bin/env python3
"""Regenerates MANIFEST.json from the table below (kept in one place so that it stays valid)."""
import json
import os

ROOT = os.path.dirname(os.path.dirname(os.path.abspath(__file__)))

E1 = "bounded symbolic execution of the real torch code (dispatch-mode symbolic tensors) + z3"
CLAIMED = {
    "C01": dict(engine="E1", technique="symbolic execution of the real encoders/syndrome methods over GF(2)-affine tensors; z3 decides each obligation (unsat = all 2^k messages / 2^n words)",
                text="For every code object of the stated catalogue, one z3 query per clause covers all 2^k messages (enc = m.G, linear, injective, zero syndrome) and all 2^n words (zero syndrome => codeword, against a solver-validated reference dual basis). Bounded by the catalogue (n <= 31 quick / 32 thorough; Reed-Muller syndrome clause k <= 7).",
                note="Constructors run concretely; published G/H are constants of the formula. Trusted: z3, torch meta kernels for geometry, E1 op semantics (validated per run by concolic agreement with the real code on a model of every path).",
                ref="DESIGN.md §4 C01"),
    "C17": dict(engine="EUF", technique="real container code run on uninterpreted-function stage stubs; z3 (EUF+LIA) decides term equality; completion orders enumerated by the solver through an as_completed stub",
                text="Stage functions are uninterpreted symbols, so a pass holds for all stage functions and inputs within the stated pipeline sizes, branch counts, completion permutations (all n!), histories and iteration counts.",
                note="Thread timing is modelled by an as_completed stub yielding a solver-chosen permutation; superposition modelled as exact real addition. Replays use real threads.",
                ref="DESIGN.md §4 C17"),
}
CLAIMED["C03"] = dict(engine="E1", technique="symbolic execution of the real encoder; z3 pseudo-Boolean queries over all 2^k messages (exists light codeword? shifted codeword outside the code? non-multiple of g?)",
    text="Per code object: true minimum distance >= advertised (unsat of 'exists m != 0 with wt(enc(m)) < d'), attained where documented exact (sat witness replayed), cyclic closure and divisibility by g(X) for contiguous layouts, capability = floor((delta-1)/2), sphere-packing equality for the perfect codes from the solver-established d. Catalogue-bounded (n <= 31; n = 63/64 stretch).",
    note="Advertised values are read from the object's API (minimum_distance()/attribute) or the class documentation where no attribute exists. Closure oracle = solver-validated dual basis of the published G. X^j mod g computed by the real BinaryPolynomial (cross-checked against an independent bitmask routine).",
    ref="DESIGN.md §4 C03")
CLAIMED["C04"] = dict(engine="E1", technique="symbolic execution of encode followed by inverse_encode / extract_message / project_word on symbolic message tensors of each layout; z3 decides 'exists M: result != M'",
    text="For every catalogue code and each layout (1-D, (2,k), (2,2,k), (2,b*k), (3k,)) one query covers all messages of that layout: round-trip identity, zero syndrome, output shapes scaled by n/k and k/n; rejection of non-multiples is a ground check per shape.",
    note="Shapes are concrete (bounded technique); Reed-Muller nearest-codeword inverse bounded to k <= 5/7; <= 400 coded bits per run.",
    ref="DESIGN.md §4 C04")
CLAIMED["C02"] = dict(engine="E1", technique="symbolic execution of encoder + real decoder on r = enc(m) xor e with a cardinality constraint wt(e) <= t, forking per syndrome / per concretised bit; z3 decides decoded == m per path; ML clause: exists r, w with d(r, enc(w)) < d(r, enc(dec(r))) must be unsat",
    text="Per (code, decoder) pair all messages x all error patterns of weight <= t are covered by one query per symbolic path (paths = syndromes for table decoders, 1 for exhaustive ML, feasible received words for Berlekamp-Massey whose front end concretises each bit). Complete decoders additionally get the minimum-distance clause over all 2^n received words and all 2^k competitors.",
    note="t from error_correction_capability or floor((d_adv-1)/2). Bounds: n <= 16 (23 for Golay as stretch), ML k <= 7; Berlekamp-Massey: mu=3 all (m,e), mu=4 with fixed codewords (solver only prunes by weight there: weakest use of the technique). ReedMullerDecoder(hard) is a listed known finding.",
    ref="DESIGN.md §4 C02")
CLAIMED["C16"] = dict(engine="E1", technique="symbolic execution of the real metric classes on symbolic bit tensors and symbolic module counters; z3 (linear integer / pseudo-Boolean) decides value*total == error count; float()/item() conversions case-split over all feasible counts",
    text="One-shot: BER/BLER/benchmark helpers equal the exact fraction for all bit tensors of the stated shapes, symmetric, zero iff equal, BER <= BLER <= min(1,B*BER). Streaming: for every history over {update(b0..b2), compute, reset} up to the stated length with fully symbolic batch contents, every compute() equals the one-shot value on the data since the last reset.",
    note="History structures are enumerated (a stated bound) while all data is symbolic; results are float32 tensors, so equality is asserted within 2^-17 relative to the count (far below 1/N).",
    ref="DESIGN.md §4 C16")
CLAIMED["C11"] = dict(engine="E1", technique="symbolic execution of the real polar encoder / SC / polar-BP decoders on GF(2)-affine bits and symbolic real LLRs; z3 decides equality with the Kronecker-power reference, with the message (clean LLRs of symbolic magnitude) and with a textbook SC recursion written over the same terms",
    text="Encoder: all 2^N inputs of polar_transform and all messages of a (2,k) batch per (k,N,frozen value,interleave,mask) configuration in one query each; information set compared with an independent reading of the 5G ranking. Decoders: clean LLRs with symbolic magnitudes in [0.5,50] decode to the message; SC equals the textbook recursion for every tie-free real LLR vector.",
    note="Floats of symbolic quantities are reals; exact-zero decision LLRs are excluded (recorded assumption: the code maps sign 0 to 0.5); tanh/atanh are uninterpreted functions with sound axioms, so sum-product items are stretch. Bounds: encoder N <= 64 (1024 thorough), SC N <= 8 (16 stretch), BP N <= 4 (8 stretch), iterations <= 2 (3).",
    ref="DESIGN.md §4 C11")
CLAIMED["C05"] = dict(engine="E1", technique="symbolic execution of the real modulator and hard demodulator on symbolic bit tensors; values that depend on few bits are finite tables with torch-computed leaves; z3 decides 'exists bits: demod(mod(bits)) != bits' over the tables' guard formulas",
    text="Every bit sequence of L symbols (L = 2/3) in three layouts, for every scheme/order/labelling/normalisation option of the catalogue (also through the registry), in one query per output tensor; memory schemes after reset in eval mode with their documented start-up loss. In addition long frames of 1030 symbols (fixed pseudo-random pattern with the bits of symbols 256/512/768/1024 symbolic) for 3 (quick) / 12 (thorough) modems, which exercise block boundaries of vectorised code.",
    note="Table leaves are computed by torch itself (exact float32/complex64), so there is no reals-for-floats gap here; the table domain is limited to 16 selector bits per element. Orders up to 16 (quick) / 64 (thorough), QAM-256 stretch.",
    ref="DESIGN.md §4 C05")
CLAIMED["C14"] = dict(engine="E1+E2", technique="modems: symbolic execution of the real modulator on two symbolic labels (finite tables with torch-computed leaves), z3 decides injectivity / agreement with the published tables / Gray neighbourhood; Gray utilities: AST-level symbolic interpretation of the real source over QF_BV(64), fork per trip count, z3 (cvc5 cross-check on a sample)",
    text="Per modem all 4^b label pairs are covered by one query per clause (distinct points, forward agrees with constellation/bit_patterns, nearest neighbours differ in one bit when Gray is requested); unit energy and table distinctness are ground facts in exact rational arithmetic. Gray utilities: round trips, injectivity, adjacency and rejection of negatives for every n < 2^60, scalar and array forms.",
    note="Gray clause uses d_min of the published table with a 1e-4 relative margin. E2 is validated on every run against the repository's own test literals and seeded random inputs; known findings: the 1023/1365 literals (asserted by the existing tests) and the DPSK / pi/4-QPSK Gray label mismatch.",
    ref="DESIGN.md §4 C14")
CLAIMED["C12"] = dict(engine="E1", technique="symbolic execution of the real channels with the uniform draws stubbed to symbolic reals in [0,1) and a symbolic probability p in [0,1]; z3 (LRA + Bool) decides the per-position transition law, alphabet closure and input purity",
    text="For all inputs of n symbols, all draws and all p: BSC y_i = x_i xor [u_i < p], Z channel never 0->1 and 1->0 iff its own draw < p, BEC erases iff u_i < p and leaves the rest untouched; outputs stay in the input's alphabet (+ erasure), p = 0 / p = 1 give the deterministic extremes, the input tensor is unchanged. Each output position is a function of its own input and its own draw only.",
    note="The generator is trusted to deliver i.i.d. uniform draws; empirical rates on >= 10^6 draws are outside the claim. Z channel forks per input pattern (n <= 5).",
    ref="DESIGN.md §4 C12")
CLAIMED["C08"] = dict(engine="E1", technique="symbolic execution of the real constraint modules on symbolic real/complex samples (polynomial normal forms, purified sqrt and division); z3 QF_NRA decides each obligation with a fresh solver and a small tactic portfolio",
    text="Total / average / per-antenna power: for every item of every stated layout and all sample values |x| <= 100: output power <= target (both the normal and the zero-signal branch), >= 99.9% of the target when the input power is >= 1e-4, output is a positive real multiple of the input (signs and phases preserved); peak amplitude: every sample clipped to [-A, A] and unchanged inside; composite == sequential application term-wise. Idempotence, complex (2,2) layouts and the OFDM factory composite are stretch items. The PAPR bound is outside the claim.",
    note="Floats of symbolic quantities are treated as reals (explicit margins in every obligation); targets are concrete values from a grid; item sizes 2..3 (4 thorough).",
    ref="DESIGN.md §4 C08, §6")
CLAIMED["C07"] = dict(engine="E1", technique="symbolic execution of the real channels / SNR utilities with Gaussian and uniform draws stubbed to symbolic reals; noise terms are polynomials in the draws with purified sqrt; z3 QF_NRA (+ uninterpreted log/10^x with sound axioms) decides the scale and SNR identities",
    text="AWGN (real / complex, power symbolic or on a grid, SNR on a grid): for all inputs and all unit draws the added noise equals draw x sqrt(P) per real component (P/2 per complex component), P being the configured power or signal power / 10^(snr/10); caller-supplied noise is added verbatim; Laplacian: same-draw relation noise(P) = sqrt(P/(2c)) x unit-scale noise with c real components; add_noise_for_snr, the SNR metric (linear) and the dB<->linear<->noise-power conversions agree with the same definition.",
    note="Trusted lemmas: torch's generators deliver the unit laws, Var of the Laplacian transform is 2. Empirical powers of real draws are outside the claim. 1e-5 relative margin for the float32 conversion of the computed power.",
    ref="DESIGN.md §4 C07")
CLAIMED["C13"] = dict(engine="E1", technique="symbolic execution of the real flat-fading channel with Gaussian draws stubbed to symbolic reals; the output is a polynomial in inputs and draws whose normal form is compared with h.x + n (z3 asked for a point where the residual exceeds the margin); normalisation through a moment substitution on the coefficient polynomial produced by the real code",
    text="Supplied csi/noise: y == h.x + n and shape preserved for 1-D, (B,L) and (B,C,H,W) inputs (all x, h, n). Generated gains: for every coherence time 1..L+1 and batch 1..2, y - noise equals H[b, floor(i/Tc)] . x with one independent complex draw per (batch item, block) and noise = draw x sqrt(P/2); E|h|^2 = 1 for Rayleigh / Rician(K in {0,2,100}) and LOS/scatter = K.",
    note="Moment lemma (E g = 0, E g^2 = 1, independence) and torch's generator are trusted; SNR-calibrated noise on the faded signal is a stretch item (non-linear); log-normal normalisation is outside the claim.",
    ref="DESIGN.md §4 C13")
CLAIMED["C15"] = dict(engine="E1", technique="symbolic execution of modulator -> soft demodulator -> LLR consumer on symbolic bits (finite tables with torch-computed leaves), and of every LLR consumer on LLR = (1-2b) x magnitude; z3 decides 'exists bits: recovered bits != bits'; soft output as an uninterpreted sigmoid with sound axioms",
    text="Every LLR-mode consumer maps (1-2b) x magnitude (magnitudes 1e-3..1e3 on a grid) back to b for all bit patterns; every catalogue soft demodulator followed by an LLR consumer reproduces all transmitted bit sequences of 2 symbols; LLRThresholder's soft output equals sigmoid(-LLR) and decreases with the LLR.",
    note="Dead-zone / data-relative thresholders are exercised with |LLR| >= 1 (adaptive: both bit values present). Soft-input decoders as consumers are covered by the clean-LLR clauses of C10/C11. Known findings: FixedThresholder(LLR) and MinDistanceThresholder(LLR) polarity (pinned by existing tests).",
    ref="DESIGN.md §4 C15")
CLAIMED["C06"] = dict(engine="E1", technique="symbolic execution of the real demodulators on a received point y = a + jb with symbolic reals (squared distances are polynomials, argmin / min / where become ite terms) and a symbolic noise variance; z3 decides nearest-point optimality against the published tables and the max-log LLR identity",
    text="Memoryless schemes (BPSK, QPSK, PSK, QAM, PAM, OQPSK; orders <= 16 quick / 64 thorough-stretch): for every received point in [-4,4]^2 the hard decision is the label of a point within margin of the minimum distance; for every y and every noise variance in [1e-3,1e3] each LLR times the noise variance equals a fixed positive kappa times (min squared distance to a 1-labelled point - min squared distance to a 0-labelled point), which implies the sign/hard-decision agreement and the 1/noise_var scaling.",
    note="Floats of symbolic quantities are reals (margin 1e-4 d_min^2, tolerance 1e-3 kappa); kappa is read from one concrete evaluation, then proved for all inputs. DPSK / pi/4-QPSK on a continuous received point are outside the claim (atan2, alternating tables).",
    ref="DESIGN.md §4 C06, §6")
CLAIMED["C10"] = dict(engine="E1", technique="symbolic execution of the real soft-input decoders on symbolic real LLR vectors (sign/min/abs become ite terms, tanh/atanh uninterpreted); z3 (LRA / NRA) decides ML optimality of Wagner against a second symbolic codeword, the min-sum check update against the rule written in the harness, clean decoding and rescaling invariance",
    text="Wagner: for every tie-free real LLR vector of the stated layouts the returned codeword maximises the correlation over all 2^k single-parity-check codewords (one query per path, competitor symbolic). Min-sum: compute_cv_minsum equals sign product x minimum magnitude (scaled/offset) for all inputs on single-check codes, clean LLRs with symbolic magnitudes decode to the message and decoding is invariant to rescaling by 3. Soft Reed-Muller and sum-product BP: clean decoding (known finding / stretch).",
    note="Ties and exact zeros excluded; floats as reals; exact posteriors on cycle-free graphs are outside the claim; SPC k <= 4 (6), LDPC matrices 3x6 and 3x7, iterations <= 2 (3).",
    ref="DESIGN.md §4 C10, §6")
CLAIMED["C18"] = dict(engine="E2", technique="AST-level bounded symbolic interpretation of kaira/models/fec/algebra.py over z3 bit-vectors (merge-on-if, fork per trip count with unwinding assertions, no-overflow side conditions); z3 decides each ring/field law, cvc5 re-decides a sample of the unsat obligations",
    text="Euclidean-ring laws of BinaryPolynomial (division with remainder, gcd, lcm, ring laws) and field laws of GF(2^m) (commutativity, identity, inverses, powers, Frobenius, distributivity, associativity, order of the primitive element, trace, conjugates, minimal polynomials) for all operands inside the degree / field-size bounds recorded in the evidence file.",
    note="Bounds are dictated by solver capacity on multiplier-equivalence formulas (see evidence 'bounds'); beyond them the property is not claimed. The interpreter is validated on every run against the repository's own test literals and seeded random inputs; in-memory AST mutants must be flagged.",
    ref="DESIGN.md §4 C18, §2.2")
CLAIMED["C20"] = dict(engine="E1", technique="the real component is executed several times inside one solver context on shared symbolic members (stacked batch, each member alone, swapped order, repeated call, 1-D / (1,2,n) / two-blocks-per-row layouts); z3 decides whether any output coordinate can differ",
    text="For every component of the stated catalogue and ALL values of two symbolic members at once: batch result equals the stack of single results, independent of position and of the other member, repeated calls agree, the input tensor is unchanged, and every alternative layout either agrees with per-block evaluation or is rejected with an exception.",
    note="Batches of two members; Berlekamp-Massey with a fixed second member; constraints compare per leading index only (real, silent and complex members); thorough adds encoder purity for every catalogue code with n <= 16 and syndrome-decoder purity for small codes (about 540 components); PAPR / per-antenna constraints and iterative soft decoders are not in this catalogue (stated). Known finding: ReedMullerDecoder drops all but the first block of nested / multi-block inputs.",
    ref="DESIGN.md §4 C20")
CLAIMED["C09"] = dict(engine="E1", technique="the real ChannelCodeModel assembled from real encoder / modulator / demodulator / decoder objects is executed on symbolic message bits (finite tables with torch-computed leaves; reals for displacements); channel bit flips are a symbolic pattern with a cardinality constraint re-labelled through the library's own modem; z3 decides 'exists message (and admissible channel action): output != message'",
    text="All messages of one block, for each stated (code, decoder, modem, channel) combination: ideal channel, at most t flipped code bits per block, per-symbol displacement below d_min/2 per axis (BPSK, QPSK), and soft pipelines (Wagner, polar SC, min-sum LDPC) with the demodulator's LLR output at noise variances on a grid.",
    note="One row per call carrying one code block (2..4 blocks for the multi-block links); quick: 60 links; thorough: every code/decoder of the catalogue with every memoryless modem whose symbol size divides n (about 470 links incl. 64-/256-QAM); the combination list is a bound. Interface mismatches between individually correct stages (label tables, LLR polarity) are what this check is for (self-test: swapped demodulator labels).",
    ref="DESIGN.md §4 C09")
CLAIMED["C19"] = dict(engine="E3+E1", technique="shape clause: torch's own symbolic-shape tracer (FakeTensorMode + ShapeEnv with batch/height/width dynamic) runs the real encoder/decoder modules; the resulting integer size expressions and guards are translated to z3 LIA, which decides the shape contract over all admissible sizes (dynamic sizes are traced under size >= 2, so B = 1 is traced separately; uncovered guard regions are re-traced). Gradient clause: the real channel / constraint runs on symbolic float64 tensors that require grad; torch's autograd engine executes its backward formulas on the symbolic tensors, and z3 (NRA on cone-of-influence slices) decides per Jacobian entry whether autograd's value can differ from the symbolic derivative of the stage's own output, and whether a backward operation can be undefined",
    text="(a) for the bundled Bourtsoulatze2019 and Tung2022 (Q, Q2) encoder/decoder pairs with reduced widths, every batch size 1..8 and every height/width in [16,512] that is a multiple of the total stride: decoder(encoder(x)) has the input's shape and the latent is (B, channels, H/stride, W/stride); the filter-count helper on ground instances. (b) for AWGN / Laplacian / phase-noise / flat-fading / nonlinear channels and total / average / per-antenna / peak / PAPR (no-clipping path) constraints on real and complex tensors of 2..8 samples in 1-D, batch-of-1, batch-of-2 and 3-D layouts, with symbolic noise draws: autograd's Jacobian equals the derivative of the computed function and is finite for every input of the stated domain (|x| <= 20, item power >= 0.05, forward radicands/divisors >= 1e-3, 1% away from clipping levels); (c) DeepJSCCModel(linear encoder with symbolic 2x2 weights -> TotalPower -> AWGN -> linear decoder): autograd dL/dW equals the derivative of the loss for all weights and draws and is not identically zero for any parameter.",
    note="Gradients through the convolutional encoders/decoders themselves and the decoders' output value range are outside the claim (scalar-symbolic execution of a conv net is out of reach). PAPR clipping rounds, Nonlinear+SNR-noise on complex input and three further pipelines are stretch items (reported, never counted as holds). torch's fake/meta kernels (shape inference) and torch's backward formulas (executed for real on symbolic scalars) are trusted as torch semantics. One genuine defect found and repaired (PAPRConstraint not differentiable, fix f892e47).",
    ref="DESIGN.md §4 C19, §6, §9")
NOT_YET = {}

PENDING_REASON = "check not built yet in this round (planned: see DESIGN.md §8); not claimed until its check exists"


def main():
    props = [json.loads(l) for l in open(os.path.join(ROOT, "properties.jsonl"))]
    extra = {}
    p = os.path.join(ROOT, "tools", "manifest_table.json")
    if os.path.exists(p):
        extra = json.load(open(p))
    claimed = dict(CLAIMED)
    claimed.update(extra.get("claimed", {}))
    na = dict(extra.get("not_applicable", {}))
    checks = []
    not_app = []
    for pr in props:
        pid = pr["id"]
        if pid in claimed and os.path.exists(os.path.join(ROOT, "kverif", "checks", pid.lower() + ".py")):
            c = claimed[pid]
            checks.append(dict(
                property_id=pid,
                quick_cmd=f"./check {pid}",
                thorough_cmd=f"VERIF_TIER=thorough ./check {pid}",
                evidence_file=f"/verif/evidence/{pid}.json",
                replay_cmd_template=f"./check {pid} --replay {{path}}",
                engine=c["engine"],
                level_claimed=dict(category="model_checking", text=c["text"], design_ref=c["ref"]),
                level_note=c["note"],
                technique=c["technique"],
            ))
        else:
            not_app.append(dict(property_id=pid, reason=na.get(pid, PENDING_REASON)))
    man = dict(
        version=1,
        setup_cmd="./setup.sh",
        hooks=dict(guard="KAIRA_VERIF", enable="no source hooks: all interception happens in the checker process (torch dispatch mode, AST interpretation, as_completed stub)",
                   baseline_off_cmd="cd /repo && /venv/bin/python -m pytest -ra -q -p no:cacheprovider --timeout=900 --continue-on-collection-errors",
                   source_commits=[], add_only=True),
        engines=[
            dict(name="E1", path="kverif/engine.py kverif/ops.py kverif/sym.py", serves_properties=[c["property_id"] for c in checks if c["engine"] == "E1"], kind_free_text=E1),
            dict(name="E2", path="kverif/e2.py", serves_properties=[c["property_id"] for c in checks if c["engine"] in ("E2", "E1+E2")], kind_free_text="AST-level bounded symbolic interpreter of kaira's pure-Python integer code over z3 bit-vectors"),
            dict(name="EUF", path="kverif/euf.py", serves_properties=[c["property_id"] for c in checks if c["engine"] == "EUF"], kind_free_text="uninterpreted-function stage stubs run through the real pipeline containers; z3 EUF"),
        ],
        checks=checks,
        not_applicable=not_app,
        notes="Solver-based checking of the real code. Genuine defects repaired by 'fix:' commits in /repo and recorded in known_findings.json ('fixed'); unrepaired ones are listed there under 'findings'.",
    )
    with open(os.path.join(ROOT, "MANIFEST.json"), "w") as f:
        json.dump(man, f, indent=1)
    print("claimed:", [c["property_id"] for c in checks])


if __name__ == "__main__":
    main()
