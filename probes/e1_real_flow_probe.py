"""Probe: real-valued flow through the E1 prototype (TotalPowerConstraint / AveragePowerConstraint on a (2,3) batch,
real code, symbolic x and symbolic target power). Values are z3 Real terms; sqrt is purified."""
import warnings; warnings.filterwarnings("ignore")
import time, fractions
import numpy as np, torch, z3
import e1_symtensor_probe as e1
from e1_symtensor_probe import SymTensor, Storage, Ctx, explore, new_from_arr, mkmeta, NotEncodable, VIEW_OPS

SQRT_DEFS = []
_cnt = [0]
def rv(v):
    if isinstance(v, z3.ExprRef): return v
    if isinstance(v, bool): return z3.BoolVal(v)
    fr = fractions.Fraction(float(v)); return z3.Q(fr.numerator, fr.denominator)
def sqrt(e):
    _cnt[0] += 1; s = z3.Real(f"sqrt{_cnt[0]}"); SQRT_DEFS.append(z3.And(s >= 0, s * s == e)); return s
def vec(f): return np.vectorize(f, otypes=[object])

def handler(self, func, types, args=(), kwargs=None):
    kwargs = kwargs or {}
    name = str(func)
    from torch.utils._pytree import tree_map
    def to_sym(a):
        if isinstance(a, torch.Tensor) and not isinstance(a, SymTensor):
            with torch.utils._python_dispatch._disable_current_modes():
                vals = a.reshape(-1).tolist()
            flat = np.empty(len(vals), dtype=object)
            for i, v in enumerate(vals): flat[i] = rv(v)
            return SymTensor(Storage(flat), mkmeta(a.shape, a.dtype))
        return a
    args = tree_map(to_sym, args); kwargs = tree_map(to_sym, kwargs)
    margs = tree_map(lambda a: a.meta if isinstance(a, SymTensor) else a, args)
    mkw = tree_map(lambda a: a.meta if isinstance(a, SymTensor) else a, kwargs)
    if "device" in mkw: mkw = dict(mkw, device="meta")
    with torch.utils._python_dispatch._disable_current_modes():
        mout = func(*margs, **mkw)
    if name in VIEW_OPS or name == "aten.reshape.default":
        return tree_map(lambda m: SymTensor(args[0].storage_, m) if isinstance(m, torch.Tensor) else m, mout)
    A = [a.arr() if isinstance(a, SymTensor) else a for a in args]
    def out(arr): return new_from_arr(arr, mout)
    if name == "aten.lift_fresh.default": return args[0]
    if name in ("aten.ones_like.default",): return out(np.full(tuple(mout.shape), rv(1), dtype=object))
    if name == "aten.pow.Tensor_Scalar":
        assert A[1] == 2; return out(vec(lambda x: x * x)(A[0]))
    if name == "aten.sum.dim_IntList":
        dims = tuple(A[1]); keep = kwargs.get("keepdim", A[2] if len(A) > 2 else False)
        return out(np.sum(A[0], axis=dims, keepdims=keep))
    if name == "aten.sum.default": return out(np.array(np.sum(A[0]), dtype=object))
    if name == "aten.lt.Scalar": return out(vec(lambda x: x < rv(A[1]))(A[0]))
    if name == "aten.add.Tensor":
        b = A[1] if isinstance(args[1], SymTensor) else rv(A[1])
        return out(np.vectorize(lambda x, y: x + y, otypes=[object])(*np.broadcast_arrays(A[0], b)))
    if name == "aten.reciprocal.default": return out(vec(lambda x: 1 / x)(A[0]))
    if name in ("aten.mul.Tensor", "aten.div.Tensor"):
        b = A[1] if isinstance(args[1], SymTensor) else rv(A[1])
        f = (lambda x, y: x * y) if name == "aten.mul.Tensor" else (lambda x, y: x / y)
        return out(np.vectorize(f, otypes=[object])(*np.broadcast_arrays(A[0], b)))
    if name == "aten.sqrt.default": return out(vec(sqrt)(A[0]))
    if name == "aten.any.default": return out(np.array(z3.Or(list(A[0].reshape(-1))), dtype=object))
    if name == "aten.where.self":
        c, a, b = np.broadcast_arrays(A[0], A[1], A[2])
        return out(np.vectorize(lambda c_, a_, b_: z3.If(c_, a_, b_), otypes=[object])(c, a, b))
    raise NotEncodable(name)
e1.SymMode.__torch_dispatch__ = handler

def symreal(name, shape):
    meta = mkmeta(shape, torch.float32); flat = np.empty(meta.numel(), dtype=object)
    for i in range(meta.numel()): flat[i] = z3.Real(f"{name}{i}")
    return SymTensor(Storage(flat), meta)

if __name__ == "__main__":
    from kaira.constraints import TotalPowerConstraint, AveragePowerConstraint
    for cls, attr, shape in ((TotalPowerConstraint, "total_power", (2, 3)), (AveragePowerConstraint, "average_power", (2, 3)), (TotalPowerConstraint, "total_power", (3,))):
        t0 = time.time(); T = z3.Real("T")
        def run(ctx):
            SQRT_DEFS.clear(); _cnt[0] = 0
            c = cls(1.0)
            Tt = SymTensor(Storage(np.array([T], dtype=object)), mkmeta((), torch.float32)); setattr(c, attr, Tt)   # symbolic target written onto the module
            with e1.THE_MODE:
                x = symreal("x", shape); y = c(x)
            return x.arr().copy(), y.arr().copy(), list(SQRT_DEFS)
        res = explore(run, [T > 0, T <= 100])
        tot = {"unsat": 0, "sat": 0, "unknown": 0}
        for ctx, (x, y, defs) in res:
            items = [(x[i], y[i]) for i in range(x.shape[0])] if x.ndim == 2 else [(x, y)]
            for xi, yi in items:
                n = xi.size; P_in = sum(v * v for v in xi.reshape(-1)); P_out = sum(v * v for v in yi.reshape(-1))
                tgt = T if attr == "total_power" else T * n
                for prop in (P_out <= tgt * (1 + z3.Q(1, 10**6)), z3.Implies(P_in >= z3.Q(1, 10**4), P_out >= z3.Q(999, 1000) * tgt),
                             z3.Implies(P_in >= z3.Q(1, 10**4), z3.And([z3.Implies(a > 0, b > 0) for a, b in zip(xi.reshape(-1), yi.reshape(-1))]))):
                    s = z3.Solver(); s.set("timeout", 60000); s.add(*ctx.pc, *defs, z3.Not(prop)); r = str(s.check()); tot[r] += 1
                    if r == "sat": print("   CE", s.model())
        print(f"{cls.__name__}{shape}: paths={len(res)} results={tot} {time.time()-t0:.1f}s")
