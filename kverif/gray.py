"""C14, Gray-utility clauses: kaira.modulations.utils.{binary_to_gray, gray_to_binary,
binary_array_to_gray, gray_array_to_binary} decided by E2 (AST interpretation of the real source over
QF_BV(64)), all n < 2^60.

    items()      -> list of picklable work items
    work(item)   -> list of obligation dicts (kverif.common.ob)

Property clause: "the Gray conversion utilities are mutually inverse bijections on the non-negative
integers that map consecutive integers to words at Hamming distance one" (scalar and array forms; a
negative input raises).
"""
from __future__ import annotations

import ast
import random

import torch
import z3

from kaira.modulations import utils as U
from kaira.modulations.utils import binary_array_to_gray, binary_to_gray, gray_array_to_binary, gray_to_binary

from kverif import common, e2
from kverif.common import Tally, ob, tier

PID = "C14"
W = 64
NB = 60                      # n < 2^60
CONFIG = "n < 2^60 (QF_BV(64))"
ARR_LEN = 3
ARR_CONFIG = f"int64 tensor / list of length {ARR_LEN}, every element < 2^60 (QF_BV(64))"


# ------------------------------------------------------------------------------------------------
# laws: plain Python over the real functions.  The same function object is (a) interpreted by E2 with
# symbolic arguments and (b) called natively for the replay of a solver model.
# ------------------------------------------------------------------------------------------------
def law_roundtrip_g2b_b2g(n):
    return gray_to_binary(binary_to_gray(n)) == n


def law_roundtrip_b2g_g2b(n):
    return binary_to_gray(gray_to_binary(n)) == n


def law_b2g_injective(n, k):
    return binary_to_gray(n) != binary_to_gray(k)


def law_g2b_injective(n, k):
    return gray_to_binary(n) != gray_to_binary(k)


def law_adjacent(n):
    return bin(binary_to_gray(n) ^ binary_to_gray(n + 1)).count("1") == 1


def law_nonneg(n):
    return binary_to_gray(n) >= 0 and gray_to_binary(n) >= 0


def law_neg_b2g(n):
    binary_to_gray(n)
    return True


def law_neg_g2b(n):
    gray_to_binary(n)
    return True


def law_array_b2g(x0, x1, x2):
    t = torch.tensor([x0, x1, x2], dtype=torch.int64)
    g = binary_array_to_gray(t)
    return (g.numel() == 3 and g.dtype == torch.int64 and int(g[0]) == binary_to_gray(x0)
            and int(g[1]) == binary_to_gray(x1) and int(g[2]) == binary_to_gray(x2))


def law_array_g2b(x0, x1, x2):
    t = torch.tensor([x0, x1, x2], dtype=torch.int64)
    g = gray_array_to_binary(t)
    return (g.numel() == 3 and g.dtype == torch.int64 and int(g[0]) == gray_to_binary(x0)
            and int(g[1]) == gray_to_binary(x1) and int(g[2]) == gray_to_binary(x2))


def law_list_b2g(x0, x1, x2):
    g = binary_array_to_gray([x0, x1, x2])
    return (g.numel() == 3 and g.dtype == torch.int64 and int(g[0]) == binary_to_gray(x0)
            and int(g[1]) == binary_to_gray(x1) and int(g[2]) == binary_to_gray(x2))


def law_list_g2b(x0, x1, x2):
    g = gray_array_to_binary([x0, x1, x2])
    return (g.numel() == 3 and g.dtype == torch.int64 and int(g[0]) == gray_to_binary(x0)
            and int(g[1]) == gray_to_binary(x1) and int(g[2]) == gray_to_binary(x2))


# value probes for the translator validation (interpreted value == real value, not only the verdict)
def val_b2g(n):
    return binary_to_gray(n)


def val_g2b(n):
    return gray_to_binary(n)


def val_arr_b2g(x0, x1, x2):
    g = binary_array_to_gray(torch.tensor([x0, x1, x2], dtype=torch.int64))
    return (int(g[0]), int(g[1]), int(g[2]))


def val_arr_g2b(x0, x1, x2):
    g = gray_array_to_binary([x0, x1, x2])
    return (int(g[0]), int(g[1]), int(g[2]))


# clause -> (law, variable names, text, kind)
CLAUSES = {
    "gray.roundtrip_g2b_b2g": (law_roundtrip_g2b_b2g, ("n",), "gray_to_binary(binary_to_gray(n)) == n", "scalar"),
    "gray.roundtrip_b2g_g2b": (law_roundtrip_b2g_g2b, ("n",), "binary_to_gray(gray_to_binary(n)) == n", "scalar"),
    "gray.b2g_injective": (law_b2g_injective, ("n", "k"), "n < k => binary_to_gray(n) != binary_to_gray(k)", "pair"),
    "gray.g2b_injective": (law_g2b_injective, ("n", "k"), "n < k => gray_to_binary(n) != gray_to_binary(k)", "pair"),
    "gray.adjacent": (law_adjacent, ("n",), "popcount(binary_to_gray(n) ^ binary_to_gray(n+1)) == 1", "scalar"),
    "gray.nonnegative": (law_nonneg, ("n",), "binary_to_gray(n) >= 0 and gray_to_binary(n) >= 0", "scalar"),
    "gray.negative_raises_b2g": (law_neg_b2g, ("n",), "n < 0 => binary_to_gray(n) raises", "negative"),
    "gray.negative_raises_g2b": (law_neg_g2b, ("n",), "n < 0 => gray_to_binary(n) raises", "negative"),
    "gray.array_b2g_elementwise": (law_array_b2g, ("x0", "x1", "x2"), "binary_array_to_gray(tensor x)[i] == binary_to_gray(x[i]), int64, same length", "array"),
    "gray.array_g2b_elementwise": (law_array_g2b, ("x0", "x1", "x2"), "gray_array_to_binary(tensor x)[i] == gray_to_binary(x[i]), int64, same length", "array"),
    "gray.list_b2g_elementwise": (law_list_b2g, ("x0", "x1", "x2"), "binary_array_to_gray(list x)[i] == binary_to_gray(x[i]), int64, same length", "array"),
    "gray.list_g2b_elementwise": (law_list_g2b, ("x0", "x1", "x2"), "gray_array_to_binary(list x)[i] == gray_to_binary(x[i]), int64, same length", "array"),
}

ENCODED = [U.binary_to_gray, U.gray_to_binary, U.binary_array_to_gray, U.gray_array_to_binary]
STUBS = [
    "torch tensor model for the array forms (kverif.gray.STensor): a 1-D integer tensor is a list of symbolic elements "
    "with dtype/device; modelled: detach, cpu, clone, numel, long, to, iteration, item read/store, element-wise ^ & | >> << + - "
    "with int or tensor operands, comparisons (boolean tensor), ~, any/all, bool(), torch.where, torch.tensor, "
    "torch.zeros_like/ones_like/full_like; anything else is NotEncodable; validated against the real functions on concrete tensors in every run",
]
ASSUMPTIONS = [
    "Python ints are modelled as signed 64-bit vectors with no-overflow side conditions on every << + - * (a violated side condition is a harness error)",
    "array forms: int64 tensors and lists of Python ints only (float tensors and other dtypes are not covered)",
]
BOUNDS = {
    "gray.scalar": "n < 2^60 (all one-argument clauses and binary_to_gray injectivity; negative-input clause: -2^63 <= n < 0)",
    "gray.g2b_injective": "n < k < 2^32 (quick) / 2^60 (thorough), one work item per bit length of n",
    "gray.array": f"length {ARR_LEN}, every element < 2^60, dtype int64 / Python list",
    "gray.gray_to_binary loop": "scalar clauses: fork per trip count, unwinding bound 70 (60 trips reached); array clauses: unrolled 61 times under guards with a solver-checked unwinding assertion",
}


# ------------------------------------------------------------------------------------------------
# torch tensor stub for the array forms
# ------------------------------------------------------------------------------------------------
def _elem(x):
    return x.v if isinstance(x, STScalar) else x


class STScalar:
    """0-d tensor (element of an STensor, result of .any()/.all())"""
    e2_symbolic = True
    e2_stub = True

    def __init__(self, v):
        self.v = v

    def e2_int(self, I):
        if isinstance(self.v, (e2.SB, bool)):
            return e2.SI(I.bv(self.v)) if isinstance(self.v, e2.SB) else int(self.v)
        return self.v

    def e2_bool(self, I):
        v = self.v
        if isinstance(v, e2.SI):
            return e2.SB(v.e != 0)
        if isinstance(v, e2.SB):
            return v
        return bool(v)

    def e2_isinstance(self, cls):
        return issubclass(torch.Tensor, cls) if isinstance(cls, type) else False

    def e2_concretize(self, I, model):
        return I.concretize(self.v, model)

    def e2_binop(self, I, op, other):
        return STScalar(I.binop(op, self.v, _elem(other)))

    def e2_rbinop(self, I, op, other):
        return STScalar(I.binop(op, _elem(other), self.v))

    def e2_compare(self, I, op, other):
        return STScalar(I.cmpop(op, self.v, _elem(other)))

    def item(self):
        return self.v


class STensor:
    """1-D tensor whose elements are symbolic ints (dtype int64) or symbolic booleans (dtype bool).
    Element-wise expressions (^ & | >> << + -, comparisons, torch.where, *_like, any/all) are modelled on the
    elements with the interpreter's own int/bool semantics; int64 == Python int inside the 64-bit side conditions."""
    e2_symbolic = True
    e2_stub = True

    def __init__(self, elems, dtype=torch.int64, device=None):
        self.elems = list(elems)
        self._dtype = dtype
        self._device = device or torch.device("cpu")

    dtype = property(lambda self: self._dtype)
    device = property(lambda self: self._device)
    shape = property(lambda self: torch.Size([len(self.elems)]))

    def detach(self):
        return self

    def cpu(self):
        return self

    def clone(self):
        return STensor(self.elems, self._dtype, self._device)

    def numel(self):
        return len(self.elems)

    def dim(self):
        return 1

    def __len__(self):
        return len(self.elems)

    def long(self):
        if self._dtype == torch.bool:
            raise e2.NotEncodable("tensor stub: bool -> int64 conversion")
        return STensor(self.elems, torch.int64, self._device)

    def to(self, *args, dtype=None, device=None):
        for a in args:
            if isinstance(a, torch.dtype):
                dtype = a
            else:
                device = a
        dtype = dtype or self._dtype
        if dtype != self._dtype:
            raise e2.NotEncodable(f"tensor stub: conversion {self._dtype} -> {dtype}")
        return STensor(self.elems, dtype, torch.device(device) if device is not None else self._device)

    def __iter__(self):
        return iter([STScalar(e) for e in self.elems])

    # -- element-wise arithmetic -------------------------------------------------------------------
    def _other(self, other):
        if isinstance(other, STensor):
            if len(other.elems) == len(self.elems):
                return list(other.elems)
            if len(other.elems) == 1:
                return [other.elems[0]] * len(self.elems)
            raise e2._TargetRaise("RuntimeError")
        if isinstance(other, torch.Tensor):
            vals = other.reshape(-1).tolist()
            if len(vals) == 1:
                vals = vals * len(self.elems)
            if len(vals) != len(self.elems):
                raise e2._TargetRaise("RuntimeError")
            return vals
        other = _elem(other)
        if isinstance(other, (int, bool, e2.SI, e2.SB)):
            return [other] * len(self.elems)
        raise e2.NotEncodable(f"tensor stub: operand of type {type(other).__name__}")

    def _res_dtype(self, op, other):
        both_bool = self._dtype == torch.bool and (not isinstance(other, STensor) or other._dtype == torch.bool) \
            and not (isinstance(_elem(other), (int, e2.SI)) and not isinstance(_elem(other), bool))
        if both_bool and op in (ast.BitXor, ast.BitAnd, ast.BitOr):
            return torch.bool
        if self._dtype == torch.bool or (isinstance(other, STensor) and other._dtype == torch.bool):
            raise e2.NotEncodable("tensor stub: mixed bool/int arithmetic")
        return torch.int64

    def e2_binop(self, I, op, other):
        if op not in (ast.BitXor, ast.BitAnd, ast.BitOr, ast.RShift, ast.LShift, ast.Add, ast.Sub):
            raise e2.NotEncodable(f"tensor stub: operator {op.__name__}")
        dt = self._res_dtype(op, other)
        return STensor([I.binop(op, a, b) for a, b in zip(self.elems, self._other(other))], dt, self._device)

    def e2_rbinop(self, I, op, other):
        if op not in (ast.BitXor, ast.BitAnd, ast.BitOr, ast.RShift, ast.LShift, ast.Add, ast.Sub):
            raise e2.NotEncodable(f"tensor stub: operator {op.__name__}")
        dt = self._res_dtype(op, other)
        return STensor([I.binop(op, b, a) for a, b in zip(self.elems, self._other(other))], dt, self._device)

    def e2_compare(self, I, op, other):
        return STensor([I.cmpop(op, a, b) for a, b in zip(self.elems, self._other(other))], torch.bool, self._device)

    def e2_invert(self, I):
        if self._dtype == torch.bool:
            return STensor([e2.SB(z3.Not(I.bo(a))) if e2.is_sym(a) else (not a) for a in self.elems], torch.bool, self._device)
        return STensor([I.mk_si(~I.bv(a)) if e2.is_sym(a) else ~a for a in self.elems], self._dtype, self._device)

    def _truths(self):
        I = _CUR[0]
        out = []
        for a in self.elems:
            if isinstance(a, e2.SB):
                out.append(a.e)
            elif isinstance(a, e2.SI):
                out.append(a.e != 0)
            else:
                out.append(z3.BoolVal(bool(a)))
        return out

    def any(self):
        ts = self._truths()
        if all(z3.is_true(t) or z3.is_false(t) for t in ts):
            return STScalar(any(z3.is_true(t) for t in ts))
        return STScalar(e2.SB(z3.Or(ts)))

    def all(self):
        ts = self._truths()
        if all(z3.is_true(t) or z3.is_false(t) for t in ts):
            return STScalar(all(z3.is_true(t) for t in ts))
        return STScalar(e2.SB(z3.And(ts)))

    def e2_bool(self, I):
        if len(self.elems) != 1:
            raise e2._TargetRaise("RuntimeError")     # Boolean value of Tensor with more than one value is ambiguous
        return STScalar(self.elems[0]).e2_bool(I)

    def e2_getitem(self, I, i):
        if not isinstance(i, int):
            raise e2.NotEncodable("tensor stub: only integer indexing")
        return STScalar(self.elems[i])

    def e2_store(self, I, i, v, g):
        v = _elem(v)
        if not isinstance(v, (int, e2.SI)) or isinstance(v, bool):
            raise e2.NotEncodable("tensor stub: store of a non-int")
        if isinstance(v, e2.SI):
            pass            # value is a 64-bit signed vector == int64 range by construction
        elif not (-(1 << 63) <= v < (1 << 63)):
            raise e2._TargetRaise("RuntimeError")
        if g is not True:
            v = I.merge(e2.g_expr(g), v, self.elems[i])
        self.elems[i] = v

    def e2_isinstance(self, cls):
        return issubclass(torch.Tensor, cls) if isinstance(cls, type) else False

    def e2_concretize(self, I, model):
        return torch.tensor([I.concretize(e, model) for e in self.elems], dtype=self._dtype)


_CUR = [None]       # interpreter of the running work item (the tensor model's any()/all() need none of its state)


def _like(val):
    def stub(I, args, kwargs):
        t = args[0]
        if isinstance(t, STensor):
            v = args[1] if val is None else val
            dt = kwargs.get("dtype") or t.dtype
            if dt == torch.bool:
                return STensor([bool(v)] * len(t.elems), dt, t.device)
            return STensor([_elem(v)] * len(t.elems), dt, t.device)
        fn = {None: torch.full_like, 0: torch.zeros_like, 1: torch.ones_like}[val]
        return fn(*args, **kwargs)
    return stub


def _stub_where(I, args, kwargs):
    if len(args) != 3:
        raise e2.NotEncodable("tensor stub: torch.where with one argument")
    c, a, b = args
    if not any(isinstance(x, (STensor, STScalar)) for x in args):
        return torch.where(*args, **kwargs)
    ref = next(x for x in args if isinstance(x, STensor))
    cs = ref._other(c) if not isinstance(c, STensor) else c.elems
    as_ = ref._other(a) if not isinstance(a, STensor) else a.elems
    bs = ref._other(b) if not isinstance(b, STensor) else b.elems
    out = []
    for ci, ai, bi in zip(cs, as_, bs):
        if isinstance(ci, e2.SB):
            out.append(I.merge(ci.e, ai, bi))
        elif isinstance(ci, e2.SI):
            out.append(I.merge(ci.e != 0, ai, bi))
        else:
            out.append(ai if ci else bi)
    dt = a.dtype if isinstance(a, STensor) else (b.dtype if isinstance(b, STensor) else torch.int64)
    return STensor(out, dt, ref.device)


def _stub_tensor(I, args, kwargs):
    data = args[0]
    if not e2.sym_deep(data):
        return torch.tensor(*args, **kwargs)
    dtype = kwargs.get("dtype", torch.int64)
    if dtype != torch.int64 or not isinstance(data, (list, tuple)):
        raise e2.NotEncodable("tensor stub: torch.tensor of symbolic data needs a flat list and dtype int64")
    return STensor(list(data), dtype, kwargs.get("device"))


def make_interp(mutants=None, merged=False):
    """scalar clauses: gray_to_binary's loop forks per trip count (the merged encoding of the round trip is
    out of z3's reach, DESIGN 2.2); array clauses: three loops would fork 61^3 ways, and both sides of the
    element-wise comparison run the same code, so there the loop is unrolled under guards (merge mode,
    61 unrollings, unwinding assertion checked by the solver).  In the scalar clauses the early exits
    (`if num == <literal>: return ...`) fork as well: each path is then ite-free shift/xor arithmetic, which
    z3's rewriter decides at once, whereas the merged form leaves a 60-bit xor chain to the SAT solver."""
    return e2.Interp(W, classes=(), default_loop="merge" if merged else "fork", max_unroll=70,
                     unroll={"gray_to_binary": NB + 1} if merged else None, fork_on_return=not merged,
                     fn_stubs={torch.tensor: _stub_tensor, torch.zeros_like: _like(0), torch.ones_like: _like(1),
                               torch.full_like: _like(None), torch.where: _stub_where}, mutants=mutants)


# ------------------------------------------------------------------------------------------------
# work items
# ------------------------------------------------------------------------------------------------
def items():
    its = [dict(kind="validate", config="translator validation (literal test inputs + seeded random inputs)", clause="gray.validation")]
    for cl, (_, _, _, kind) in CLAUSES.items():
        if cl == "gray.g2b_injective":
            # two loops with data-dependent trip counts: one work item per bit length of the smaller argument
            # (its loop then has a single feasible trip count), the larger argument forks per trip count
            for L in range(0, pair_bits() + 1):
                its.append(dict(kind="law", clause=cl, bitlen=L, config=f"bit_length(n) = {L}, n < k (QF_BV(64))"))
            continue
        its.append(dict(kind="law", clause=cl, config=ARR_CONFIG if kind == "array" else (CONFIG if kind != "negative" else "-2^63 <= n < 0 (QF_BV(64))")))
    for name in MUTANTS:
        its.append(dict(kind="mutant", clause="gray.mutant_selftest", config=name))
    return its


def pair_bits():
    """bound of the two-argument gray_to_binary injectivity clause: n < k < 2^pair_bits()"""
    return tier(32, NB)


def _native_of(law, names, patched=None):
    def native(**vals):
        try:
            return (bool(law(*[vals[n] for n in names])), "returned")
        except Exception as e:  # noqa
            return ("raised", type(e).__name__)
    return native


def _symbolic(names, kind, bitlen=None):
    vs, assume = {}, []
    if bitlen is not None:           # gray.g2b_injective: n has exactly `bitlen` bits, n < k < 2^pair_bits()
        nb = pair_bits()
        n, k = names
        if bitlen == 0:
            vs[n] = z3.BitVecVal(0, W)
        elif bitlen == 1:
            vs[n] = z3.BitVecVal(1, W)
        else:
            vs[n] = z3.ZeroExt(W - bitlen, z3.Concat(z3.BitVecVal(1, 1), z3.BitVec(n, bitlen - 1)))
        vs[k] = z3.ZeroExt(W - nb, z3.BitVec(k, nb))
        return vs, [z3.ULT(vs[n], vs[k])]
    for n in names:
        if kind == "negative":
            v = z3.BitVec(n, W)
            assume.append(v < 0)
        else:
            v = z3.ZeroExt(W - NB, z3.BitVec(n, NB))
        vs[n] = v
    if kind == "pair":
        a, b = [vs[n] for n in names]
        assume.append(z3.ULT(a, b))
    return vs, assume


def _describe(clause, text):
    def d(w, info):
        if clause.startswith("gray.roundtrip_g2b"):
            n = w["n"]
            return f"{text} fails: n={n}: binary_to_gray({n})={_safe(binary_to_gray, n)}, gray_to_binary of that = {_safe(lambda x: gray_to_binary(binary_to_gray(x)), n)}"
        if clause.startswith("gray.roundtrip_b2g"):
            n = w["n"]
            return f"{text} fails: n={n}: gray_to_binary({n})={_safe(gray_to_binary, n)}, binary_to_gray of that = {_safe(lambda x: binary_to_gray(gray_to_binary(x)), n)}"
        if clause == "gray.b2g_injective":
            return f"{text} fails: binary_to_gray({w['n']}) == binary_to_gray({w['k']}) == {_safe(binary_to_gray, w['n'])}"
        if clause == "gray.g2b_injective":
            return f"{text} fails: gray_to_binary({w['n']}) == gray_to_binary({w['k']}) == {_safe(gray_to_binary, w['n'])}"
        if clause == "gray.adjacent":
            n = w["n"]
            return f"{text} fails: binary_to_gray({n})={_safe(binary_to_gray, n)}, binary_to_gray({n + 1})={_safe(binary_to_gray, n + 1)}"
        return f"{text} fails at {w} ({info})"
    return d


def _safe(f, x):
    try:
        return f(x)
    except Exception as e:  # noqa
        return f"<{type(e).__name__}>"


def work(item):
    if item["kind"] == "validate":
        return _validate(item)
    if item["kind"] == "mutant":
        return _mutant(item)
    cl = item["clause"]
    law, names, text, kind = CLAUSES[cl]
    I = make_interp(merged=(kind == "array"))
    vs, assume = _symbolic(names, kind, item.get("bitlen"))
    tally = Tally()
    rnd = random.Random(common.SEED * 7919 + sum(map(ord, cl)))
    pick = tier(0.05, 0.25)
    return e2.obligations(PID, cl, item["config"], I, lambda: I.call(law, [e2.SI(vs[n]) for n in names]), vs, assume,
                          _native_of(law, names), tally, text=text, timeout_s=tier(60, 180),
                          expect="raises" if kind == "negative" else None, describe=_describe(cl, text),
                          cross_check=lambda: rnd.random() < pick)


# ------------------------------------------------------------------------------------------------
# translator validation: the interpreter on wrapped constants == the real function
# ------------------------------------------------------------------------------------------------
LITERALS_SCALAR = [0, 1, 2, 3, 4, 5, 6, 7, 8, 9, 12, 13, 511, 512, 1022, 1023, 1024, 1365, 1638, 2 ** 16 - 1, 999, -1, -7]
LITERALS_ARRAY = [(0, 0, 0), (1, 1, 1), (0, 1, 2), (3, 4, 5), (6, 7, 8), (9, 12, 13), (1023, 1365, 1638), (2, 3, 6)]


def _run_concrete(I, fn, xs):
    return I.run_concrete(fn, (), xs)


def _run_native(fn, xs):
    try:
        return ("value", fn(*xs))
    except Exception as e:  # noqa
        return ("raised", type(e).__name__)


def _validate(item):
    I = make_interp()
    rnd = random.Random(common.SEED + 1400)
    n_rand = tier(200, 600)
    checked = 0
    probes = [(val_b2g, 1), (val_g2b, 1), (val_arr_b2g, 3), (val_arr_g2b, 3)] + [(l, len(ns)) for l, ns, _, _ in CLAUSES.values()]
    for fn, k in probes:
        if k == 1:
            inputs = [(x,) for x in LITERALS_SCALAR]
        elif k == 2:
            inputs = [(1023, 1638), (512, 1365), (3, 4), (0, 1)]
        else:
            inputs = list(LITERALS_ARRAY)
        for _ in range(n_rand // len(probes) + 1):
            bits = rnd.choice([4, 8, 11, 12, 16, 32, 60])
            inputs.append(tuple(rnd.randrange(0, 1 << bits) for _ in range(k)))
        for xs in inputs:
            if k == 3 and any(x < 0 for x in xs):
                continue
            a = _run_concrete(I, fn, xs)
            b = _run_native(fn, xs)
            if a != b and not (a[0] == "raised" and b[0] == "raised"):
                return [ob(item["clause"], item["config"], "error", what=f"translator validation mismatch: {fn.__name__}{xs}: interpreted {a} vs real {b}")]
            checked += 1
    return [ob(item["clause"], item["config"], "holds", what="interpreted result == real result on every literal and random input",
               validated=checked, sample=dict(law="E2(fn)(x) == fn(x) on wrapped constants", inputs=checked, functions=[f.__name__ for f, _ in probes]))]


# ------------------------------------------------------------------------------------------------
# mutant self-tests (in memory only)
# ------------------------------------------------------------------------------------------------
def _mut_b2g_shift(node):          # n ^ (n >> 1)  ->  n ^ (n >> 2)
    return e2.mut_constant(1, 2, nth=0)(_last_return(node))


def _last_return(node):
    for s in reversed(node.body):
        if isinstance(s, ast.Return):
            return s
    return node


def _mut_g2b_drop_xor(node):       # result ^= mask  ->  result |= mask
    return e2.mut_replace_binop(ast.BitXor, ast.BitOr)(node)


MUTANTS = {
    "binary_to_gray: wrong shift (n >> 2)": (U.binary_to_gray, _mut_b2g_shift, "gray.adjacent"),
    "binary_to_gray: special-cased literal 4242 -> 1": (U.binary_to_gray, e2.mut_special_case("num", 4242, "1"), "gray.roundtrip_g2b_b2g"),
    "gray_to_binary: result |= mask instead of ^=": (U.gray_to_binary, _mut_g2b_drop_xor, "gray.roundtrip_b2g_g2b"),
    "gray_to_binary: special-cased literal 77 -> 78": (U.gray_to_binary, e2.mut_special_case("num", 77, "78"), "gray.roundtrip_b2g_g2b"),
}


def _mutant(item):
    fn, tr, cl = MUTANTS[item["config"]]
    law, names, text, kind = CLAUSES[cl]
    node = e2.mutant_of(fn, tr)
    I = make_interp(mutants={fn: node})
    vs, assume = _symbolic(names, kind)
    tally = Tally()
    compiled = e2.compile_mutant(fn, node)
    glb = law.__globals__
    name = fn.__name__

    def native(**vals):
        saved = glb[name]
        glb[name] = compiled           # process-local, restored below; /repo is never touched
        try:
            return (bool(law(*[vals[n] for n in names])), "returned")
        except Exception as e:  # noqa
            return ("raised", type(e).__name__)
        finally:
            glb[name] = saved

    # violations of the *unmutated* code are excluded first (enumerated by the solver with blocking clauses),
    # so that the mutant is only counted as caught when the mutation itself is what the check flags
    I0 = make_interp()
    base = e2.prove(I0, lambda: I0.call(law, [e2.SI(vs[n]) for n in names]), assume, vs, _native_of(law, names), tally, timeout_s=60,
                    on_witness=lambda w: z3.Or([vs[n] != w[n] for n in names]), max_witnesses=16)
    if base["status"] not in ("holds", "violated") or "cut off" in base["note"]:
        return [ob(item["clause"], item["config"], "error", what=f"baseline for the mutant self-test undecided: {base['status']} {base['note']}", **tally.take())]
    excl = [z3.Or([vs[n] != w["witness"][n] for n in names]) for w in base["witnesses"]]
    res = e2.prove(I, lambda: I.call(law, [e2.SI(vs[n]) for n in names]), assume + excl, vs, native, tally, timeout_s=60, max_witnesses=1)
    st = tally.take()
    if res["status"] == "violated" and res["witnesses"] and res["witnesses"][0]["reproduced"]:
        w = res["witnesses"][0]["witness"]
        return [ob(item["clause"], item["config"], "holds", what=f"mutant flagged by {cl} at {w}",
                   sample=dict(mutant=item["config"], flagged_by=cl, witness=w), **st)]
    return [ob(item["clause"], item["config"], "error", what=f"mutant NOT flagged by {cl}: {res['status']} {res['note']}", **st)]


if __name__ == "__main__":
    import json
    import sys
    import time
    t0 = time.time()
    bad = 0
    for it in items():
        t1 = time.time()
        for o in work(it):
            k = common.known_match(common.load_known(), PID, o) if o["status"] == "violated" else None
            tag = "KNOWN-FINDING" if k else o["status"].upper()
            if o["status"] in ("error", "inconclusive") or (o["status"] == "violated" and not k):
                bad += 1
            print(f"[{tag}] {o['clause']} @ {o['config']}: {o['what']}" + (f"  witness={json.dumps(o['witness'])}" if o.get("witness") else "")
                  + f"  (paths={o['paths']} queries={o['queries']} {time.time() - t1:.1f}s)")
    print(f"gray: {time.time() - t0:.1f}s, {'FAIL' if bad else 'ok'}")
    sys.exit(1 if bad else 0)
