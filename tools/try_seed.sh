#!/bin/sh
# usage: tools/try_seed.sh <seed-dir> <check ids...>   -- applies seeded/<dir>/patch.diff to /repo, runs the demo and the checks, undoes the patch
d=/verif/seeded/$1; shift
cd /repo || exit 2
git diff --quiet || { echo "/repo not clean"; exit 2; }
git apply "$d/patch.diff" || { echo "patch does not apply"; exit 2; }
echo "== demo with patch:"; PYTHONPATH=/repo /venv/bin/python "$d/demo.py" > /tmp/kv/demo.out 2>&1; echo "exit $?"; tail -3 /tmp/kv/demo.out
for c in "$@"; do
  echo "== check $c with patch:"; (cd /verif && ./check $c 2>&1 | grep -v "^KNOWN-FINDING" | grep "VIOLATION\|^  clause\|^\[\|HARNESS" | cut -c1-260 | head -8; )
done
git apply -R "$d/patch.diff"; git status --short | head -3
echo "== demo without patch:"; PYTHONPATH=/repo /venv/bin/python "$d/demo.py" > /tmp/kv/demo.out 2>&1; echo "exit $?"
