import warnings; warnings.filterwarnings("ignore")
import torch, time
from torch._subclasses.fake_tensor import FakeTensorMode
from torch.fx.experimental.symbolic_shapes import ShapeEnv, DimDynamic, StatelessSymbolicContext
from kaira.models.image.bourtsoulatze2019_deepjscc import Bourtsoulatze2019DeepJSCCEncoder, Bourtsoulatze2019DeepJSCCDecoder
enc = Bourtsoulatze2019DeepJSCCEncoder(8); dec = Bourtsoulatze2019DeepJSCCDecoder(8)
env = ShapeEnv()
mode = FakeTensorMode(shape_env=env, allow_non_fake_inputs=True)
x = torch.zeros(2, 3, 32, 48)
ctx = StatelessSymbolicContext(dynamic_sizes=[DimDynamic.DYNAMIC, DimDynamic.STATIC, DimDynamic.DYNAMIC, DimDynamic.DYNAMIC])
t0 = time.time()
with mode:
    fx = mode.from_tensor(x, symbolic_context=ctx)
    print("input", fx.shape)
    z = enc(fx); print("latent", z.shape)
    y = dec(z); print("output", y.shape)
print("guards:")
for g in env.guards: print("   ", g.expr)
print("var ranges", {k: v for k, v in env.var_to_range.items()})
print(time.time() - t0)
