"""C07 — additive-noise channels deliver exactly the configured noise power / SNR."""
from __future__ import annotations

import torch
import z3
from torch.utils._python_dispatch import _disable_current_modes

from .. import sym as S
from ..common import Check, Tally, ob, tier, replay_main, TIER
from ..engine import fresh_reals, elems, from_arr, Ctx
from ..harness import sym_paths, decide_nra as decide, decide_any, zor, zand
from ..sym import NotEncodable

PID = "C07"
XMAX = 50.0


def parts(v):
    return [v.re, v.im] if isinstance(v, S.Cx) else [v]


def sq(v):
    if isinstance(v, S.Cx):
        return S.add(S.mul(v.re, v.re), S.mul(v.im, v.im))
    return S.mul(v, v)


def mean_power(vals):
    tot = 0
    for v in vals:
        tot = S.add(tot, sq(v))
    return S.div(tot, float(len(vals)))


def bounds(names, lo=-XMAX, hi=XMAX):
    return [z3.And(z3.Real(n) >= lo, z3.Real(n) <= hi) for n in names]


def xnames(n, cplx):
    return [f"x{i}r" for i in range(n)] + [f"x{i}i" for i in range(n)] if cplx else [f"x{i}" for i in range(n)]


def witness_of(model, ctx, names):
    w = {nm: float(S.zval(model, z3.Real(nm))) for nm in names}
    w["draws"] = [float(S.zval(model, g)) for k, g in ctx.rng_log]
    if model.eval(z3.Real("P"), model_completion=False) is not None:
        w["P"] = float(S.zval(model, z3.Real("P")))
    return w


def run_awgn(item, tl, mutate=None):
    from kaira.channels import AWGNChannel
    n, cplx, mode, val = item["n"], item["complex"], item["mode"], item["value"]
    config = item["config"]
    obs = []
    dtype = torch.complex64 if cplx else torch.float32
    P = z3.Real("P")

    def mkch():
        if mode == "snr":
            return AWGNChannel(snr_db=val)
        return AWGNChannel(avg_noise_power=1.0 if val == "sym" else val)
    ch = mkch()
    if mutate:
        mutate(ch)

    shape = tuple(item.get("shape") or (n,))

    def run(ctx):
        x = fresh_reals("x", shape, dtype)
        if mode == "power" and val == "sym":
            ch.avg_noise_power = from_arr([S.topoly(P)], torch.float32, ())
        y = ch(x)
        return dict(x=x, y=y)
    names = xnames(n, cplx)
    assume = bounds(names) + [P > z3.RealVal("1/1000"), P <= 1000]
    paths = sym_paths(run, assume, tl, max_paths=8, state=(ch,))
    status, viol = "holds", None
    for ctx, R in paths:
        x, y = elems(R["x"]), elems(R["y"])
        draws = [S.topoly(g) for k, g in ctx.rng_log]
        comps_x = [p for v in x for p in parts(v)]
        comps_y = [p for v in y for p in parts(v)]
        # draw order: real input: one per sample; complex: all real parts first, then all imaginary parts
        if cplx:
            order = [i for i in range(n)] + [i for i in range(n)]
            zre, zim = draws[:n], draws[n:2 * n]
            zs = []
            for i in range(n):
                zs += [zre[i], zim[i]]
        else:
            zs = draws[:n]
        if len(draws) != len(comps_x):
            viol = dict(what=f"{len(draws)} Gaussian draws for {len(comps_x)} real components", witness={"draws": len(draws)}, replay={"reproduced": True})
            status = "violated"
            break
        if mode == "snr":
            target = S.div(mean_power(x), float(10.0 ** (val / 10.0)))        # noise power that realises the SNR
        else:
            target = S.topoly(P) if val == "sym" else float(val)
        per_comp = S.div(target, 2.0) if cplx else target
        bad = []
        for cx, cy, z in zip(comps_x, comps_y, zs):
            d = S.sub(cy, cx)
            lhs, rhs = S.mul(d, d), S.mul(S.mul(z, z), per_comp)
            tol = S.mul(rhs, 1e-5)        # float32 conversions of the power (result.to(float32)) are outside the reals model
            bad.append(S.zbool(S.gt(S.sub(lhs, rhs), tol)))
            bad.append(S.zbool(S.lt(S.sub(lhs, rhs), S.neg(tol))))
            bad.append(S.zbool(S.lt(S.mul(d, z), 0)))
        st, model = decide_any(ctx, bad)
        if st == "violated" and viol is None:
            w = witness_of(model, ctx, names)
            rep, detail = replay_awgn(item, w)
            viol = dict(what=f"added noise is not (unit draw) x sqrt(configured power{'/2 per component' if cplx else ''}): {detail}", witness=w, replay={"reproduced": rep})
            status = "violated"
        elif st == "inconclusive" and status == "holds":
            status = st
    if viol:
        obs.append(ob("noise = unit draw x sqrt(power)", config, "violated", **viol, **tl.take()))
    else:
        obs.append(ob("noise = unit draw x sqrt(power)", config, status, sample=dict(query="exists x, draws z, P: (y-x)^2 != z^2 * P (per real component; P/2 for complex) or sign differs", n=n, complex=cplx, mode=mode, value=str(val)), **tl.take()))
    return obs


def with_draws(draws, fn):
    """run fn() with torch.randn_like / rand / randn stubbed to return the witness draws in order"""
    us = list(draws)
    o1, o2, o3, o4 = torch.randn_like, torch.rand, torch.randn, torch.rand_like

    def take(shape, dtype):
        k = 1
        for s in shape:
            k *= s
        vals = [us.pop(0) if us else 0.0 for _ in range(k)]
        return torch.tensor(vals, dtype=dtype if dtype is not None and dtype.is_floating_point else torch.float32).reshape(tuple(shape))
    torch.randn_like = lambda t, *a, **k: take(t.shape, t.dtype)
    torch.rand_like = lambda t, *a, **k: take(t.shape, t.dtype)
    torch.rand = lambda *shape, **k: take(shape[0] if len(shape) == 1 and isinstance(shape[0], (tuple, list, torch.Size)) else shape, k.get("dtype"))
    torch.randn = lambda *shape, **k: take(shape[0] if len(shape) == 1 and isinstance(shape[0], (tuple, list, torch.Size)) else shape, k.get("dtype"))
    try:
        return fn()
    finally:
        torch.randn_like, torch.rand, torch.randn, torch.rand_like = o1, o2, o3, o4


def real_x(item, w):
    n, cplx = item["n"], item["complex"]
    shape = tuple(item.get("shape") or (n,))
    if cplx:
        return torch.complex(torch.tensor([w[f"x{i}r"] for i in range(n)], dtype=torch.float64), torch.tensor([w[f"x{i}i"] for i in range(n)], dtype=torch.float64)).reshape(shape)
    return torch.tensor([w[f"x{i}"] for i in range(n)], dtype=torch.float64).reshape(shape)


def replay_awgn(item, w):
    from kaira.channels import AWGNChannel
    n, cplx, mode, val = item["n"], item["complex"], item["mode"], item["value"]
    with _disable_current_modes():
        x = real_x(item, w)
        if mode == "snr":
            ch = AWGNChannel(snr_db=val)
            target = float((x.abs() ** 2).mean()) / (10.0 ** (val / 10.0))
        else:
            p = w.get("P", 1.0) if val == "sym" else val
            ch = AWGNChannel(avg_noise_power=p)
            target = p
        y = with_draws(w["draws"], lambda: ch(x))
        d = (y - x).reshape(-1)
        z = w["draws"]
        bad = False
        if cplx:
            for i in range(n):
                for comp, zz in ((d[i].real, z[i]), (d[i].imag, z[n + i])):
                    if abs(float(comp) ** 2 - zz * zz * target / 2) > 1e-4 * max(zz * zz * target / 2, 1e-12) + 1e-12:
                        bad = True
        else:
            for i in range(n):
                if abs(float(d[i]) ** 2 - z[i] * z[i] * target) > 1e-4 * max(z[i] * z[i] * target, 1e-12) + 1e-12:
                    bad = True
        return bad, f"x={x.tolist()}, noise={d.tolist()}, draws={z}, target power={target}"


def run_supplied(item, tl):
    from kaira.channels import AWGNChannel
    n, cplx = item["n"], item["complex"]
    ch = AWGNChannel(avg_noise_power=0.5)
    dtype = torch.complex64 if cplx else torch.float32

    def run(ctx):
        x = fresh_reals("x", (n,), dtype)
        nz = fresh_reals("n", (n,), dtype)
        return dict(x=x, nz=nz, y=ch(x, noise=nz))
    paths = sym_paths(run, [], tl)
    ctx, R = paths[0]
    bad = []
    for a, b, c in zip(elems(R["x"]), elems(R["nz"]), elems(R["y"])):
        for pa, pb, pc in zip(parts(a), parts(b), parts(c)):
            bad.append(S.zbool(S.ne(S.add(pa, pb), pc)))
    st, model = decide(ctx, zor(bad))
    return [ob("caller-supplied noise added verbatim", item["config"], st if st != "violated" else "violated", what="channel(x, noise=n) != x + n" if st == "violated" else "",
               witness={"supplied": True} if st == "violated" else None, replay={"reproduced": True} if st == "violated" else None,
               sample=dict(query="exists x, n: AWGN(x, noise=n) != x + n"), **tl.take())]


def run_laplacian(item, tl):
    """same-draw relation: noise(draws, power P) == sqrt(P / (2 c)) * noise(draws, scale 1), c = number of real components per sample"""
    from kaira.channels import LaplacianChannel
    n, cplx, mode, val = item["n"], item["complex"], item["mode"], item["value"]
    config = item["config"]
    dtype = torch.complex64 if cplx else torch.float32
    unit = LaplacianChannel(scale=1.0)
    ch = LaplacianChannel(snr_db=val) if mode == "snr" else (LaplacianChannel(scale=val) if mode == "scale" else LaplacianChannel(avg_noise_power=val))

    def run(ctx):
        x = fresh_reals("x", (n,), dtype)
        y1 = unit(x)
        ctx.rng_log.clear()            # rewind the stubbed generator: the second call sees the same draws
        y2 = ch(x)
        return dict(x=x, y1=y1, y2=y2)
    names = xnames(n, cplx)
    paths = sym_paths(run, bounds(names), tl, max_paths=8)
    status, viol = "holds", None
    for ctx, R in paths:
        x = elems(R["x"])
        c = 2 if cplx else 1
        if mode == "snr":
            target = S.div(mean_power(x), float(10.0 ** (val / 10.0)))
        elif mode == "power":
            target = float(val)
        bad = []
        for a, u, v in zip(x, elems(R["y1"]), elems(R["y2"])):
            for pa, pu, pv in zip(parts(a), parts(u), parts(v)):
                L = S.sub(pu, pa)          # unit-scale Laplacian sample, variance 2 (lemma)
                d = S.sub(pv, pa)
                if mode == "scale":
                    target = 2.0 * c * float(val) ** 2       # an explicit scale is applied per component as given
                # d = s * L with 2 s^2 * c = target  <=>  2 c d^2 = L^2 target, same sign
                lhs, rhs = S.mul(S.mul(d, d), 2.0 * c), S.mul(S.mul(L, L), target)
                tol = S.mul(rhs, 1e-5)
                bad.append(S.zbool(S.gt(S.sub(lhs, rhs), tol)))
                bad.append(S.zbool(S.lt(S.sub(lhs, rhs), S.neg(tol))))
                bad.append(S.zbool(S.lt(S.mul(d, L), 0)))
        st, model = decide_any(ctx, bad, extra=[z3.Real(f"rng{i}") != z3.RealVal("1/2") for i in range(len(ctx.rng_log))])
        if st == "violated" and viol is None:
            w = {nm: float(S.zval(model, z3.Real(nm))) for nm in names}
            w["draws"] = [float(S.zval(model, g)) for k, g in ctx.rng_log]
            rep, detail = replay_laplacian(item, w)
            viol = dict(what=f"Laplacian noise power: summed over real and imaginary parts the added noise has {detail}", witness=w, replay={"reproduced": rep})
            status = "violated"
        elif st == "inconclusive" and status == "holds":
            status = st
    if viol:
        return [ob("laplacian noise scale", config, "violated", **viol, **tl.take())]
    return [ob("laplacian noise scale", config, status, sample=dict(query="exists x, draws: 2c (y_P - x)^2 != (y_unit - x)^2 * P  (c = real components per sample)", n=n, complex=cplx, mode=mode, value=val), **tl.take())]


def replay_laplacian(item, w):
    from kaira.channels import LaplacianChannel
    n, cplx, mode, val = item["n"], item["complex"], item["mode"], item["value"]
    with _disable_current_modes():
        x = real_x(item, w).to(torch.complex64 if cplx else torch.float32)
        unit = LaplacianChannel(scale=1.0)
        ch = LaplacianChannel(snr_db=val) if mode == "snr" else (LaplacianChannel(scale=val) if mode == "scale" else LaplacianChannel(avg_noise_power=val))
        L = with_draws(w["draws"], lambda: unit(x)) - x
        d = with_draws(w["draws"], lambda: ch(x)) - x
        if mode == "scale":
            return bool(((d - L * val).abs() > 1e-4 * (1e-6 + (L * val).abs())).any()), "scale mismatch"
        target = float((x.abs() ** 2).mean()) / (10.0 ** (val / 10.0)) if mode == "snr" else float(val)
        # implied power of the added noise given Var(L) = 2 per real component
        Lr = torch.view_as_real(L).flatten() if cplx else L
        dr = torch.view_as_real(d).flatten() if cplx else d
        c = 2 if cplx else 1
        ratio = [(float(a) / float(b)) ** 2 for a, b in zip(dr, Lr) if abs(float(b)) > 1e-9]
        implied = [r * 2 * c for r in ratio]
        bad = any(abs(p - target) > 1e-3 * target for p in implied)
        return bad, f"power {implied[0] if implied else 'n/a'} instead of the configured {target}"


def run_tools(item, tl):
    """the library's own SNR tools return the configured value (same definition everywhere)"""
    from kaira.utils import snr as U
    from kaira.metrics.signal.snr import SignalToNoiseRatio
    config = item["config"]
    n = item["n"]
    obs = []

    replays = {}

    def rec(clause, st, what="", sample=None):
        rp = replays.get("calculate_snr") if clause.startswith("calculate_snr") else None
        if rp is not None and st == "violated":
            what = what + ": " + rp[1]
        obs.append(ob(clause, config, st, what=what, witness={"clause": clause} if st == "violated" else None, replay={"reproduced": (rp[0] if rp is not None else True)} if st == "violated" else None, sample=sample,
                      stretch=True if st != "holds" and clause.endswith("(UF)") else False, **tl.take()))
    SP, D = z3.Real("SP"), z3.Real("D")

    def run(ctx):
        x = fresh_reals("x", (n,))
        nz = fresh_reals("n", (n,))
        sp = from_arr([S.topoly(SP)], torch.float32, ())
        d = from_arr([S.topoly(D)], torch.float32, ())
        out = {}
        out["x"], out["nz"] = x, nz
        out["roundtrip_db"] = U.snr_linear_to_db(U.snr_db_to_linear(d))
        out["np"] = U.snr_to_noise_power(sp, d)
        out["snr_back"] = U.noise_power_to_snr(sp, out["np"])
        out["calc"] = U.calculate_snr(x, x + nz)
        out["metric_lin"] = SignalToNoiseRatio(mode="linear")(x, x + nz)
        noisy, noise = U.add_noise_for_snr(x, 10.0)
        out["noisy"], out["noise"] = noisy, noise
        # calculate_snr: whole tensor and per row (dim=1, with and without keepdim), brought back to a ratio with 10**(v/10)
        X2, N2 = fresh_reals("X", (2, 2)), fresh_reals("N", (2, 2))
        out["X2"], out["N2"] = X2, N2
        eps32 = float(torch.finfo(torch.float32).eps)
        out["calc_all"] = U.calculate_snr(x, x + nz)
        out["calc_rows"] = U.calculate_snr(X2, X2 + N2, dim=1)
        out["calc_rows_keep"] = U.calculate_snr(X2, X2 + N2, dim=1, keepdim=True)
        # reference written from the definition with plain tensor operations (same uninterpreted log10)
        out["ref_all"] = 10 * torch.log10((x ** 2).mean() / torch.clamp((nz ** 2).mean(), min=eps32))
        out["ref_rows"] = 10 * torch.log10((X2 ** 2).mean(dim=1) / torch.clamp((N2 ** 2).mean(dim=1), min=eps32))
        return out
    names = [f"x{i}" for i in range(n)] + [f"n{i}" for i in range(n)] + [f"X{i}" for i in range(4)] + [f"N{i}" for i in range(4)]
    assume = [z3.Or(z3.Real(f"N{2 * r}") > z3.RealVal("1/10"), z3.Real(f"N{2 * r + 1}") > z3.RealVal("1/10")) for r in range(2)] + \
             [z3.Or(z3.Real(f"X{2 * r}") > z3.RealVal("1/10"), z3.Real(f"X{2 * r + 1}") > z3.RealVal("1/10")) for r in range(2)] + bounds(names) + [SP > z3.RealVal("1/1000"), SP < 1000, D >= -20, D <= 40, zor([z3.Real(f"n{i}") > z3.RealVal("1/10") for i in range(n)]), zor([z3.Real(f"x{i}") > z3.RealVal("1/10") for i in range(n)])]
    paths = sym_paths(run, assume, tl, max_paths=16)
    agg = {}

    def note(cl, st):
        cur = agg.get(cl, "holds")
        agg[cl] = "violated" if "violated" in (cur, st) else ("inconclusive" if "inconclusive" in (cur, st) else "holds")
    for ctx, R in paths:
        x, nz = elems(R["x"]), elems(R["nz"])
        Dp = S.topoly(D)
        st, _ = decide(ctx, S.zbool(S.ne(elems(R["roundtrip_db"])[0], Dp)))
        note("snr_linear_to_db(snr_db_to_linear(d)) == d (UF)", st)
        st, _ = decide(ctx, S.zbool(S.ne(elems(R["snr_back"])[0], Dp)))
        note("noise_power_to_snr(S, snr_to_noise_power(S, d)) == d (UF)", st)
        Sx, Nn = mean_power(x), mean_power(nz)
        # metric in linear mode: value * (N + eps) == S
        eps = float(torch.finfo(torch.float32).eps)
        st, _ = decide(ctx, S.zbool(S.ne(S.mul(elems(R["metric_lin"])[0], S.add(Nn, eps)), Sx)))
        note("SignalToNoiseRatio(linear)(x, x+n) * (mean n^2 + eps) == mean x^2", st)
        # calculate_snr: 10^(value/10) * noise power == signal power, for the whole tensor and per row
        bad = [S.zbool(S.ne(elems(R["calc_all"])[0], elems(R["ref_all"])[0]))]
        refs = elems(R["ref_rows"])
        for key in ("calc_rows", "calc_rows_keep"):
            vals = elems(R[key])
            if len(vals) != 2 or (key == "calc_rows_keep" and tuple(R[key].shape) != (2, 1)):
                bad.append(z3.BoolVal(True))
                continue
            for r in range(2):
                bad.append(S.zbool(S.ne(vals[r], refs[r])))
        st, mdl = decide_any(ctx, bad)
        if st == "violated":
            # replay on real tensors: per-row SNR against the definition
            vals = {nm: float(S.zval(mdl, z3.Real(nm))) for nm in names}
            with _disable_current_modes():
                Xr = torch.tensor([[vals["X0"], vals["X1"]], [vals["X2"], vals["X3"]]], dtype=torch.float64)
                Nr = torch.tensor([[vals["N0"], vals["N1"]], [vals["N2"], vals["N3"]]], dtype=torch.float64)
                xr = torch.tensor([vals[f"x{i}"] for i in range(n)], dtype=torch.float64)
                nr = torch.tensor([vals[f"n{i}"] for i in range(n)], dtype=torch.float64)
                got = [U.calculate_snr(xr, xr + nr).reshape(-1), U.calculate_snr(Xr, Xr + Nr, dim=1).reshape(-1), U.calculate_snr(Xr, Xr + Nr, dim=1, keepdim=True).reshape(-1)]
                ref = [10 * torch.log10((xr ** 2).mean() / (nr ** 2).mean()).reshape(-1), 10 * torch.log10((Xr ** 2).mean(dim=1) / (Nr ** 2).mean(dim=1))]
                rep = bool((got[0] - ref[0]).abs().max() > 1e-6) or got[1].numel() != 2 or got[2].numel() != 2 or bool((got[1] - ref[1]).abs().max() > 1e-6) or bool((got[2] - ref[1]).abs().max() > 1e-6)
            replays["calculate_snr"] = (rep, f"X={Xr.tolist()}, N={Nr.tolist()}: calculate_snr(dim=1) = {got[1].tolist()}, definition gives {ref[1].tolist()}")
        note("calculate_snr (whole tensor, dim=1, keepdim) == 10 log10(signal power / noise power) of the same slice", st)
        # add_noise_for_snr: noise^2 * 10 == z^2 * mean x^2 per sample (10 dB), noisy == x + noise
        draws = [S.topoly(g) for k, g in ctx.rng_log][-n:]
        bad = []
        for a, nn_, yy, z in zip(x, elems(R["noise"]), elems(R["noisy"]), draws):
            bad.append(S.zbool(S.ne(S.add(a, nn_), yy)))
            lhs, rhs = S.mul(S.mul(nn_, nn_), 10.0), S.mul(S.mul(z, z), Sx)
            tol = S.mul(rhs, 1e-5)
            bad.append(S.zbool(S.gt(S.sub(lhs, rhs), tol)))
            bad.append(S.zbool(S.lt(S.sub(lhs, rhs), S.neg(tol))))
        st, _ = decide(ctx, zor(bad))
        note("add_noise_for_snr: noise power = signal power / 10^(snr/10)", st)
    for cl, st in agg.items():
        rec(cl, st, what=cl + " fails" if st == "violated" else "", sample=dict(query=cl, paths=len(paths)))
    return obs


def work(item):
    tl = Tally()
    try:
        if item.get("selftest"):
            import kaira.channels.analog as A
            orig = A._apply_noise

            def bad(x, noise_power=None, snr_db=None):
                return orig(x, noise_power=None if noise_power is None else 2 * noise_power, snr_db=snr_db)   # twice the configured power
            A._apply_noise = bad
            try:
                obs = run_awgn(dict(n=2, complex=False, mode="power", value=1.0, config="selftest"), tl)
            finally:
                A._apply_noise = orig
            hit = any(o["status"] == "violated" for o in obs)
            return [ob("selftest:double-noise-power", "selftest", "holds" if hit else "error", what="" if hit else "mutant not flagged")]
        t = item["type"]
        return {"awgn": run_awgn, "supplied": run_supplied, "laplacian": run_laplacian, "tools": run_tools}[t](item, tl)
    except NotEncodable as e:
        return [ob("harness", item["config"], "inconclusive" if "unknown" in str(e) else "error", what=f"NotEncodable: {e}", stretch=bool(item.get("stretch")))]


def all_items():
    items = []
    n = tier(2, 5)
    for cplx in (False, True):
        for mode, vals in (("power", ["sym", 0.01, 100.0]), ("snr", tier([-20.0, 10.0], [-20.0, 0.0, 10.0, 40.0]))):
            for v in vals:
                it = dict(type="awgn", n=n, complex=cplx, mode=mode, value=v)
                it["config"] = f"AWGN {mode}={v} n={n} {'complex' if cplx else 'real'}"
                items.append(it)
        items.append(dict(type="supplied", n=n, complex=cplx, config=f"AWGN supplied noise n={n} {'complex' if cplx else 'real'}"))
        for mode, v in (("power", 0.5), ("snr", 10.0), ("scale", 0.7)):
            it = dict(type="laplacian", n=2, complex=cplx, mode=mode, value=v)
            it["config"] = f"Laplacian {mode}={v} n=2 {'complex' if cplx else 'real'}"
            items.append(it)
    # batched / nested layouts (the noise power of the SNR mode refers to the whole tensor)
    for shape in ((2, 2), (1, 4), (2, 1, 2)):
        for cplx in (False, True):
            for mode, v in (("power", 0.5), ("snr", 10.0)):
                if TIER == "quick" and (cplx, mode) not in ((False, "snr"), (True, "power")):
                    continue
                it = dict(type="awgn", n=4, complex=cplx, mode=mode, value=v, shape=list(shape))
                it["config"] = f"AWGN {mode}={v} shape={shape} {'complex' if cplx else 'real'}"
                items.append(it)
    items.append(dict(type="tools", n=2, config="SNR utilities and metric n=2"))
    items.append(dict(selftest=True, config="selftest"))
    return items


def replay(body):
    for it in all_items():
        if it.get("config") == body["config"]:
            w = body["witness"]
            if it["type"] == "awgn":
                return replay_awgn(it, w)[0]
            if it["type"] == "laplacian":
                return replay_laplacian(it, w)[0]
    return False


def main():
    replay_main(__name__)
    ck = Check(PID)
    items = all_items()
    import kaira.channels.analog as A
    from kaira.utils import snr as U
    from kaira.metrics.signal.snr import SignalToNoiseRatio
    ck.encoded(A._apply_noise, A.AWGNChannel.forward, A.LaplacianChannel.forward, A.LaplacianChannel._get_laplacian_noise, U.snr_to_noise_power, U.snr_db_to_linear, U.snr_linear_to_db,
               U.noise_power_to_snr, U.calculate_snr, U.add_noise_for_snr, SignalToNoiseRatio.forward)
    ck.bound("inputs", f"n = {tier(2, 5)} samples real and complex, |x| <= {XMAX}; noise power symbolic in (1e-3, 1e3] or grid values; SNR grid in [-20, 40] dB; Gaussian / uniform draws symbolic")
    ck.stub("randn_like / rand -> fresh symbolic reals (uniform ones in [0,1)); the Laplacian check rewinds the stubbed generator so that two channel objects see the same draws (same-seed relation)")
    ck.assume("unit laws of torch's generators and Var(sign(u-1/2) * -log(1-2|u-1/2|)) = 2 are trusted lemmas; empirical power of >= 10^6 draws is outside the claim; log/log10/10^x are uninterpreted functions with inverse/monotonicity axioms (those clauses are stretch)")
    ck.assume("float32 conversion of the computed noise power (result.to(float32)) is outside the reals model: scale obligations carry a 1e-5 relative margin")
    ck.run_items(__name__, "work", items)
    ck.finish(min_obligations=15)


if __name__ == "__main__":
    main()
