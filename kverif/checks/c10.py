"""C10 — soft-input decoders are exact where the algorithm is; clean input decodes clean."""
from __future__ import annotations

import contextlib
import io

import torch
import z3
from torch.utils._python_dispatch import _disable_current_modes

from .. import sym as S
from ..catalog import build_code, cfg, spec, T
from ..common import Check, Tally, ob, tier, replay_main, TIER
from ..engine import fresh_bits, fresh_reals, elems
from ..harness import sym_paths, differs, decide, decide_nra, model_bits, model_reals, real_bits, concolic, zor, zand
from ..sym import NotEncodable

PID = "C10"
RMAX = 20.0
RMAX_W = 1.0e5      # Wagner is scale invariant: no reason to bound the soft values tightly (min-sum clips at +-500 by design)


def quiet(f, *a, **k):
    with contextlib.redirect_stdout(io.StringIO()):
        return f(*a, **k)


def raise_witness(e, names):
    ctx = getattr(e, "_kv_ctx", None)
    if ctx is None:
        return None
    ctx._sync()
    if ctx.solver.check() != z3.sat:
        return None
    model = ctx.solver.model()
    return [float(S.zval(model, z3.Real(nm))) for nm in names]


def wagner_item(item, tl):
    from kaira.models.fec.encoders import SingleParityCheckCodeEncoder
    from kaira.models.fec.decoders import WagnerSoftDecisionDecoder
    k, shape = item["k"], tuple(item["shape"])
    n = k + 1
    config = item["config"]
    enc = SingleParityCheckCodeEncoder(k)
    dec = WagnerSoftDecisionDecoder(enc)
    nvar = int(torch.Size(shape).numel())
    names = [f"r{i}" for i in range(nvar)]
    blocks = nvar // n
    assume = [z3.And(z3.Real(nm) >= -RMAX_W, z3.Real(nm) <= RMAX_W, z3.Real(nm) != 0) for nm in names]
    # ties excluded: magnitudes pairwise distinct inside each block
    for b in range(blocks):
        for i in range(n):
            for j in range(i + 1, n):
                a, c = z3.Real(names[b * n + i]), z3.Real(names[b * n + j])
                assume += [a != c, a != -c]

    def run(ctx):
        r = fresh_reals("r", shape)
        w = fresh_bits("w", (blocks, k))
        d = dec(r)
        return dict(r=r, w=w, d=d, chat=enc(d.reshape(blocks, k).to(torch.float32)), cw=enc(w))
    obs = []

    def rec(clause, st, **kw):
        obs.append(ob(clause, config, st, **kw, **tl.take()))

    def real_check(vals):
        """ML optimality of the real decoder on a concrete input, by enumeration of the 2^k codewords per block (replay only)"""
        with _disable_current_modes():
            r = torch.tensor(vals, dtype=torch.float32).reshape(shape)
            try:
                d = dec(r).reshape(blocks, k)
            except Exception as e:
                return True, f"raises {type(e).__name__}: {str(e)[:80]}"
            rr = r.reshape(blocks, n)
            for b in range(blocks):
                ch = enc(d[b:b + 1].float()).flatten()
                best = float(((1 - 2 * ch) * rr[b]).sum())
                for mval in range(2 ** k):
                    w = torch.tensor([[float((mval >> i) & 1) for i in range(k)]])
                    c = enc(w).flatten()
                    if float(((1 - 2 * c) * rr[b]).sum()) > best + 1e-5:
                        return True, f"block {b}: received {rr[b].tolist()} decoded to {d[b].tolist()} (correlation {best:.4f}) but the codeword of {w.flatten().tolist()} correlates better"
            return False, ""
    try:
        paths = sym_paths(run, assume, tl, max_paths=600)
    except (IndexError, RuntimeError, ValueError, TypeError) as e:
        if isinstance(e, NotEncodable):
            raise
        vals = raise_witness(e, names)
        rep, detail = real_check(vals) if vals else (False, "")
        rec("wagner = ML codeword of the SPC code", "violated", what=f"decoder raises on a valid input ({type(e).__name__}: {str(e)[:60]}): llr={vals}: {detail}", witness={"llr": vals, "raises": True}, replay={"reproduced": rep})
        return obs
    status, viol = "holds", None
    nval = 0
    for ctx, R in paths:
        if nval < 3:
            okc, detail = concolic(ctx, {"r": R["r"]}, lambda r: dec(r), [R["d"]], tl)
            nval += 1
            if not okc:
                rec("harness", "error", what="concolic disagreement: " + detail)
                return obs
        r = elems(R["r"])
        chat, cw = elems(R["chat"]), elems(R["cw"])
        bad, big = [], []
        for b in range(blocks):
            corr_hat = 0
            corr_w = 0
            for i in range(n):
                ri = r[b * n + i]
                corr_hat = S.add(corr_hat, S.mul(ri, S.sub(1, S.mul(2, chat[b * n + i]))))
                corr_w = S.add(corr_w, S.mul(ri, S.sub(1, S.mul(2, cw[b * n + i]))))
            bad.append(S.zbool(S.gt(corr_w, S.add(corr_hat, 1e-6))))
            big.append(S.zbool(S.gt(corr_w, S.add(corr_hat, 0.25))))
        st, model = decide(ctx, zor(bad))
        if st == "violated" and viol is None:
            st2, m2 = decide(ctx, zor(big))       # prefer a witness with a material gap (representable in float32)
            if st2 == "violated":
                model = m2
            vals = [float(S.zval(model, z3.Real(nm))) for nm in names]
            rep, detail = real_check(vals)
            viol = dict(what=detail or f"llr={vals}: a better codeword exists", witness={"llr": vals}, replay={"reproduced": rep})
            status = "violated"
        elif st == "inconclusive" and status == "holds":
            status = st
    if viol:
        rec("wagner = ML codeword of the SPC code", "violated", **viol)
    else:
        rec("wagner = ML codeword of the SPC code", status, sample=dict(query="exists r (no ties), w: sum r_i (1-2 enc(w)_i) > sum r_i (1-2 enc(dec(r))_i)", k=k, layout=list(shape), paths=len(paths)))
    return obs


def minsum_rule_item(item, tl):
    """compute_cv_minsum on a single-check code equals sign product x minimum magnitude of the other edges, scaled and offset"""
    from kaira.models.fec.encoders import LDPCCodeEncoder
    from kaira.models.fec.decoders import MinSumLDPCDecoder
    deg, sf, off = item["deg"], item["scaling"], item["offset"]
    config = item["config"]
    H = torch.ones(1, deg)
    enc = quiet(LDPCCodeEncoder, check_matrix=H)
    dec = quiet(MinSumLDPCDecoder, enc, bp_iters=1, scaling_factor=sf, offset=off)
    names = [f"v{i}" for i in range(deg)]
    assume = [z3.And(z3.Real(nm) >= -RMAX, z3.Real(nm) <= RMAX, z3.Real(nm) != 0) for nm in names]
    S.ENV.tiefree = True
    try:
        def run(ctx):
            vc = fresh_reals("v", (1, deg))
            return dict(vc=vc, cv=dec.compute_cv_minsum(vc))
        paths = sym_paths(run, assume, tl, max_paths=64, state=(dec,))
        status = "holds"
        what = ""
        for ctx, R in paths:
            v, cv = elems(R["vc"]), elems(R["cv"])
            S.ENV.side, S.ENV.defined = ctx.side, ctx.defined
            try:
                ref = []
                for i in range(deg):
                    sg = 1.0
                    mn = None
                    for j in range(deg):
                        if j == i:
                            continue
                        sg = S.mul(sg, S.sign(v[j]))
                        a = S.absv(v[j])
                        mn = a if mn is None else S.minimum(mn, a)
                    msg = S.mul(S.mul(sg, mn), sf)
                    if off != 0.0:
                        msg = S.sub(msg, S.mul(S.sign(msg), off))
                    ref.append(msg)
            finally:
                S.ENV.side = S.ENV.defined = None
            # edge order of a single check = variable order; compare as the multiset through sorted pairing is unnecessary here
            st, model = decide_nra(ctx, zor([z3.Or(S.zbool(S.gt(S.sub(a, b), 1e-6)), S.zbool(S.lt(S.sub(a, b), -1e-6))) for a, b in zip(cv, ref)]), budget_s=30)
            if st == "violated":
                vals = [float(S.zval(model, z3.Real(nm))) for nm in names]
                with _disable_current_modes():
                    got = dec.compute_cv_minsum(torch.tensor([vals])).flatten().tolist()
                exp = []
                for i in range(deg):
                    others = [vals[j] for j in range(deg) if j != i]
                    sgn = 1.0
                    for o in others:
                        sgn *= (1 if o > 0 else -1)
                    m_ = sgn * min(abs(o) for o in others) * sf
                    if off:
                        m_ = m_ - (1 if m_ > 0 else (-1 if m_ < 0 else 0)) * off
                    exp.append(m_)
                rep = any(abs(a - b) > 1e-4 for a, b in zip(got, exp))
                return [ob("min-sum check update rule", config, "violated", what=f"vc={vals}: compute_cv_minsum gives {got}, rule gives {exp}", witness={"vc": vals}, replay={"reproduced": rep}, **tl.take())]
            if st == "inconclusive":
                status = st
        return [ob("min-sum check update rule", config, status, sample=dict(query="exists vc: compute_cv_minsum(vc)_i != prod_{j!=i} sign(vc_j) * min_{j!=i} |vc_j| * scaling - sign * offset", degree=deg, scaling=sf, offset=off), **tl.take())]
    finally:
        S.ENV.tiefree = False


def clean_item(item, tl):
    """noise-free LLRs of any positive magnitude decode to the message; min-sum additionally invariant to positive rescaling"""
    kind = item["decoder"]
    s = item["spec"]
    config = item["config"]
    enc = quiet(build_code, s)
    from kaira.models.fec import decoders as D
    if kind == "minsum":
        dec = quiet(D.MinSumLDPCDecoder, enc, bp_iters=item["iters"])
    elif kind == "bp":
        dec = quiet(D.BeliefPropagationDecoder, enc, bp_iters=item["iters"], arctanh=True)
    elif kind == "wagner":
        dec = D.WagnerSoftDecisionDecoder(enc)
    else:
        dec = D.ReedMullerDecoder(enc, input_type="soft")
    k, n = enc.code_dimension, enc.code_length
    B = item.get("B", 1)
    obs = []
    S.ENV.tiefree = True
    try:
        def run(ctx):
            m = fresh_bits("m", (B, k))
            a = fresh_reals("a", (B, n))
            c = enc(m)
            llr = (1 - 2 * c) * a
            out = dec(llr)
            out2 = dec(llr * item["lam"]) if item.get("lam") else None
            return dict(m=m, a=a, out=out, out2=out2)
        assume = [z3.And(z3.Real(f"a{i}") >= z3.RealVal("1/2"), z3.Real(f"a{i}") <= 50) for i in range(B * n)]
        try:
            paths = sym_paths(run, assume, tl, max_paths=300, state=(dec, enc))
        except (IndexError, RuntimeError, ValueError, TypeError) as e:
            if isinstance(e, NotEncodable):
                raise
            return [ob("clean LLRs decode to the message", config, "violated", what=f"decoder raises on noise-free LLRs: {type(e).__name__}: {str(e)[:100]}", witness={"raises": True}, replay={"reproduced": _raises_clean(enc, dec, B)}, stretch=bool(item.get("stretch")), **tl.take())]
        status, viol = "holds", None
        for ctx, R in paths:
            if tuple(R["out"].shape) != (B, k):
                viol = dict(what=f"output shape {tuple(R['out'].shape)} != ({B},{k})", witness={"shape": list(R['out'].shape)}, replay={"reproduced": True})
                status = "violated"
                break
            bad = [differs(elems(R["out"]), elems(R["m"]))]
            if R["out2"] is not None:
                bad.append(differs(elems(R["out2"]), elems(R["out"])))
            st, model = (decide_nra if kind == "bp" else decide)(ctx, zor(bad))
            if st == "violated" and viol is None:
                mb, av = model_bits(model, "m", B * k), model_reals(model, "a", B * n)
                with _disable_current_modes():
                    mt = real_bits(mb, (B, k))
                    llr = (1 - 2 * enc(mt)) * torch.tensor(av, dtype=torch.float32).reshape(B, n)
                    out = dec(llr)
                    rep = not torch.equal(out.to(mt.dtype).reshape(B, k), mt)
                    if item.get("lam"):
                        rep = rep or not torch.equal(dec(llr * item["lam"]), out)
                viol = dict(what=f"message {mb} with LLR magnitudes {['%.3g' % v for v in av]} decodes to {[int(v) for v in out.flatten().tolist()]}", witness={"m": mb, "magnitudes": av}, replay={"reproduced": rep})
                status = "violated"
            elif st == "inconclusive" and status == "holds":
                status = st
        if viol:
            obs.append(ob("clean LLRs decode to the message", config, "violated", **viol, stretch=bool(item.get("stretch")), **tl.take()))
        else:
            obs.append(ob("clean LLRs decode to the message", config, status, stretch=bool(item.get("stretch")) and status != "holds", sample=dict(query="exists m, magnitudes in [0.5,50]: dec((1-2 enc(m)) a) != m" + (f" or dec({item['lam']} llr) != dec(llr)" if item.get("lam") else ""), paths=len(paths)), **tl.take()))
        return obs
    finally:
        S.ENV.tiefree = False


def _raises_clean(enc, dec, B):
    with _disable_current_modes():
        for seed in range(20):
            g = torch.Generator().manual_seed(seed)
            m = torch.randint(0, 2, (B, enc.code_dimension), generator=g).float()
            a = torch.rand(B, enc.code_length, generator=g) * 5 + 0.5
            try:
                dec((1 - 2 * enc(m)) * a)
            except Exception:
                return True
    return False


def work(item):
    tl = Tally()
    try:
        if item.get("selftest"):
            from kaira.models.fec.decoders import WagnerSoftDecisionDecoder as W
            orig = torch.argmin
            import kaira.models.fec.decoders.wagner_soft_decision_decoder as WM

            class _T:
                def __getattr__(self, nm):
                    return getattr(torch, nm)

                @staticmethod
                def argmin(x, *a, **k):
                    return torch.argmax(x, *a, **k)      # flips the MOST reliable position
            WM.torch = _T()
            try:
                obs = wagner_item(dict(k=2, shape=(3,), config="selftest"), tl)
            finally:
                WM.torch = torch
            hit = any(o["status"] == "violated" for o in obs)
            return [ob("selftest:wagner-flips-most-reliable", "selftest", "holds" if hit else "error", what="" if hit else "mutant not flagged")]
        return {"wagner": wagner_item, "rule": minsum_rule_item, "clean": clean_item}[item["type"]](item, tl)
    except NotEncodable as e:
        return [ob("harness", item["config"], "inconclusive" if "unknown" in str(e) else "error", what=f"NotEncodable: {e}", stretch=bool(item.get("stretch")))]


def all_items():
    items = []
    for k in range(1, tier(4, 6) + 1):
        n = k + 1
        for shape in ((n,), (2, n)) + (((2, 2 * n), (3, n)) if k <= 3 else ()):
            if len(shape) > 1 and k > 3 and TIER == "quick":
                continue
            items.append(dict(type="wagner", k=k, shape=shape, config=f"Wagner SPC(k={k}) layout={shape}"))
    for deg in (2, 3, 4):
        for sf, off in ((1.0, 0.0), (0.75, 0.0), (0.75, 0.2)):
            items.append(dict(type="rule", deg=deg, scaling=sf, offset=off, config=f"min-sum rule single check deg={deg} scaling={sf} offset={off}"))
    Hs = [[[1, 0, 1, 1, 0, 0], [0, 1, 1, 0, 1, 0], [0, 0, 0, 1, 1, 1]], [[1, 1, 0, 1, 0, 0, 0], [0, 1, 1, 0, 1, 0, 0], [0, 0, 1, 1, 0, 1, 1]]]
    for hi, H in enumerate(Hs):
        for iters in (1, 2) + ((3,) if TIER == "thorough" else ()):
            sp = spec("LDPCCodeEncoder", check_matrix=T(H))
            items.append(dict(type="clean", decoder="minsum", spec=sp, iters=iters, lam=3.0, config=f"min-sum H{hi} iters={iters} (+ rescaling by 3)"))
            items.append(dict(type="clean", decoder="bp", spec=sp, iters=iters, config=f"sum-product BP H{hi} iters={iters}", stretch=True))
    for k in (2, 3):
        items.append(dict(type="clean", decoder="wagner", spec=spec("SingleParityCheckCodeEncoder", dimension=k), B=2, config=f"Wagner clean SPC(k={k}) batch of 2"))
    for r, m in ((0, 2), (1, 2), (1, 3)) + (((0, 3), (2, 3), (1, 4)) if TIER == "thorough" else ()):
        items.append(dict(type="clean", decoder="rm-soft", spec=spec("ReedMullerCodeEncoder", order=r, length_param=m), config=f"soft Reed-Muller RM({r},{m})"))
    items.append(dict(selftest=True, config="selftest"))
    return items


def replay(body):
    for it in all_items():
        if it.get("config") == body["config"]:
            obs = work(it)
            return any(o["status"] == "violated" and o["replay"]["reproduced"] for o in obs)
    return False


def main():
    replay_main(__name__)
    ck = Check(PID)
    items = all_items()
    from kaira.models.fec.decoders import wagner_soft_decision_decoder as W, min_sum_ldpc as M, belief_propagation as BP, reed_muller_decoder as RM
    ck.encoded(W.WagnerSoftDecisionDecoder.forward, M.MinSumLDPCDecoder.compute_cv_minsum, BP.BeliefPropagationDecoder.forward, BP.BeliefPropagationDecoder.compute_vc,
               BP.BeliefPropagationDecoder.marginalize, RM.ReedMullerDecoder.forward)
    ck.bound("wagner", f"SPC k = 1..{tier(4, 6)}, layouts (n,), (2,n), (2,2n), (3,n); all real LLR vectors |r| <= {RMAX_W} without ties against all 2^k competitors (one query per path)")
    ck.bound("min-sum", "check update rule on single-check codes of degree 2..4 with scaling/offset options; clean decoding + invariance to rescaling by 3 on two small LDPC matrices, 1..2 (3) iterations")
    ck.assume("floats of symbolic quantities are reals; ties and exact-zero LLRs excluded; tanh/atanh are uninterpreted functions (sum-product BP items are stretch); exact posteriors on cycle-free graphs are outside the claim (DESIGN §6)")
    ck.run_items(__name__, "work", items)
    ck.finish(min_obligations=15)


if __name__ == "__main__":
    main()
