"""E2 - AST-level bounded symbolic interpreter over z3 bit-vectors for kaira's pure-Python integer code.

The interpreter executes the *real source* of the functions under test: every run re-parses the
function bodies from /repo with inspect/ast (nothing is cached across runs, nothing is hand-copied).

Model
-----
* Python ints      -> signed BitVec(W) (`SI`), W chosen per harness.  Every `+ - * << // %`, `bit_length`
                      records a no-overflow / well-definedness *side condition* (guarded by the current
                      execution guard).  A violated side condition is a harness error, never a pass.
* Python bools     -> z3 Bool (`SB`).
* instances        -> `Rec(cls, fields)` for the classes handed to the interpreter (BinaryPolynomial,
                      FiniteBifieldElement, ...); real, fully concrete instances stay real objects.
                      Method calls are inlined by interpreting their real source; calls whose arguments are
                      all concrete run natively on the real objects.
* `if` on a symbolic condition -> both arms are executed under guards and the environments merged with
                      ite (returns / breaks / raises inside the arms become guarded returns / breaks /
                      raises).  If the values are not mergeable (different classes, lists of different
                      length, list mutation under a guard, ...) the `if` is marked and the path is
                      restarted with that `if` *forking* (two paths).
* `while` on a symbolic guard -> "fork" mode: one path per trip count;  "merge" mode: unrolled under
                      guards until the guard is unsatisfiable.  Both have an unwinding bound
                      (exceeding it is a harness error).
* `raise` under a guard is recorded as (guard, exception name); the harness decides what that means.

Every decision is a z3 query; a path is a list of decisions (prefix) and exploration is depth-first
re-execution.  `prove()` turns an interpreted law into the three queries of DESIGN 2.5
(reachability twin / negated property / replay on the un-instrumented code).
"""
from __future__ import annotations

import ast
import builtins
import inspect
import operator
import textwrap
import time

import z3


# ------------------------------------------------------------------------------------------------
# exceptions
# ------------------------------------------------------------------------------------------------
class NotEncodable(Exception):
    pass


class Inconclusive(Exception):
    pass


class Unwind(Exception):
    """unwinding assertion failed (loop bound too small): harness error"""


class _MergeFail(Exception):
    pass


class _Restart(Exception):
    pass


class _PathAbort(Exception):
    pass


class _Dead(Exception):
    """the current guard became False (everything returned / raised): unwind to the last split"""


class _PureFork(Exception):
    """a path decision was requested while a pure call was being evaluated guard-free"""


class _TargetRaise(Exception):
    def __init__(self, name, g=None):
        self.name = name
        self.g = g            # guard at the raise point (filled in by Interp.stmt when missing)


# ------------------------------------------------------------------------------------------------
# values
# ------------------------------------------------------------------------------------------------
class SI:
    """symbolic Python int as a signed bit-vector"""
    __slots__ = ("e",)
    e2_symbolic = True

    def __init__(self, e):
        self.e = e

    def __repr__(self):
        return f"SI({self.e})"


class SB:
    __slots__ = ("e",)
    e2_symbolic = True

    def __init__(self, e):
        self.e = e

    def __repr__(self):
        return f"SB({self.e})"


class Rec:
    """symbolic instance of a modelled class"""
    e2_symbolic = True

    def __init__(self, cls, fields=None, born=True):
        self.cls = cls
        self.f = fields if fields is not None else {}
        self.born = born          # guard under which the record was created (fields may be initialised under it)

    def __repr__(self):
        return f"Rec<{self.cls.__name__}>({self.f})"


class _Helper:
    """interpreter-provided method of a symbolic value (int.bit_length, bin(x).count): called directly, its
    exceptions are engine errors and never taken for exceptions of the code under test"""

    def __init__(self, fn):
        self.fn = fn


class BoundRec:
    def __init__(self, obj, fn):
        self.obj = obj
        self.fn = fn


class SymBin:
    """result of bin(<symbolic int>): only .count('1') is supported"""
    e2_symbolic = True

    def __init__(self, x):
        self.x = x


class NullCache(dict):
    """stub for memo dictionaries: never contains anything, stores are dropped"""

    def __contains__(self, k):
        return False

    def __setitem__(self, k, v):
        pass

    def get(self, k, d=None):
        return d


def is_sym(x):
    return isinstance(x, (SI, SB))


def sym_deep(x, depth=0):
    if getattr(x, "e2_symbolic", False):
        return True
    if isinstance(x, (list, tuple)) and depth < 4:
        return any(sym_deep(y, depth + 1) for y in x)
    if isinstance(x, dict) and depth < 4:
        return any(sym_deep(y, depth + 1) for y in x.values())
    return False


# guards are python bools or z3 BoolRefs
def g_and(a, b):
    if a is True:
        return b
    if b is True:
        return a
    if a is False or b is False:
        return False
    if a is b:
        return a
    return z3.And(a, b)


def g_not(a):
    if a is True:
        return False
    if a is False:
        return True
    return z3.Not(a)


def g_or(xs):
    ys = []
    for x in xs:
        if x is True:
            return True
        if x is False:
            continue
        ys.append(x)
    if not ys:
        return False
    return ys[0] if len(ys) == 1 else z3.Or(ys)


def g_expr(g):
    return z3.BoolVal(g) if isinstance(g, bool) else g


_BINOPS = {ast.BitXor: operator.xor, ast.BitAnd: operator.and_, ast.BitOr: operator.or_, ast.LShift: operator.lshift,
           ast.RShift: operator.rshift, ast.Add: operator.add, ast.Sub: operator.sub, ast.Mult: operator.mul,
           ast.Mod: operator.mod, ast.FloorDiv: operator.floordiv, ast.Pow: operator.pow, ast.Div: operator.truediv}
_DUNDER = {ast.BitXor: "__xor__", ast.BitAnd: "__and__", ast.BitOr: "__or__", ast.LShift: "__lshift__", ast.RShift: "__rshift__",
           ast.Add: "__add__", ast.Sub: "__sub__", ast.Mult: "__mul__", ast.Mod: "__mod__", ast.FloorDiv: "__floordiv__",
           ast.Pow: "__pow__", ast.Div: "__truediv__"}
_CMPOPS = {ast.Eq: operator.eq, ast.NotEq: operator.ne, ast.Lt: operator.lt, ast.LtE: operator.le, ast.Gt: operator.gt,
           ast.GtE: operator.ge, ast.Is: operator.is_, ast.IsNot: operator.is_not}


class _Ctx:
    """one path: decision prefix, path condition, side conditions, recorded raises"""

    def __init__(self, prefix, assumptions, timeout_ms):
        self.prefix = list(prefix)
        self.pos = 0
        self.assumptions = list(assumptions)
        self.pc = []
        self.open = []
        self.side = []
        self.raises = []          # (guard, exception name)
        self.lemmas = []          # consequences of assumptions + pc established by the solver
        self.unwind = []          # deferred unwinding assertions: (guard that must be unsatisfiable, loop node)
        self.timeout_ms = timeout_ms
        self.s = limit(z3.SolverFor("QF_BV"), min(timeout_ms, 3000))
        for a in assumptions:
            self.s.add(a)
        self.nq = 0
        self.t = 0.0
        self.memo = {}
        self.model = None         # a model of assumptions + pc (+ assumed unwinding assertions), when one is known
        self.last_model = None

    def check(self, cond, quick=False):
        """incremental solver first (short timeout); one-shot QF_BV solver as the fallback"""
        t0 = time.time()
        r = self.s.check(cond)
        self.nq += 1
        self.last_model = self.s.model() if r == z3.sat else None
        if r == z3.unknown and not quick:
            s = limit(z3.SolverFor("QF_BV"), self.timeout_ms)
            s.add(*self.assumptions)
            s.add(*self.pc)
            s.add(*self.lemmas)
            s.add(*[z3.Not(g) for g, _ in self.unwind])
            s.add(cond)
            r = s.check()
            self.nq += 1
            self.last_model = s.model() if r == z3.sat else None
        self.t += time.time() - t0
        return r

    def add(self, cond):
        self.pc.append(cond)
        self.s.add(cond)

    def lemma(self, cond):
        self.lemmas.append(cond)
        self.s.add(cond)


class Path:
    def __init__(self, ctx, result, dead):
        self.assumptions = ctx.assumptions
        self.pc = ctx.pc
        self.side = ctx.side
        self.raises = ctx.raises
        self.lemmas = ctx.lemmas
        self.result = result
        self.dead = dead          # True: the whole path ended in a raise
        self.prefix = list(ctx.prefix[:ctx.pos])
        self.decide_queries = ctx.nq
        self.decide_s = ctx.t

    def raised(self):
        return g_or([g for g, _ in self.raises])


class _Frame:
    def __init__(self, fn, qual, loc, env):
        self.fn = fn
        self.qual = qual
        self.loc = loc
        self.env = env
        self.rets = []            # (guard, value, merge node or None)
        self.loops = []


class Interp:
    def __init__(self, W, classes=(), loop_mode=None, default_loop="fork", max_unroll=80, always_interpret=(),
                 attr_stubs=None, fn_stubs=None, decide_timeout_ms=30000, mutants=None, unroll=None,
                 fork_on_return=False, drop_attr_stores=(), pure=()):
        self.W = W
        self.classes = set(classes)
        self.loop_mode = dict(loop_mode or {})       # qualname -> "merge" | "fork"
        self.default_loop = default_loop
        self.max_unroll = max_unroll
        self.always_interpret = set(always_interpret)
        self.attr_stubs = dict(attr_stubs or {})      # (cls, attr) -> value
        self.fn_stubs = dict(fn_stubs or {})          # callable -> stub(interp, args, kwargs)
        self.decide_timeout_ms = decide_timeout_ms
        self.mutants = dict(mutants or {})            # function -> ast.FunctionDef (in-memory mutated copy)
        self.src = {}
        self.nomerge = set()
        self.unroll_hint = {}
        self.drop_attr_stores = set(drop_attr_stores)
        self.in_pure = 0
        self.no_pure = set()
        self.const_mode = False                       # set by run_concrete(): arguments are wrapped constants
        self.pure = set(pure)                         # functions without side effects: calls are memoised per path
        self.fork_on_return = fork_on_return          # early exits (`if c: return/raise`) fork instead of merging
        self.unroll = dict(unroll or {})              # qualname -> initial unrolling of its merged loops (validated by the
                                                      # deferred unwinding assertion, raised automatically when too small)
        self.ctx = None
        self.g = True
        self.frames = []
        self.merge_stack = []
        self.stats = dict(paths=0, restarts=0, decide_queries=0, decide_s=0.0)

    # -- bit-vector helpers ----------------------------------------------------------------------
    def val(self, v):
        return z3.BitVecVal(int(v), self.W)

    def bv(self, x):
        if isinstance(x, SI):
            return x.e
        if isinstance(x, SB):
            return z3.If(x.e, self.val(1), self.val(0))
        if isinstance(x, bool):
            return self.val(int(x))
        if isinstance(x, int):
            if not (-(1 << (self.W - 1)) <= x < (1 << (self.W - 1))):
                raise NotEncodable(f"constant {x} does not fit {self.W} bits")
            return self.val(x)
        raise NotEncodable(f"not an int: {type(x).__name__}")

    def bo(self, x):
        if isinstance(x, SB):
            return x.e
        if isinstance(x, SI):
            return x.e != 0
        if isinstance(x, Rec) or x is None or isinstance(x, (bool, int, str, list, tuple, dict)):
            if isinstance(x, Rec):
                return z3.BoolVal(True)
            return z3.BoolVal(bool(x))
        return z3.BoolVal(bool(x))

    def mk_si(self, e):
        # const mode (translator validation on wrapped constants): every operation is evaluated by z3 on
        # numerals, one at a time, so that it is z3's semantics of the encoding that is compared with Python
        if self.const_mode and e.num_args() > 0 and all(z3.is_bv_value(c) for c in e.children()):
            e = z3.simplify(e)
        return SI(e)

    def side(self, cond):
        cond = self.fold(cond)
        if z3.is_true(cond):
            return
        g = self.g
        self.ctx.side.append(cond if g is True else z3.Implies(g_expr(g), cond))

    @staticmethod
    def _ground(e, depth=3):
        if z3.is_bv_value(e) or z3.is_true(e) or z3.is_false(e):
            return True
        if depth == 0 or e.num_args() == 0:
            return False
        return all(Interp._ground(c, depth - 1) for c in e.children())

    def fold(self, e):
        """constant-fold small ground terms only (z3.simplify on big shared terms is quadratic overall)"""
        if z3.is_true(e) or z3.is_false(e):
            return e
        if not self.const_mode:
            return e              # symbolic runs: no term inspection (the z3 Python API makes it the hot spot)
        if self._ground(e):
            return z3.simplify(e)
        if z3.is_and(e) or z3.is_or(e):
            kids = [self.fold(c) for c in e.children()]
            if z3.is_and(e):
                if any(z3.is_false(k) for k in kids):
                    return z3.BoolVal(False)
                kids = [k for k in kids if not z3.is_true(k)]
                return z3.BoolVal(True) if not kids else (kids[0] if len(kids) == 1 else z3.And(kids))
            if any(z3.is_true(k) for k in kids):
                return z3.BoolVal(True)
            kids = [k for k in kids if not z3.is_false(k)]
            return z3.BoolVal(False) if not kids else (kids[0] if len(kids) == 1 else z3.Or(kids))
        if z3.is_not(e):
            k = self.fold(e.arg(0))
            if z3.is_true(k):
                return z3.BoolVal(False)
            if z3.is_false(k):
                return z3.BoolVal(True)
            return e
        return e

    def ite(self, c, a, b):
        if z3.is_true(c):
            return a
        if z3.is_false(c):
            return b
        if a.eq(b):
            return a
        return z3.If(c, a, b)

    def bit_length(self, x):
        e = self.bv(x)
        if z3.is_bv_value(e):
            return abs(e.as_signed_long()).bit_length()
        self.side(e >= 0)
        r = self.val(0)
        for i in range(self.W - 1):
            r = z3.If(z3.Extract(i, i, e) == 1, self.val(i + 1), r)
        return SI(r)

    def popcount(self, x):
        e = self.bv(x)
        if z3.is_bv_value(e):
            return bin(e.as_signed_long()).count("1")
        self.side(e >= 0)
        bits = max(1, (self.W).bit_length())
        acc = z3.BitVecVal(0, bits)
        for i in range(self.W):
            acc = acc + z3.ZeroExt(bits - 1, z3.Extract(i, i, e))
        return SI(z3.ZeroExt(self.W - bits, acc))

    def binop(self, op, a, b):
        if not is_sym(a) and not is_sym(b):
            return _BINOPS[op](a, b)
        if isinstance(a, (float, complex)) or isinstance(b, (float, complex)):
            raise NotEncodable("float arithmetic on a symbolic int")
        x, y = self.bv(a), self.bv(b)
        W = self.W
        if op is ast.BitXor:
            if isinstance(a, SB) and isinstance(b, SB):
                return SB(z3.Xor(a.e, b.e))
            return self.mk_si(x ^ y)
        if op is ast.BitAnd:
            if isinstance(a, SB) and isinstance(b, SB):
                return SB(z3.And(a.e, b.e))
            return self.mk_si(x & y)
        if op is ast.BitOr:
            if isinstance(a, SB) and isinstance(b, SB):
                return SB(z3.Or(a.e, b.e))
            return self.mk_si(x | y)
        if op is ast.RShift:
            self.side(y >= 0)
            return self.mk_si(x >> y)
        if op is ast.LShift:
            r = x << y
            self.side(z3.And(y >= 0, y < W, (r >> y) == x))
            return self.mk_si(r)
        if op is ast.Add:
            self.side(z3.And(z3.BVAddNoOverflow(x, y, True), z3.BVAddNoUnderflow(x, y)))
            return self.mk_si(x + y)
        if op is ast.Sub:
            self.side(z3.And(z3.BVSubNoOverflow(x, y), z3.BVSubNoUnderflow(x, y, True)))
            return self.mk_si(x - y)
        if op is ast.Mult:
            self.side(z3.And(z3.BVMulNoOverflow(x, y, True), z3.BVMulNoUnderflow(x, y)))
            return self.mk_si(x * y)
        if op is ast.Mod:
            if not is_sym(b) and b > 0 and b & (b - 1) == 0:
                return self.mk_si(x & self.bv(b - 1))      # exact for negative x as well (two's complement)
            self._nonzero(y)
            return self.mk_si(x % y)                          # bvsmod: sign follows the divisor, as in Python
        if op is ast.FloorDiv:
            self._nonzero(y)
            self.side(z3.Not(z3.And(x == self.val(-(1 << (W - 1))), y == self.val(-1))))
            q = x / y
            adj = z3.And(z3.SRem(x, y) != 0, (x < 0) != (y < 0))
            return self.mk_si(z3.If(adj, q - 1, q))
        if op is ast.Pow:
            if not is_sym(a) and a == 2:
                r = self.val(1) << y
                self.side(z3.And(y >= 0, y < W - 1))
                return self.mk_si(r)
            raise NotEncodable("symbolic ** ")
        raise NotEncodable(f"operator {op.__name__} on symbolic ints")

    def _nonzero(self, y):
        c = self.fold(y == 0)
        if z3.is_false(c):
            return
        # ZeroDivisionError under the guard where y == 0
        self.raise_under(g_and(self.g, c), "ZeroDivisionError")

    def cmpop(self, op, a, b):
        if not is_sym(a) and not is_sym(b):
            if op is ast.In:
                return a in b
            if op is ast.NotIn:
                return a not in b
            return _CMPOPS[op](a, b)
        if op in (ast.In, ast.NotIn):
            if isinstance(b, (list, tuple, set, frozenset, range)) and not isinstance(a, (Rec,)):
                c = z3.Or([self.bo(self.cmpop(ast.Eq, a, y)) if is_sym(self.cmpop(ast.Eq, a, y)) else z3.BoolVal(bool(self.cmpop(ast.Eq, a, y))) for y in b]) if len(b) else z3.BoolVal(False)
                return SB(c if op is ast.In else z3.Not(c))
            if isinstance(b, NullCache):
                return op is ast.NotIn
            raise NotEncodable("symbolic membership test")
        if op in (ast.Is, ast.IsNot):
            same = a is b
            return same if op is ast.Is else not same
        if (isinstance(a, SB) or isinstance(a, bool)) and (isinstance(b, SB) or isinstance(b, bool)) and op in (ast.Eq, ast.NotEq):
            x, y = self.bo(a), self.bo(b)
            return SB(x == y if op is ast.Eq else x != y)
        if not isinstance(a, (SI, SB, int)) or not isinstance(b, (SI, SB, int)):
            # int compared with a non-int object: Python says "not equal" / TypeError for ordering
            if op is ast.Eq:
                return False
            if op is ast.NotEq:
                return True
            raise NotEncodable("ordering comparison of a symbolic int with a non-int")
        x, y = self.bv(a), self.bv(b)
        e = {ast.Eq: lambda: x == y, ast.NotEq: lambda: x != y, ast.Lt: lambda: x < y, ast.LtE: lambda: x <= y,
             ast.Gt: lambda: x > y, ast.GtE: lambda: x >= y}[op]()
        return SB(e)

    # -- merging ---------------------------------------------------------------------------------
    def lift(self, o, like=None):
        d = dict(vars(o))
        if like is not None:
            d = {k: v for k, v in d.items() if k in like.f}
        return Rec(type(o), d)

    def merge(self, c, a, b):
        """value that is `a` where c holds and `b` elsewhere; raises _MergeFail if impossible"""
        if a is b:
            return a
        if isinstance(a, Rec) or isinstance(b, Rec):
            if not isinstance(a, Rec):
                if type(a) in self.classes:
                    a = self.lift(a, b)
                else:
                    raise _MergeFail()
            if not isinstance(b, Rec):
                if type(b) in self.classes:
                    b = self.lift(b, a)
                else:
                    raise _MergeFail()
            if a.cls is not b.cls or a.f.keys() != b.f.keys():
                raise _MergeFail()
            return Rec(a.cls, {k: self.merge(c, a.f[k], b.f[k]) for k in a.f})
        if type(a) in self.classes and type(b) in self.classes and type(a) is type(b):
            return self.merge(c, self.lift(a), self.lift(b))
        if isinstance(a, (SB, bool)) and isinstance(b, (SB, bool)):
            x, y = self.bo(a), self.bo(b)
            return SB(self.ite(c, x, y))
        if isinstance(a, (SI, int)) and isinstance(b, (SI, int)) and not isinstance(a, bool) and not isinstance(b, bool):
            if not is_sym(a) and not is_sym(b) and a == b:
                return a
            return SI(self.ite(c, self.bv(a), self.bv(b)))
        if isinstance(a, tuple) and isinstance(b, tuple) and len(a) == len(b):
            return tuple(self.merge(c, x, y) for x, y in zip(a, b))
        if hasattr(a, "e2_merge"):
            return a.e2_merge(self, c, b)
        try:
            if type(a) is type(b) and not isinstance(a, (list, dict, set)) and a == b:
                return a
        except Exception:
            pass
        raise _MergeFail()

    # -- source ----------------------------------------------------------------------------------
    def fdef(self, fn):
        fn = getattr(fn, "__wrapped__", fn)             # lru_cache / functools.wraps wrappers are bypassed
        if fn in self.mutants:
            return self.mutants[fn]
        if fn not in self.src:
            try:
                src = textwrap.dedent(inspect.getsource(fn))
            except (OSError, TypeError) as e:
                raise NotEncodable(f"no source for {fn!r}: {e}")
            self.src[fn] = ast.parse(src).body[0]
        return self.src[fn]

    # -- decisions -------------------------------------------------------------------------------
    def decide(self, cond):
        if isinstance(cond, bool):
            return cond
        cond = z3.simplify(cond)
        if z3.is_true(cond):
            return True
        if z3.is_false(cond):
            return False
        if self.in_pure:
            raise _PureFork()
        ctx = self.ctx
        if ctx.pos < len(ctx.prefix):
            v = ctx.prefix[ctx.pos]
        else:
            # concolic shortcut: a model of the path so far already witnesses one of the two polarities,
            # so only the other polarity needs the solver (ctx.model is a model of assumptions + pc, or None)
            mv = None
            if ctx.model is not None:
                e = ctx.model.eval(cond, model_completion=True)
                mv = True if z3.is_true(e) else (False if z3.is_false(e) else None)
            m_t = m_f = None
            if mv is True:
                rt, m_t = z3.sat, ctx.model
            else:
                rt = ctx.check(cond)
                m_t = ctx.last_model if rt == z3.sat else None
            if mv is False:
                rf, m_f = z3.sat, ctx.model
            else:
                rf = ctx.check(z3.Not(cond))
                m_f = ctx.last_model if rf == z3.sat else None
            ctx.model = m_t if rt == z3.sat else m_f
            if rt == z3.unknown or rf == z3.unknown:
                raise Inconclusive("path decision undecided within the decision timeout")
            if rt == z3.sat and rf == z3.sat:
                v = True
                ctx.open.append(ctx.pos)
            elif rt == z3.sat:
                v = True
            elif rf == z3.sat:
                v = False
            else:
                raise _PathAbort()
            ctx.prefix.append(v)
        ctx.pos += 1
        ctx.add(cond if v else z3.Not(cond))
        return v

    def loop_alive(self, s, it, g, learned, qual=None):
        """may any state under guard g start iteration `it` of the merged loop s?
        First encounter of a loop: ask the solver each time and remember the trip count.  Later
        encounters: unroll to the remembered count without queries and *defer* the unwinding assertion
        (guard after the last unrolling is unsatisfiable) to one query at the end of the path; if that
        fails the remembered count is raised and the path is re-run."""
        if isinstance(g, bool):
            return g
        hint = self.unroll_hint.get(id(s))
        if hint is None and qual in self.unroll:
            hint = self.unroll_hint[id(s)] = self.unroll[qual]
        if hint is None:
            c = z3.simplify(g)
            if z3.is_true(c):
                return True
            if z3.is_false(c):
                return False
            learned[0] = True
            return self.feasible(c)
        if it < hint:
            return True
        # defer, and meanwhile *assume* the assertion: the rest of the path is explored for the states
        # that did finish the loop; the path is only accepted once _check_unwind has proved the assertion
        self.ctx.unwind.append((g, s))
        if not self.in_pure:          # (inside a guard-free pure evaluation the assertion is attached per use)
            self.ctx.s.add(z3.Not(g))
            self.ctx.model = None
        return False

    def decide_guarded(self, c):
        """fork on c for the states of the current guard g: three ways {g&c, g&~c, ~g}.  The first two
        make the guard redundant (pc implies g); on the third this arm is dead and the states are the
        business of the other arm of the enclosing merged branch."""
        g = self.g
        if g is True:
            return self.decide(c)
        if g is False:
            raise _Dead()
        if self.decide(g_and(g, c)):
            self.g = True
            return True
        if self.decide(g):
            self.g = True
            return False
        self.g = False
        raise _Dead()

    def feasible(self, cond, soft=False):
        """is cond satisfiable together with assumptions + pc?  soft: a quick incremental query only, and
        'undecided' counts as feasible (used to drop obviously dead raises; keeping one is always sound)"""
        if isinstance(cond, bool):
            return cond
        cond = z3.simplify(cond)
        if z3.is_true(cond):
            return True
        if z3.is_false(cond):
            return False
        r = self.ctx.check(cond, quick=soft)
        if r == z3.unknown:
            if soft:
                return True
            raise Inconclusive("feasibility of a loop/raise guard undecided within the decision timeout")
        if r == z3.unsat:
            # a fact the solver derived from assumptions + pc: keep it as a lemma (redundant, hence sound);
            # later loops build on it (e.g. "the previous reduction loop has terminated")
            self.ctx.lemma(z3.Not(cond))
        return r == z3.sat

    def truth(self, v):
        """python truth of a possibly symbolic value, forking if needed (under the current guard)"""
        v = self.cond(v)
        if isinstance(v, (SI, SB)):
            c = self.fold(self.bo(v))
            if z3.is_true(c):
                return True
            if z3.is_false(c):
                return False
            return self.decide_guarded(c)
        if isinstance(v, Rec):
            return True
        return bool(v)

    def raise_under(self, g, name):
        """record `raise name` under guard g (absolute).  Infeasible raises are dropped."""
        if g is False:
            return False
        if g is not True and not self.feasible(g, soft=True):
            return False
        self.ctx.raises.append((g, name))
        return True

    # -- exploration -----------------------------------------------------------------------------
    def explore(self, thunk, assumptions=(), max_paths=100000):
        stack = [[]]
        out = []
        while stack:
            prefix = stack.pop()
            while True:
                self.ctx = _Ctx(prefix, assumptions, self.decide_timeout_ms)
                self.g = True
                self.frames = []
                self.merge_stack = []
                self.in_pure = 0
                try:
                    dead = False
                    try:
                        r = thunk()
                    except _Dead:
                        r = None
                        dead = True
                    except _TargetRaise as e:
                        self.ctx.raises.append((self.g, e.name))
                        r = None
                        dead = True
                    if self.g is False:
                        dead = True
                except _Restart:
                    # the merge/fork configuration changed (an `if` or loop was found unmergeable): decision
                    # prefixes recorded under the old configuration no longer line up -> explore again from scratch
                    self.stats["restarts"] += 1
                    stack = [[]]
                    out = []
                    break
                except _PathAbort:
                    # neither polarity of a decision is satisfiable: only legitimate when an assumed (deferred)
                    # unwinding assertion is false, i.e. a loop needs more unrolling
                    if self.ctx.unwind and not self._check_unwind(self.ctx):
                        self.stats["restarts"] += 1
                        continue
                    # the path condition itself is unsatisfiable: no input follows this path, nothing is lost
                    r = None
                    break
                ctx = self.ctx
                for ent in ctx.memo.values():          # side conditions of memoised evaluations, under the guards of their uses
                    if ent["side"]:
                        gu = g_or(ent["uses"])
                        body = z3.And(ent["side"]) if len(ent["side"]) > 1 else ent["side"][0]
                        if gu is not False:
                            ctx.side.append(body if gu is True else z3.Implies(gu, body))
                    ent["side"] = []
                if ctx.unwind and not self._check_unwind(ctx):
                    self.stats["restarts"] += 1
                    continue
                out.append(Path(ctx, r, dead))
                self.stats["paths"] += 1
                self.stats["decide_queries"] += ctx.nq
                self.stats["decide_s"] += ctx.t
                for p in ctx.open:
                    if p >= len(prefix):
                        stack.append(ctx.prefix[:p] + [False])
                if len(out) > max_paths:
                    raise Unwind(f"more than {max_paths} paths")
                break
        return out

    def _check_unwind(self, ctx):
        """deferred unwinding assertions of this path: one one-shot query; on failure raise the bounds"""
        t0 = time.time()
        m = None
        # one query per group of leftover guards (each is a local fact about one loop)
        # (all at once first; groups, then single guards, only if that is undecided)
        groups = [list(ctx.unwind)]
        while groups:
            grp = groups.pop(0)
            s = limit(z3.SolverFor("QF_BV"), self.decide_timeout_ms)
            s.add(*ctx.assumptions)
            s.add(*ctx.pc)
            s.add(z3.Or([g for g, _ in grp]))
            r = s.check()
            ctx.nq += 1
            if r == z3.sat:
                m = s.model()
                break
            if r != z3.unsat:
                if len(grp) > 6:
                    groups = [grp[k:k + 6] for k in range(0, len(grp), 6)] + groups
                    continue
                if len(grp) > 1:
                    groups = [[x] for x in grp] + groups
                    continue
                ctx.t += time.time() - t0
                raise Inconclusive("deferred unwinding assertion undecided within the decision timeout")
        ctx.t += time.time() - t0
        if m is None:
            return True
        bumped = set()
        for g, node in ctx.unwind:
            if id(node) not in bumped and z3.is_true(m.eval(g, model_completion=True)):
                self.unroll_hint[id(node)] = self.unroll_hint.get(id(node), 0) + 1
                if self.unroll_hint[id(node)] > self.max_unroll:
                    raise Unwind(f"unwinding assertion failed (bound {self.max_unroll})")
                bumped.add(id(node))
        return False

    def _fail_merge(self, nodes):
        nodes = [n for n in nodes if n is not None]
        if not nodes:
            raise NotEncodable("values are not mergeable and no enclosing symbolic branch to fork on")
        new = [n for n in nodes if id(n) not in self.nomerge]
        if not new:
            raise NotEncodable("merge failure persists after forking")
        for n in new:
            self.nomerge.add(id(n))
        raise _Restart()

    # -- calls -----------------------------------------------------------------------------------
    def call(self, fn, args, kwargs=None):
        """interpret fn(*args, **kwargs) from its real source"""
        kwargs = kwargs or {}
        fn = getattr(fn, "__wrapped__", fn)
        node = self.fdef(fn)
        if not isinstance(node, (ast.FunctionDef,)):
            raise NotEncodable(f"not a plain function: {fn!r}")
        env = fn.__globals__
        a = node.args
        if a.vararg or a.kwarg or a.posonlyargs:
            raise NotEncodable("*args/**kwargs in interpreted function")
        names = [x.arg for x in a.args]
        loc = {}
        if len(args) > len(names):
            raise _TargetRaise("TypeError")
        for n, v in zip(names, args):
            loc[n] = v
        for k, v in kwargs.items():
            if k not in names and k not in [x.arg for x in a.kwonlyargs]:
                raise _TargetRaise("TypeError")
            loc[k] = v
        fr = _Frame(fn, getattr(fn, "__qualname__", str(fn)), loc, env)
        nd = len(a.defaults)
        for i, n in enumerate(names):
            if n not in loc:
                j = i - (len(names) - nd)
                if j < 0:
                    raise _TargetRaise("TypeError")
                loc[n] = self.ev(a.defaults[j], fr)
        for x, d in zip(a.kwonlyargs, a.kw_defaults):
            if x.arg not in loc:
                loc[x.arg] = self.ev(d, fr)
        g0 = self.g
        n_r = len(self.ctx.raises)
        self.frames.append(fr)
        if len(self.frames) > 60:
            raise NotEncodable("call depth > 60")
        try:
            try:
                self.block(node.body, fr)
                if self.g is not False:
                    fr.rets.append((self.g, None, self.merge_stack[-1] if self.merge_stack else None))
            except _Dead:
                pass
        finally:
            self.frames.pop()
        new_r = [g for g, _ in self.ctx.raises[n_r:]]
        if not fr.rets:
            self.g = False
            raise _Dead()
        # coverage self-check: every state that entered the call either returned or raised
        if len(fr.rets) > 1 or new_r:
            if not any(g is True for g, _, _ in fr.rets) and g0 is not False:
                cov = g_or([g for g, _, _ in fr.rets] + new_r)
                if cov is not True:
                    self.ctx.side.append(z3.Implies(g_expr(g0), cov) if g0 is not True else cov)
        if new_r:
            self.g = g_and(g0, g_not(g_or(new_r)))
        elif len(fr.rets) == 1 and fr.rets[0][0] is True:
            self.g = True                                  # a fork inside made the guard redundant
        else:
            self.g = g0
        rets = fr.rets
        acc = rets[-1][1]
        try:
            for g, v, _ in reversed(rets[:-1]):
                acc = self.merge(g_expr(g), v, acc)
        except _MergeFail:
            self._fail_merge([n for _, _, n in rets] + self.merge_stack[-1:])
        return acc

    def invoke(self, f, args, kwargs=None):
        """call a callable the way the target code would; interpret when symbolic data is involved"""
        kwargs = kwargs or {}
        if isinstance(f, _Helper):
            return f.fn(*args, **kwargs)
        if isinstance(f, BoundRec):
            return self.invoke(f.fn, [f.obj] + list(args), kwargs)
        try:
            if f in self.fn_stubs:
                return self.fn_stubs[f](self, args, kwargs)
        except TypeError:
            pass
        if inspect.ismethod(f):
            if getattr(f.__self__, "e2_stub", False):      # methods of stub objects are the model itself
                return self.native(f, args, kwargs)
            return self.invoke(f.__func__, [f.__self__] + list(args), kwargs)
        symbolic = sym_deep(list(args)) or sym_deep(list(kwargs.values()))
        if isinstance(f, type):
            if f in self.classes and (symbolic or f in self.always_interpret):
                r = Rec(f, {}, born=self.g)
                init = inspect.getattr_static(f, "__init__")
                self.call(init, [r] + list(args), kwargs)
                return r
            if symbolic:
                return self.builtin(f, args, kwargs)
            return self.native(f, args, kwargs)
        if isinstance(f, Rec):
            return self.method(f, "__call__", args, kwargs)
        if type(f) in self.classes and not inspect.isfunction(f):
            callm = inspect.getattr_static(type(f), "__call__", None)
            if callm is None:
                raise _TargetRaise("TypeError")
            return self.invoke(callm, [f] + list(args), kwargs)
        if inspect.isfunction(f):
            if symbolic or f in self.always_interpret or f in self.mutants:
                if f in self.pure and not kwargs:
                    return self._call_pure(f, list(args))
                return self.call(f, list(args), kwargs)
            return self.native(f, args, kwargs)
        if symbolic:
            return self.builtin(f, args, kwargs)
        return self.native(f, args, kwargs)

    def _key(self, v, depth=0):
        if isinstance(v, SI):
            return ("i", v.e.get_id())
        if isinstance(v, SB):
            return ("b", v.e.get_id())
        if isinstance(v, Rec):
            if depth > 3:
                raise TypeError
            return ("r", v.cls, tuple((k, self._key(x, depth + 1)) for k, x in sorted(v.f.items())))
        if isinstance(v, (int, str, bool, type(None))):
            return ("c", type(v), v)
        if isinstance(v, (list, dict, set)):
            raise TypeError          # mutable containers are not memo keys
        return ("o", id(v))

    def _call_pure(self, f, args):
        """memo for calls of functions declared pure by the harness.  The first call with given argument terms is
        evaluated under the guard True with its effects captured *relative* to that call (side conditions,
        raises, deferred unwinding assertions, remaining guard); every use - the first and all later ones,
        under whatever guard - re-attaches those effects under its own guard.  The same function on the same
        terms yields the same z3 term (hash-consing), so e.g. the powers of one element are built once even
        when a search loop re-evaluates them under ever narrower guards.  Valid within one path only.  A
        path decision inside the evaluation cannot be made guard-free: the function is then evaluated
        normally (and remembered as not memoisable)."""
        if self.in_pure or f in self.no_pure:
            return self.call(f, args)
        try:
            key = (f, tuple(self._key(a) for a in args))
        except TypeError:
            return self.call(f, args)
        ctx = self.ctx
        g_use = self.g
        ent = ctx.memo.get(key)
        if ent is None:
            n_side, n_r, n_u = len(ctx.side), len(ctx.raises), len(ctx.unwind)
            n_ms, n_fr = len(self.merge_stack), len(self.frames)
            self.in_pure += 1
            self.g = True
            try:
                try:
                    val = self.call(f, args)
                    g_rel = self.g
                except _Dead:
                    val, g_rel = None, False
            except _PureFork:
                del ctx.side[n_side:], ctx.raises[n_r:], ctx.unwind[n_u:]
                del self.merge_stack[n_ms:], self.frames[n_fr:]
                self.no_pure.add(f)
                self.g = g_use
                self.in_pure -= 1
                return self.call(f, args)
            self.in_pure -= 1
            ent = dict(val=val, g=g_rel, side=ctx.side[n_side:], raises=ctx.raises[n_r:], unwind=ctx.unwind[n_u:], uses=[], keep=args)
            del ctx.side[n_side:], ctx.raises[n_r:], ctx.unwind[n_u:]
            ctx.memo[key] = ent
        else:
            self.stats["memo_hits"] = self.stats.get("memo_hits", 0) + 1
        ent["uses"].append(g_use)
        for gi, name in ent["raises"]:
            ctx.raises.append((g_and(g_use, gi), name))
        for gi, node in ent["unwind"]:
            gg = g_and(g_use, gi)
            if gg is not False:
                ctx.unwind.append((gg, node))
                ctx.s.add(z3.Not(gg))
                ctx.model = None
        self.g = g_and(g_use, ent["g"])
        if self.g is False:
            raise _Dead()
        return ent["val"]

    def native(self, f, args, kwargs):
        try:
            return f(*args, **kwargs)
        except (NotEncodable, Inconclusive, Unwind, _Restart, _Dead, _TargetRaise, _PathAbort, _MergeFail, _PureFork):
            raise
        except (z3.Z3Exception, MemoryError, RecursionError) as e:   # the engine failed, not the code under test
            raise Inconclusive(f"engine failure inside a native call: {type(e).__name__}: {e}")
        except Exception as e:      # the real code raised on concrete data
            raise _TargetRaise(type(e).__name__, self.g)

    def builtin(self, f, args, kwargs):
        a0 = args[0] if args else None
        if f is isinstance:
            return self.isinst(args[0], args[1])
        if f is hasattr:
            o, n = args
            if isinstance(o, Rec):
                return n in o.f or hasattr(o.cls, n)
            if isinstance(o, SI):
                return hasattr(0, n)
            if isinstance(o, SB):
                return hasattr(True, n)
            return hasattr(o, n)
        if f is int:
            if isinstance(a0, SI):
                return a0
            if isinstance(a0, SB):
                return SI(self.bv(a0))
            if hasattr(a0, "e2_int"):
                return a0.e2_int(self)
        if f is bool:
            if hasattr(a0, "e2_bool"):
                return a0.e2_bool(self)
            if is_sym(a0):
                return SB(self.bo(a0))
            if isinstance(a0, Rec):
                return True
        if f is abs and isinstance(a0, SI):
            self.side(a0.e != self.val(-(1 << (self.W - 1))))
            return SI(z3.If(a0.e < 0, -a0.e, a0.e))
        if f in (min, max) and len(args) >= 2 and all(isinstance(x, (SI, int)) for x in args):
            acc = args[0]
            for x in args[1:]:
                c = self.bv(x) < self.bv(acc) if f is min else self.bv(x) > self.bv(acc)
                acc = SI(self.ite(self.fold(c), self.bv(x), self.bv(acc)))
            return acc
        if f is bin and isinstance(a0, SI):
            return SymBin(a0)
        if f is len and not is_sym(a0):
            return len(a0)
        if f in (list, tuple, enumerate, zip, reversed, iter, sorted) and not any(is_sym(x) for x in args):
            if f is sorted:
                raise NotEncodable("sorted() of symbolic data")
            r = f(*args, **kwargs)
            return list(r) if f in (enumerate, zip, reversed, iter) else r
        if f is range:
            raise NotEncodable("range() with a symbolic bound")
        if f is type and len(args) == 1:
            if isinstance(a0, Rec):
                return a0.cls
            if isinstance(a0, SI):
                return int
            if isinstance(a0, SB):
                return bool
        if f in (str, repr, hash, format, print):
            raise NotEncodable(f"{f.__name__}() of symbolic data")
        raise NotEncodable(f"call of {getattr(f, '__name__', f)!r} with symbolic arguments")

    def isinst(self, o, cls):
        if isinstance(cls, tuple):
            return any(self.isinst(o, c) for c in cls)
        if isinstance(o, Rec):
            return issubclass(o.cls, cls)
        if isinstance(o, SI):
            return issubclass(int, cls)
        if isinstance(o, SB):
            return issubclass(bool, cls)
        if hasattr(o, "e2_isinstance"):
            return o.e2_isinstance(cls)
        return isinstance(o, cls)

    def method(self, o, name, args, kwargs=None):
        """o.name(*args) for a record or a real object of a modelled class"""
        cls = o.cls if isinstance(o, Rec) else type(o)
        m = inspect.getattr_static(cls, name)
        if isinstance(m, (staticmethod,)):
            return self.invoke(m.__func__, args, kwargs)
        if isinstance(m, (classmethod,)):
            return self.invoke(m.__func__, [cls] + list(args), kwargs)
        return self.invoke(m, [o] + list(args), kwargs)

    def getattr(self, o, name):
        if isinstance(o, Rec):
            if name in o.f:
                return o.f[name]
            if name == "__class__":
                return o.cls
            try:
                p = inspect.getattr_static(o.cls, name)
            except AttributeError:
                raise _TargetRaise("AttributeError")
            if isinstance(p, property):
                return self.invoke(p.fget, [o])
            if inspect.isfunction(p):
                return BoundRec(o, p)
            if isinstance(p, staticmethod):
                return p.__func__
            return p
        if isinstance(o, SI):
            if name == "bit_length":
                return _Helper(lambda: self.bit_length(o))
            if name == "bit_count":
                return _Helper(lambda: self.popcount(o))
            if name in ("real", "numerator"):
                return o
            raise NotEncodable(f"int.{name} on a symbolic int")
        if isinstance(o, SymBin):
            if name == "count":
                def count(s):
                    if s == "1":
                        return self.popcount(o.x)
                    raise NotEncodable("bin(x).count of something else than '1'")
                return _Helper(count)
            raise NotEncodable(f"bin(x).{name}")
        for c in type(o).__mro__:
            if (c, name) in self.attr_stubs:
                return self.attr_stubs[(c, name)]
        if type(o) in self.classes:
            # property of a real object of a modelled class: interpret when it is a mutant
            try:
                p = inspect.getattr_static(type(o), name)
            except AttributeError:
                p = None
            if isinstance(p, property) and (p.fget in self.mutants or p.fget in self.always_interpret):
                return self.invoke(p.fget, [o])
        try:
            return getattr(o, name)
        except AttributeError:
            raise _TargetRaise("AttributeError")
        except (z3.Z3Exception, MemoryError, RecursionError, NotEncodable, Inconclusive, Unwind):
            raise
        except Exception as e:
            raise _TargetRaise(type(e).__name__)

    # -- statements ------------------------------------------------------------------------------
    def block(self, stmts, fr):
        for s in stmts:
            if self.g is False:
                raise _Dead()
            self.stmt(s, fr)

    def stmt(self, s, fr):
        g_stmt = self.g
        try:
            self._stmt(s, fr)
        except _TargetRaise as e:
            # the exception leaves this statement under the guard that was current where it was raised;
            # a narrower guard (short-circuit operand, conditional expression) would silently drop the
            # other states of this statement, so that is refused instead of approximated
            if e.g is not None and e.g is not self.g and not (isinstance(e.g, bool) and e.g == self.g):
                same = (not isinstance(e.g, bool)) and (not isinstance(self.g, bool)) and e.g.eq(self.g)
                if not same:
                    raise NotEncodable(f"{e.name} raised under a partial guard inside an expression")
            if self.g is not False:
                self.raise_under(self.g, e.name)
            self.g = False
            raise _Dead()

    def _stmt(self, s, fr):
        if isinstance(s, ast.Expr):
            if isinstance(s.value, ast.Constant):
                return
            self.ev(s.value, fr)
            return
        if isinstance(s, ast.Pass):
            return
        if isinstance(s, ast.Return):
            v = self.ev(s.value, fr) if s.value is not None else None
            if self.g is not False:
                fr.rets.append((self.g, v, self.merge_stack[-1] if self.merge_stack else None))
            self.g = False
            raise _Dead()
        if isinstance(s, ast.Break):
            if not fr.loops:
                raise NotEncodable("break outside loop")
            fr.loops[-1]["breaks"].append((self.g, fr.loc))
            self.g = False
            raise _Dead()
        if isinstance(s, ast.Continue):
            fr.loops[-1]["conts"].append((self.g, fr.loc))
            self.g = False
            raise _Dead()
        if isinstance(s, ast.Raise):
            name = "Exception"
            e = s.exc
            if isinstance(e, ast.Call):
                e = e.func
            if isinstance(e, ast.Name):
                name = e.id
            elif isinstance(e, ast.Attribute):
                name = e.attr
            raise _TargetRaise(name)
        if isinstance(s, ast.Assert):
            c = self.cond(self.ev(s.test, fr))
            if is_sym(c):
                ce = self.fold(self.bo(c))
                if self.raise_under(g_and(self.g, z3.Not(ce)), "AssertionError"):
                    self.g = g_and(self.g, ce)
            elif not c:
                raise _TargetRaise("AssertionError")
            return
        if isinstance(s, ast.Assign):
            v = self.ev(s.value, fr)
            for t in s.targets:
                self.assign(t, v, fr)
            return
        if isinstance(s, ast.AnnAssign):
            if s.value is not None:
                self.assign(s.target, self.ev(s.value, fr), fr)
            return
        if isinstance(s, ast.AugAssign):
            cur = self.ev(s.target, fr)
            v = self.arith(type(s.op), cur, self.ev(s.value, fr))
            self.assign(s.target, v, fr)
            return
        if isinstance(s, ast.If):
            return self.do_if(s, fr)
        if isinstance(s, ast.While):
            return self.do_loop(s, fr, None)
        if isinstance(s, ast.For):
            it = self.ev(s.iter, fr)
            if is_sym(it) or isinstance(it, Rec):
                raise NotEncodable("iteration over a symbolic value")
            return self.do_loop(s, fr, list(it))
        if isinstance(s, (ast.Import, ast.ImportFrom)):
            raise NotEncodable("import inside interpreted code")
        raise NotEncodable(f"statement {type(s).__name__}")

    def assign(self, t, v, fr):
        if isinstance(t, ast.Name):
            fr.loc[t.id] = v
        elif isinstance(t, ast.Attribute):
            o = self.ev(t.value, fr)
            if t.attr in self.drop_attr_stores:
                return                                 # memo attribute (stub): the store is dropped, hasattr stays False
            if not isinstance(o, Rec):
                raise NotEncodable(f"attribute store on a real object ({type(o).__name__}.{t.attr})")
            if self.g is not True and t.attr not in o.f:
                fresh = o.born is self.g or (not isinstance(o.born, bool) and not isinstance(self.g, bool) and o.born.eq(self.g))
                if not fresh:
                    # a record has a fixed set of fields: creating one under a narrower guard cannot be merged
                    self._fail_merge(self.merge_stack[-1:])
            elif self.g is not True:
                try:
                    v = self.merge(g_expr(self.g), v, o.f[t.attr])
                except _MergeFail:
                    self._fail_merge(self.merge_stack[-1:])
            o.f[t.attr] = v
        elif isinstance(t, (ast.Tuple, ast.List)):
            if isinstance(v, (SI, SB, Rec)):
                raise _TargetRaise("TypeError")
            vs = list(v)
            if len(vs) != len(t.elts):
                raise _TargetRaise("ValueError")
            for tt, vv in zip(t.elts, vs):
                self.assign(tt, vv, fr)
        elif isinstance(t, ast.Subscript):
            o = self.ev(t.value, fr)
            i = self.ev(t.slice, fr)
            if isinstance(o, NullCache):
                return
            if is_sym(i):
                raise NotEncodable("store at a symbolic index")
            if hasattr(o, "e2_store"):
                o.e2_store(self, i, v, self.g)
                return
            if isinstance(o, (list, dict)):
                if isinstance(o, NullCache):
                    return
                if self.g is not True:
                    try:
                        old = o[i]
                        v = self.merge(g_expr(self.g), v, old)
                    except (KeyError, IndexError, _MergeFail):
                        self._fail_merge(self.merge_stack[-1:])
                try:
                    o[i] = v
                except (z3.Z3Exception, MemoryError, RecursionError, NotEncodable, Inconclusive, Unwind):
                    raise
                except Exception as e:
                    raise _TargetRaise(type(e).__name__)
                return
            raise NotEncodable(f"subscript store on {type(o).__name__}")
        else:
            raise NotEncodable(f"assignment target {type(t).__name__}")

    @staticmethod
    def _has_exit(stmts):
        for s in stmts:
            if isinstance(s, (ast.Return, ast.Raise)):
                return True
            if isinstance(s, ast.If) and (Interp._has_exit(s.body) or Interp._has_exit(s.orelse)):
                return True
        return False

    @staticmethod
    def _has_jump(stmts):
        for s in stmts:
            if isinstance(s, (ast.Break, ast.Continue)):
                return True
            if isinstance(s, ast.If) and (Interp._has_jump(s.body) or Interp._has_jump(s.orelse)):
                return True
        return False

    def do_if(self, s, fr):
        c = self.cond(self.ev(s.test, fr))
        if not is_sym(c):
            self.block(s.body if (True if isinstance(c, Rec) else c) else s.orelse, fr)
            return
        ce = self.fold(self.bo(c))
        if z3.is_true(ce) or z3.is_false(ce):
            self.block(s.body if z3.is_true(ce) else s.orelse, fr)
            return
        g = self.g
        fork = id(s) in self.nomerge
        if not fork and fr.loops and fr.loops[-1]["mode"] == "fork" and (self._has_jump(s.body) or self._has_jump(s.orelse)):
            fork = True
        if not fork and self.fork_on_return and (self._has_exit(s.body) or self._has_exit(s.orelse)):
            fork = True
        if fork:
            if self.decide_guarded(ce):
                self.block(s.body, fr)
            else:
                self.block(s.orelse, fr)
            return
        self.merge_stack.append(s)
        loc0 = fr.loc
        la = dict(loc0)
        fr.loc = la
        self.g = g_and(g, ce)
        try:
            self.block(s.body, fr)
            ga = self.g
        except _Dead:
            ga = False
        la = fr.loc
        lb = dict(loc0)
        fr.loc = lb
        self.g = g_and(g, z3.Not(ce))
        try:
            self.block(s.orelse, fr)
            gb = self.g
        except _Dead:
            gb = False
        lb = fr.loc
        self.merge_stack.pop()
        if ga is False and gb is False:
            self.g = False
            fr.loc = loc0
            raise _Dead()
        if ga is False:
            fr.loc = lb
            self.g = gb
            return
        if gb is False:
            fr.loc = la
            self.g = ga
            return
        new = {}
        try:
            for k in list(la.keys()) + [k for k in lb if k not in la]:
                if k in la and k in lb:
                    new[k] = self.merge(ce, la[k], lb[k])
                else:
                    new[k] = la[k] if k in la else lb[k]
        except _MergeFail:
            self._fail_merge([s])
        fr.loc = new
        if ga is True or gb is True:
            self.g = True
        else:
            # keep the guard syntactically small when nothing left the arms
            self.g = g if self._same_split(g, ce, ga, gb) else g_or([ga, gb])

    @staticmethod
    def _same_split(g, ce, ga, gb):
        def same(x, y):
            if isinstance(x, bool) or isinstance(y, bool):
                return x is y
            return x.eq(y)
        return same(ga, g_and(g, ce)) and same(gb, g_and(g, z3.Not(ce)))

    def loop_mode_for(self, fr, s):
        if id(s) in self.nomerge:
            return "fork"
        return self.loop_mode.get(fr.qual, self.default_loop)

    def do_loop(self, s, fr, items):
        """while (items is None) and for (items = concrete list) share the guarded machinery"""
        if s.orelse:
            raise NotEncodable("loop with else clause")
        mode = self.loop_mode_for(fr, s)
        lp = dict(mode=mode, breaks=[], conts=[], node=s)
        fr.loops.append(lp)
        g_in = self.g
        n_ret, n_raise = len(fr.rets), len(self.ctx.raises)
        exits = []            # guards under which the loop was left normally
        it = 0
        pushed = False
        escaped = False       # did some states leave the previous iteration's body (break/return/raise)?
        learned = [False]
        try:
            while True:
                if self.g is False:
                    break
                if items is not None:
                    if it >= len(items):
                        exits.append(self.g)
                        break
                    self.assign(s.target, items[it], fr)
                    body_guard = self.g
                else:
                    if escaped and self.g is not True and not self.loop_alive(s, it, self.g, learned, fr.qual):
                        self.g = False
                        break
                    c = self.cond(self.ev(s.test, fr))
                    if not is_sym(c):
                        if not (True if isinstance(c, Rec) else c):
                            exits.append(self.g)
                            break
                        body_guard = self.g
                    else:
                        ce = self.fold(self.bo(c))
                        if z3.is_false(ce):
                            exits.append(self.g)
                            break
                        if z3.is_true(ce):
                            body_guard = self.g
                        elif mode == "fork":
                            if not self.decide_guarded(ce):
                                exits.append(self.g)
                                break
                            body_guard = self.g
                        else:
                            gc = g_and(self.g, ce)
                            if not self.loop_alive(s, it, gc, learned, fr.qual):
                                exits.append(self.g)
                                break
                            exits.append(g_and(self.g, z3.Not(ce)))
                            body_guard = gc
                if items is None and it >= self.max_unroll:
                    raise Unwind(f"unwinding assertion failed in {fr.qual} (bound {self.max_unroll})")
                it += 1
                # ---- one iteration under body_guard; states outside body_guard keep their values ---
                pre = fr.loc
                partial = body_guard is not self.g
                if partial:
                    self.merge_stack.append(s)
                    pushed = True
                fr.loc = dict(pre)
                self.g = body_guard
                lp["conts"] = []
                try:
                    self.block(s.body, fr)
                    g_end = self.g
                except _Dead:
                    g_end = False
                post = fr.loc
                # continue-states rejoin at the end of the body
                try:
                    for gc_, lc in lp["conts"]:
                        if g_end is False:
                            post, g_end = lc, gc_
                        else:
                            post = self._merge_env(g_expr(gc_), lc, post)
                            g_end = g_or([g_end, gc_])
                    if partial:
                        self.merge_stack.pop()
                        pushed = False
                        if g_end is False:
                            post = pre
                        else:
                            post = self._merge_env(g_expr(body_guard), post, pre)
                except _MergeFail:
                    self._fail_merge([s] + self.merge_stack[-1:])
                fr.loc = post if g_end is not False or partial else pre
                escaped = g_end is not body_guard
                self.g = g_end
        finally:
            fr.loops.pop()
            if pushed:
                self.merge_stack.pop()
        if learned[0]:
            self.unroll_hint[id(s)] = max(self.unroll_hint.get(id(s), 0), it)
        # ---- loop exit: normal exits and breaks -------------------------------------------------
        loc = fr.loc
        g_out = g_or(exits)
        try:
            for gb_, lb_ in lp["breaks"]:
                if g_out is False:
                    loc, g_out = lb_, gb_
                else:
                    loc = self._merge_env(g_expr(gb_), lb_, loc)
                    g_out = g_or([g_out, gb_])
        except _MergeFail:
            self._fail_merge([s] + self.merge_stack[-1:])
        fr.loc = loc
        if g_out is False:
            self.g = False
            raise _Dead()
        if len(fr.rets) == n_ret and len(self.ctx.raises) == n_raise and g_out is not True:
            g_out = g_in                       # nothing escaped: same set of states as at loop entry
        self.g = g_out

    def _merge_env(self, c, la, lb):
        new = {}
        for k in list(la.keys()) + [k for k in lb if k not in la]:
            if k in la and k in lb:
                new[k] = self.merge(c, la[k], lb[k])
            else:
                new[k] = la[k] if k in la else lb[k]
        return new

    # -- expressions -----------------------------------------------------------------------------
    def arith(self, op, a, b):
        if isinstance(a, Rec) or type(a) in self.classes or isinstance(b, Rec) or type(b) in self.classes:
            name = _DUNDER[op]
            cls = a.cls if isinstance(a, Rec) else type(a)
            r = NotImplemented
            if (isinstance(a, Rec) or type(a) in self.classes) and hasattr(cls, name):
                r = self.method(a, name, [b])
            if r is NotImplemented:
                rcls = b.cls if isinstance(b, Rec) else type(b)
                rname = "__r" + name[2:]
                if (isinstance(b, Rec) or type(b) in self.classes) and hasattr(rcls, rname):
                    r = self.method(b, rname, [a])
            if r is NotImplemented:
                raise _TargetRaise("TypeError")
            return r
        if hasattr(a, "e2_binop"):
            return a.e2_binop(self, op, b)
        if hasattr(b, "e2_rbinop"):
            return b.e2_rbinop(self, op, a)
        try:
            return self.binop(op, a, b)
        except ZeroDivisionError:
            raise _TargetRaise("ZeroDivisionError")
        except (TypeError, ValueError, OverflowError) as e:
            raise _TargetRaise(type(e).__name__)

    _FLIP = {ast.Lt: ast.Gt, ast.Gt: ast.Lt, ast.LtE: ast.GtE, ast.GtE: ast.LtE, ast.Eq: ast.Eq, ast.NotEq: ast.NotEq}

    def cond(self, c):
        """truth-value view of stub objects (0-d / boolean tensor models) wherever Python would call bool()"""
        if hasattr(c, "e2_bool"):
            return c.e2_bool(self)
        return c

    def compare(self, op, l, r):
        if hasattr(l, "e2_compare") and op in self._FLIP:
            return l.e2_compare(self, op, r)
        if hasattr(r, "e2_compare") and op in self._FLIP:
            return r.e2_compare(self, self._FLIP[op], l)
        if (isinstance(l, Rec) or isinstance(r, Rec) or ((type(l) in self.classes or type(r) in self.classes) and (sym_deep(l) or sym_deep(r)))) \
                and op in (ast.Eq, ast.NotEq):
            res = NotImplemented
            if isinstance(l, Rec) or type(l) in self.classes:
                res = self.method(l, "__eq__", [r])
            if res is NotImplemented and (isinstance(r, Rec) or type(r) in self.classes):
                res = self.method(r, "__eq__", [l])
            if res is NotImplemented:
                res = l is r
            if op is ast.NotEq:
                res = SB(z3.Not(self.bo(res))) if is_sym(res) else (not res)
            return res
        if (isinstance(l, Rec) or isinstance(r, Rec)) and op in (ast.Is, ast.IsNot):
            return (l is r) if op is ast.Is else (l is not r)
        if isinstance(l, Rec) or isinstance(r, Rec):
            raise NotEncodable("ordering comparison on records")
        try:
            return self.cmpop(op, l, r)
        except TypeError:
            raise _TargetRaise("TypeError")

    def ev(self, e, fr):
        if isinstance(e, ast.Constant):
            return e.value
        if isinstance(e, ast.Name):
            if e.id in fr.loc:
                return fr.loc[e.id]
            if e.id in fr.env:
                return fr.env[e.id]
            if hasattr(builtins, e.id):
                return getattr(builtins, e.id)
            raise _TargetRaise("NameError")
        if isinstance(e, ast.Tuple):
            return tuple(self.ev(x, fr) for x in e.elts)
        if isinstance(e, ast.List):
            return [self.ev(x, fr) for x in e.elts]
        if isinstance(e, ast.BinOp):
            return self.arith(type(e.op), self.ev(e.left, fr), self.ev(e.right, fr))
        if isinstance(e, ast.UnaryOp):
            v = self.ev(e.operand, fr)
            if isinstance(e.op, ast.Not):
                v = self.cond(v)
                if is_sym(v):
                    return SB(z3.Not(self.bo(v)))
                return False if isinstance(v, Rec) else (not v)
            if isinstance(e.op, ast.USub):
                if isinstance(v, (SI, SB)):
                    x = self.bv(v)
                    self.side(x != self.val(-(1 << (self.W - 1))))
                    return self.mk_si(-x)
                return -v
            if isinstance(e.op, ast.Invert):
                if hasattr(v, "e2_invert"):
                    return v.e2_invert(self)
                if isinstance(v, (SI, SB)):
                    return self.mk_si(~self.bv(v))
                return ~v
            if isinstance(e.op, ast.UAdd):
                return v
        if isinstance(e, ast.BoolOp):
            is_or = isinstance(e.op, ast.Or)
            g0 = self.g
            conds = []
            try:
                for i, x in enumerate(e.values):
                    v = self.cond(self.ev(x, fr))
                    if not is_sym(v):
                        t = True if isinstance(v, Rec) else bool(v)
                        if (is_or and t) or (not is_or and not t):
                            # short-circuit here: the value is v when all earlier symbolic operands let us through
                            if not conds:
                                return v
                            conds.append(z3.BoolVal(t))
                            break
                        if i == len(e.values) - 1 and not conds:
                            return v
                        continue
                    c = self.bo(v)
                    conds.append(c)
                    # later operands are only evaluated when this one does not decide
                    self.g = g_and(self.g, z3.Not(c) if is_or else c)
            finally:
                self.g = g0
            if not conds:
                return not is_or
            return SB(z3.Or(conds) if is_or else z3.And(conds))
        if isinstance(e, ast.Compare):
            l = self.ev(e.left, fr)
            res = None
            for op, rn in zip(e.ops, e.comparators):
                r = self.ev(rn, fr)
                c = self.compare(type(op), l, r)
                if res is None:
                    res = c
                elif is_sym(res) or is_sym(c):
                    res = SB(z3.And(self.bo(res), self.bo(c)))
                else:
                    res = res and c
                l = r
            return res
        if isinstance(e, ast.IfExp):
            c = self.cond(self.ev(e.test, fr))
            if not is_sym(c):
                return self.ev(e.body if (True if isinstance(c, Rec) else c) else e.orelse, fr)
            ce = self.fold(self.bo(c))
            if z3.is_true(ce):
                return self.ev(e.body, fr)
            if z3.is_false(ce):
                return self.ev(e.orelse, fr)
            g0 = self.g
            try:
                self.g = g_and(g0, ce)
                a = self.ev(e.body, fr)
                self.g = g_and(g0, z3.Not(ce))
                b = self.ev(e.orelse, fr)
            finally:
                self.g = g0
            try:
                return self.merge(ce, a, b)
            except _MergeFail:
                raise NotEncodable("conditional expression with unmergeable arms")
        if isinstance(e, ast.Attribute):
            return self.getattr(self.ev(e.value, fr), e.attr)
        if isinstance(e, ast.Subscript):
            o = self.ev(e.value, fr)
            i = self.ev(e.slice, fr)
            if isinstance(i, SI):
                if isinstance(o, (list, tuple)) and len(o) > 0:
                    ie = i.e
                    bad = z3.Or(ie < -len(o), ie >= len(o))
                    if self.raise_under(g_and(self.g, self.fold(bad)), "IndexError"):
                        self.g = g_and(self.g, z3.Not(bad))
                    acc = o[-1]
                    try:
                        for k in range(len(o) - 2, -1, -1):
                            acc = self.merge(z3.Or(ie == k, ie == k - len(o)), o[k], acc)
                    except _MergeFail:
                        raise NotEncodable("symbolic index into a list of unmergeable values")
                    return acc
                raise NotEncodable("symbolic index")
            if hasattr(o, "e2_getitem"):
                return o.e2_getitem(self, i)
            if is_sym(o) or isinstance(o, Rec):
                raise NotEncodable("subscript of a symbolic value")
            try:
                return o[i]
            except (z3.Z3Exception, MemoryError, RecursionError, NotEncodable, Inconclusive, Unwind):
                raise
            except Exception as ex:
                raise _TargetRaise(type(ex).__name__)
        if isinstance(e, ast.Slice):
            lo = self.ev(e.lower, fr) if e.lower else None
            hi = self.ev(e.upper, fr) if e.upper else None
            st = self.ev(e.step, fr) if e.step else None
            if is_sym(lo) or is_sym(hi) or is_sym(st):
                raise NotEncodable("symbolic slice")
            return slice(lo, hi, st)
        if isinstance(e, ast.Call):
            f = self.ev(e.func, fr)
            args = []
            for a in e.args:
                if isinstance(a, ast.Starred):
                    args.extend(self.ev(a.value, fr))
                else:
                    args.append(self.ev(a, fr))
            kwargs = {}
            for k in e.keywords:
                if k.arg is None:
                    raise NotEncodable("**kwargs call")
                kwargs[k.arg] = self.ev(k.value, fr)
            # list/dict mutation through methods is only allowed when no guard is pending
            if inspect.isbuiltin(f) and isinstance(getattr(f, "__self__", None), (list, dict, set)) and \
                    f.__name__ in ("append", "extend", "insert", "pop", "remove", "clear", "add", "update", "setdefault", "sort", "reverse"):
                if self.g is not True:
                    self._fail_merge(self.merge_stack[-1:])
                return f(*args, **kwargs)
            return self.invoke(f, args, kwargs)
        if isinstance(e, ast.JoinedStr):
            parts = []
            for v in e.values:
                if isinstance(v, ast.Constant):
                    parts.append(str(v.value))
                else:
                    x = self.ev(v.value, fr)
                    parts.append("<symbolic>" if sym_deep(x) else format(x))
            return "".join(parts)
        if isinstance(e, (ast.ListComp, ast.GeneratorExp)):
            if len(e.generators) != 1 or e.generators[0].is_async:
                raise NotEncodable("nested comprehension")
            gen = e.generators[0]
            it = self.ev(gen.iter, fr)
            if is_sym(it) or isinstance(it, Rec):
                raise NotEncodable("comprehension over a symbolic value")
            out = []
            saved = fr.loc
            fr.loc = dict(saved)
            try:
                for x in list(it):
                    self.assign(gen.target, x, fr)
                    keep = True
                    for cnd in gen.ifs:
                        if not self.truth(self.ev(cnd, fr)):
                            keep = False
                            break
                    if keep:
                        out.append(self.ev(e.elt, fr))
            finally:
                fr.loc = saved
            return out
        raise NotEncodable(f"expression {type(e).__name__}")

    def run_concrete(self, fn, fixed, xs):
        """translator validation primitive: interpret fn(*fixed, *xs) with every x wrapped as a symbolic
        constant; returns ('value', v) | ('raised', name) | ('paths', n)"""
        old = self.const_mode
        self.const_mode = True
        try:
            ps = self.explore(lambda: self.call(fn, list(fixed) + [SI(self.val(x)) for x in xs]))
        finally:
            self.const_mode = old
        if len(ps) != 1:
            return ("paths", len(ps))
        p = ps[0]
        if p.dead:
            return ("raised", p.raises[-1][1] if p.raises else "?")
        return ("value", self.concretize(p.result))

    # -- concretisation --------------------------------------------------------------------------
    def concretize(self, v, model=None):
        """python value of an interpreter value (under a model, or for constant expressions)"""
        if isinstance(v, SI):
            e = model.eval(v.e, model_completion=True) if model is not None else z3.simplify(v.e)
            if not z3.is_bv_value(e):
                raise NotEncodable("value is not constant")
            return e.as_signed_long()
        if isinstance(v, SB):
            e = model.eval(v.e, model_completion=True) if model is not None else z3.simplify(v.e)
            if z3.is_true(e):
                return True
            if z3.is_false(e):
                return False
            raise NotEncodable("value is not constant")
        if isinstance(v, Rec):
            o = v.cls.__new__(v.cls) if v.cls.__new__ is object.__new__ else object.__new__(v.cls)
            for k, x in v.f.items():
                object.__setattr__(o, k, self.concretize(x, model))
            return o
        if isinstance(v, tuple):
            return tuple(self.concretize(x, model) for x in v)
        if isinstance(v, list):
            return [self.concretize(x, model) for x in v]
        if hasattr(v, "e2_concretize"):
            return v.e2_concretize(self, model)
        return v


# ------------------------------------------------------------------------------------------------
# AST mutation helpers (in-memory mutants; /repo is never edited)
# ------------------------------------------------------------------------------------------------
def mutant_of(fn, transform):
    """parse fn's real source and return a transformed deep copy of its FunctionDef.
    `transform(node) -> bool` must report whether it changed something."""
    fn = getattr(fn, "__wrapped__", fn)
    node = ast.parse(textwrap.dedent(inspect.getsource(fn))).body[0]
    if not transform(node):
        raise RuntimeError(f"mutation did not apply to {fn.__qualname__}")
    ast.fix_missing_locations(node)
    return node


def mut_replace_binop(from_op, to_op, nth=0):
    def tr(node):
        k = 0
        for n in ast.walk(node):
            if isinstance(n, (ast.BinOp, ast.AugAssign)) and isinstance(n.op, from_op):
                if k == nth:
                    n.op = to_op()
                    return True
                k += 1
        return False
    return tr


def mut_drop_augassign(op, nth=0):
    """replace the nth `x <op>= y` by `pass`"""
    def tr(node):
        k = 0
        for parent in ast.walk(node):
            for fld in ("body", "orelse"):
                lst = getattr(parent, fld, None)
                if not isinstance(lst, list):
                    continue
                for i, s in enumerate(lst):
                    if isinstance(s, ast.AugAssign) and isinstance(s.op, op):
                        if k == nth:
                            lst[i] = ast.Pass()
                            return True
                        k += 1
        return False
    return tr


def mut_special_case(argname, literal, result_src):
    """insert `if <arg> == literal: return <result_src>` at the top of the function"""
    def tr(node):
        stmt = ast.parse(f"if {argname} == {literal}:\n    return {result_src}").body[0]
        i = 0
        if node.body and isinstance(node.body[0], ast.Expr) and isinstance(node.body[0].value, ast.Constant):
            i = 1
        node.body.insert(i, stmt)
        return True
    return tr


def mut_constant(old, new, nth=0):
    def tr(node):
        k = 0
        for n in ast.walk(node):
            if isinstance(n, ast.Constant) and type(n.value) is type(old) and n.value == old:
                if k == nth:
                    n.value = new
                    return True
                k += 1
        return False
    return tr


def compile_mutant(fn, node):
    """real python function compiled from a mutant node (to replay a mutant witness natively)"""
    fn = getattr(fn, "__wrapped__", fn)
    mod = ast.Module(body=[node], type_ignores=[])
    ast.fix_missing_locations(mod)
    ns = {}
    exec(compile(mod, f"<mutant of {fn.__qualname__}>", "exec"), fn.__globals__, ns)
    return ns[node.name]


# ------------------------------------------------------------------------------------------------
# obligations: reachability twin / negated property / replay
# ------------------------------------------------------------------------------------------------
RLIMIT_PER_S = 4_000_000      # z3 resource units per second of solver work on an idle core (calibrated: 3.3 - 4.2 M/s)
WALL_FACTOR = 25              # wall-clock backstop = nominal timeout x this factor


def limit(s, timeout_ms):
    """Solver limits that do not depend on machine load: the nominal timeout is converted into z3's deterministic
    resource limit (rlimit); the wall-clock timeout is only a far backstop.  The same query therefore gets the
    same verdict on an idle and on a heavily shared machine - only the wall time differs."""
    s.set("rlimit", int(timeout_ms / 1000.0 * RLIMIT_PER_S))
    s.set("timeout", int(timeout_ms * WALL_FACTOR))
    return s


def _solver(timeout_ms):
    return limit(z3.SolverFor("QF_BV"), timeout_ms)


def _timed(tally, s, *assumptions):
    t0 = time.time()
    r = s.check(*assumptions)
    if tally is not None:
        tally.count(str(r), time.time() - t0)
    return r


def cvc5_check(smt2, timeout_ms=60000):
    """re-decide an exported query with cvc5; returns 'sat' | 'unsat' | 'unknown'"""
    import cvc5
    tm = cvc5.TermManager() if hasattr(cvc5, "TermManager") else None
    slv = cvc5.Solver(tm) if tm is not None else cvc5.Solver()
    slv.setOption("tlimit-per", str(int(timeout_ms)))
    slv.setLogic("QF_BV")
    parser = cvc5.InputParser(slv)
    parser.setStringInput(cvc5.InputLanguage.SMT_LIB_2_6, smt2, "q")
    sm = parser.getSymbolManager()
    res = "unknown"
    while True:
        cmd = parser.nextCommand()
        if cmd.isNull():
            break
        out = cmd.invoke(slv, sm)
        out = str(out).strip()
        if out in ("sat", "unsat", "unknown"):
            res = out
    return res


def minimize_model(s, variables, tally=None, budget_s=20.0):
    """canonical witness: lexicographically least values of `variables` (unsigned), most significant
    bit first, by solver queries on the already-satisfiable solver state `s` (inside push/pop)."""
    t_end = time.time() + budget_s
    s.push()
    try:
        if _timed(tally, s) != z3.sat:
            return None
        for v in variables:
            n = v.size()
            for i in range(n - 1, -1, -1):
                if time.time() > t_end:
                    break
                bit = z3.Extract(i, i, v)
                r = _timed(tally, s, bit == 0)
                if r == z3.sat:
                    s.add(bit == 0)
                elif r == z3.unsat:
                    s.add(bit == 1)
                else:
                    break
        r = _timed(tally, s)
        return s.model() if r == z3.sat else None
    finally:
        s.pop()


def prove(I, thunk, assumptions, variables, native, tally, timeout_s=60, expect=None, on_witness=None,
          minimize=True, max_witnesses=6, cross_check=None, cross_timeout_ms=4000, initial_blocks=()):
    """Decide `thunk` (an interpreted law returning a truth value) for all values of `variables`
    satisfying `assumptions`.

    variables : dict name -> z3 BitVec (the symbolic inputs)
    native    : callable(**ints) -> (holds: bool, info) running the same law on the real code
    on_witness: callable(witness dict) -> z3 Bool blocking clause, or None to stop after this witness
    returns dict(status, witnesses, paths, reach_model, note, unsat_exports)
    status: holds | violated | inconclusive | error
    """
    res = dict(status="holds", witnesses=[], paths=0, note="", reach=None, twin=0, crosschecked=0)
    try:
        paths = I.explore(thunk, assumptions)
    except Inconclusive as e:
        res.update(status="inconclusive", note=str(e))
        return res
    except (NotEncodable, Unwind) as e:
        res.update(status="error", note=f"{type(e).__name__}: {e}")
        return res
    res["paths"] = len(paths)
    tally.paths += len(paths)
    for p in paths:
        tally.q["decide"] = tally.q.get("decide", 0) + p.decide_queries
        tally.solver_s += p.decide_s
    if not paths:
        res.update(status="error", note="no feasible path (vacuous harness)")
        return res
    names = list(variables)
    to_ms = int(timeout_s * 1000)

    def vals_of(m):
        # variables are W-bit signed views of Python ints
        return {n: m.eval(variables[n], model_completion=True).as_signed_long() for n in names}

    blocks = list(initial_blocks)   # blocking clauses of recorded known findings hold on every path
    for p in sorted(paths, key=lambda q: len(q.pc)):
        base = list(p.assumptions) + list(p.pc)

        def fresh(*extra):
            # one solver per query: a solver that has seen check-with-assumptions or push/pop switches to
            # z3's incremental core, which is much weaker on these formulas than the one-shot QF_BV tactic
            s_ = _solver(to_ms)
            s_.add(*base)
            s_.add(*extra)
            return s_

        # side conditions: BV arithmetic == Python int arithmetic on this path
        # (each is a local fact; one query over all of them at once makes z3 search a huge disjunction, so they
        # are discharged in chunks)
        chunk = max(1, len(p.side))
        r_all = None
        if p.side:
            s = fresh(z3.Not(z3.And(p.side)) if len(p.side) > 1 else z3.Not(p.side[0]))
            r_all = _timed(tally, s)
            if r_all == z3.sat:
                m = s.model()
                res.update(status="error", note=f"no-overflow/coverage side condition violated (width {I.W}) at {vals_of(m)}")
                return res
            chunk = 24                      # undecided as one query: discharge in chunks
        for k0 in range(0, len(p.side) if r_all == z3.unknown else 0, chunk):
            part = p.side[k0:k0 + chunk]
            s = fresh(z3.Not(z3.And(part)) if len(part) > 1 else z3.Not(part[0]))
            r = _timed(tally, s)
            if r == z3.unknown and len(part) > 1:       # retry one by one
                r = z3.unsat
                for c1 in part:
                    s = fresh(z3.Not(c1))
                    r1 = _timed(tally, s)
                    if r1 != z3.unsat:
                        r = r1
                        break
            if r == z3.sat:
                m = s.model()
                res.update(status="error", note=f"no-overflow/coverage side condition violated (width {I.W}) at {vals_of(m)}")
                return res
            if r != z3.unsat:
                res.update(status="inconclusive", note="side-condition query undecided")
                return res
        # (a) reachability / must-fail twin: the same query with the property replaced by False
        s = fresh()
        r = _timed(tally, s)
        if r != z3.sat:
            res.update(status="error" if r == z3.unsat else "inconclusive", note=f"reachability twin returned {r}")
            return res
        res["twin"] += 1
        m = s.model()
        vals = vals_of(m)
        # concolic agreement on this path: interpreted verdict under the model == real code verdict
        raised_e = g_expr(p.raised())
        if p.dead:
            ok_sym = "raised"
        else:
            rb = I.bo(p.result) if is_sym(p.result) else z3.BoolVal(bool(p.result))
            if z3.is_true(m.eval(raised_e, model_completion=True)):
                ok_sym = "raised"
            else:
                ok_sym = bool(z3.is_true(m.eval(rb, model_completion=True)))
        ok_nat, info = native(**vals)
        tally.validated += 1
        if ok_nat != ok_sym:
            res.update(status="error", note=f"concolic disagreement at {vals}: interpreted={ok_sym} real={ok_nat} ({info})")
            return res
        if res["reach"] is None:
            res["reach"] = dict(input=vals, verdict=ok_sym)
        # (b) negated property
        if p.dead:
            bad = z3.BoolVal(True)
        else:
            bad = z3.Or(raised_e, z3.Not(rb))
        if expect == "raises":
            bad = z3.Not(raised_e)
        rounds = 0
        while True:
            s = fresh(bad, *blocks)
            r = _timed(tally, s)
            if r == z3.unsat:
                if cross_check is not None and cross_check():
                    try:
                        t0 = time.time()
                        cr = cvc5_check(s.to_smt2(), timeout_ms=min(to_ms, cross_timeout_ms))
                        tally.count("cvc5-" + cr, time.time() - t0)
                        res["crosschecked"] += 1
                        if cr == "sat":
                            res.update(status="error", note="cvc5 disagrees with z3 (z3: unsat, cvc5: sat)")
                            return res
                    except Exception as e:  # noqa
                        tally.count("cvc5-error", 0.0)
                        res["note"] += f" [cvc5 cross-check failed: {type(e).__name__}: {e}]"
                break
            if r != z3.sat:
                if res["status"] == "holds":
                    res["status"] = "inconclusive"
                res["note"] += f" [negated-property query: {r} after {timeout_s}s]"
                break
            # (c) replay on the real, un-instrumented code
            m = s.model()
            if minimize:
                s2 = _solver(min(to_ms, 5000))
                s2.add(*base)
                s2.add(bad, *blocks)
                mm = minimize_model(s2, [variables[n] for n in names], tally)
                if mm is not None:
                    m = mm
            vals = vals_of(m)
            ok_nat, info = native(**vals)
            want_bad = (ok_nat is not True) if expect != "raises" else (ok_nat != "raised")
            w = dict(vals)
            if not want_bad:
                res.update(status="error", note=f"solver model does not reproduce on the real code: {vals} ({info})")
                res["witnesses"].append(dict(witness=w, info=info, reproduced=False))
                return res
            blk = on_witness(w) if on_witness is not None else None
            if isinstance(blk, tuple):          # ("skip", clause): a consequence of an already recorded finding
                blocks.append(blk[1])
                rounds += 1
                if rounds >= 4 * max_witnesses:
                    res["note"] += " [witness enumeration cut off]"
                    if res["status"] == "holds":
                        res["status"] = "inconclusive"
                    break
                continue
            res["status"] = "violated"
            res["witnesses"].append(dict(witness=w, info=info, reproduced=True))
            rounds += 1
            if blk is None or rounds >= max_witnesses:
                if blk is not None:
                    res["note"] += " [witness enumeration cut off]"
                break
            blocks.append(blk)
        if res["status"] == "error":
            return res
    return res


# ------------------------------------------------------------------------------------------------
# from a decided law to obligation records (shared by the C14-Gray and C18 checks)
# ------------------------------------------------------------------------------------------------
def obligations(pid, clause, config, I, thunk, variables, assumptions, native, tally, *, text="", timeout_s=60,
                expect=None, block_of=None, known=None, cross_check=None, minimize=True, describe=None,
                max_witnesses=8, stretch=False, config_level=False):
    """Run prove() and turn the outcome into obligation dicts (kverif.common.ob).

    Known findings: a witness that matches an entry of known_findings.json (same property, clause, config
    and witness subset) is recorded, *blocked* (block_of(witness) or `inputs != witness`) and the query is
    repeated, so that any other violation of the same clause still surfaces as a new violation."""
    from kverif import common
    if known is None:
        known = common.load_known()

    def as_ob(w):
        what = describe(w["witness"], w["info"]) if describe else f"{text} fails at {w['witness']} ({w['info']})"
        return common.ob(clause, config, "violated", what=what, witness=w["witness"],
                         replay=dict(reproduced=bool(w["reproduced"]), inputs=w["witness"], observed=str(w["info"]), law=text),
                         stretch=stretch)

    def default_block(wit):
        return z3.Or([variables[n] != wit[n] for n in wit if n in variables])

    mk_block = block_of or default_block
    # listed findings of this clause/configuration that carry a witness and still reproduce on the real code:
    # their blocking clause also explains witnesses that are mere consequences (e.g. multiples of a found order)
    verified = []
    for k in known:
        if k.get("property") != pid or k.get("clause") != clause or not k.get("witness"):
            continue
        if ("configs" in k and config not in k["configs"]) or ("configs" not in k and k.get("config") != config):
            continue
        kw = k["witness"]
        if set(kw) != set(variables):
            continue
        ok_nat, _ = native(**kw)
        bad_nat = (ok_nat is not True) if expect != "raises" else (ok_nat != "raised")
        if bad_nat:
            verified.append((kw, mk_block(kw)))

    # a reproduced listed finding whose witness lies outside this item's sub-domain: its consequences inside the
    # sub-domain are excluded from the start (the finding itself is hit by the item that contains the witness)
    pre = []
    if block_of is not None:
        for kw, blk in verified:
            s_ = z3.Solver()
            s_.add(*assumptions)
            s_.add(*[variables[n] == kw[n] for n in kw])
            if s_.check() == z3.unsat:
                pre.append(blk)

    def on_witness(wit):
        probe = dict(clause=clause, config=config, witness=wit)
        if config_level:
            return None         # the listed finding is about the configuration as a whole: one witness is enough
        if common.known_match(known, pid, probe) is not None:
            return mk_block(wit)
        if block_of is not None:
            for kw, blk in verified:
                # is this witness excluded by the blocking clause of a reproduced listed finding?
                s_ = z3.Solver()
                s_.add(blk)
                s_.add(*[variables[n] == wit[n] for n in wit if n in variables])
                if s_.check() == z3.unsat:
                    return ("skip", blk)
        return None

    t0 = time.time()
    try:
        res = prove(I, thunk, assumptions, variables, native, tally, timeout_s=timeout_s, expect=expect,
                    on_witness=on_witness, minimize=minimize, max_witnesses=max_witnesses, cross_check=cross_check,
                    initial_blocks=pre)
    except (NotEncodable, Unwind, Inconclusive) as e:
        st = "inconclusive" if isinstance(e, Inconclusive) else "error"
        return [common.ob(clause, config, st, what=f"{type(e).__name__}: {e}", stretch=stretch, **tally.take())]
    wall = round(time.time() - t0, 2)
    sample = dict(law=text, bound=config, width_bits=I.W, paths=res["paths"], result=res["status"],
                  reachable_example=res["reach"], wall_s=wall, cvc5_crosschecked=res["crosschecked"])
    out = []
    stats = tally.take()
    if res["status"] == "holds":
        what = text + (" [consequences of a listed, reproduced finding outside this sub-domain are excluded]" if pre else "")
        out.append(common.ob(clause, config, "holds", what=what, sample=sample, stretch=stretch, **stats))
        return out
    if res["status"] in ("error", "inconclusive") and not res["witnesses"]:
        out.append(common.ob(clause, config, res["status"], what=res["note"] or res["status"], sample=sample, stretch=stretch, **stats))
        return out
    first = True
    all_known = True
    for w in res["witnesses"]:
        o = as_ob(w)
        if first:
            o.update(stats)
            sample["witness"] = w["witness"]
            o["sample"] = sample
            first = False
        if not w["reproduced"]:
            o["status"] = "violated"      # common.finish turns a non-reproducing model into a harness error
        if common.known_match(known, pid, o) is None:
            all_known = False
        out.append(o)
    if res["status"] == "error":
        out.append(common.ob(clause, config, "error", what=res["note"], stretch=stretch))
    elif res["status"] == "inconclusive":
        out.append(common.ob(clause, config, "inconclusive", what=res["note"], stretch=stretch))
    elif all_known and config_level:
        pass
    elif all_known and "cut off" not in res["note"]:
        blocked = ", ".join(str(w["witness"]) for w in res["witnesses"])
        out.append(common.ob(clause, config + " minus known findings", "holds",
                             what=f"{text}: no further violation once the known findings [{blocked}] are excluded", stretch=stretch))
    elif all_known:
        out.append(common.ob(clause, config, "inconclusive", what="more than the allowed number of known-finding witnesses; enumeration cut off", stretch=stretch))
    return out
