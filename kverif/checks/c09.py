"""C09 — a coded, modulated link over an ideal or bounded-error channel returns the data."""
from __future__ import annotations

import contextlib
import io

import torch
import z3
from torch.utils._python_dispatch import _disable_current_modes

from .. import sym as S
from ..catalog import build_code, cfg, spec, T, modem_specs, build_modem
from ..common import Check, Tally, ob, tier, replay_main, TIER
from ..engine import fresh_bits, fresh_reals, elems
from ..harness import sym_paths, differs, decide, model_bits, model_reals, real_bits
from ..sym import NotEncodable
from .c02 import capability

PID = "C09"


def quiet(f, *a, **k):
    with contextlib.redirect_stdout(io.StringIO()):
        return f(*a, **k)


CODES = {
    "ExtHamming(8,4)": spec("HammingCodeEncoder", mu=3, extended=True),
    "Hamming(7,4)": spec("HammingCodeEncoder", mu=3),
    "BCH(7,4)": spec("BCHCodeEncoder", mu=3, delta=3),
    "Repetition(4)": spec("RepetitionCodeEncoder", repetition_factor=4),
    "SPC(3)": spec("SingleParityCheckCodeEncoder", dimension=3),
    "SPC(5)": spec("SingleParityCheckCodeEncoder", dimension=5),
    "SPC(7)": spec("SingleParityCheckCodeEncoder", dimension=7),
    "Repetition(6)": spec("RepetitionCodeEncoder", repetition_factor=6),
    "LDPC(6,3)": spec("LDPCCodeEncoder", check_matrix=T([[1, 0, 1, 1, 0, 0], [0, 1, 1, 0, 1, 0], [0, 0, 0, 1, 1, 1]])),
}


def mk_decoder(kind, enc):
    from kaira.models.fec import decoders as D
    if kind == "syndrome":
        return D.SyndromeLookupDecoder(enc), False
    if kind == "ml":
        return D.BruteForceMLDecoder(enc), False
    if kind == "bm":
        return D.BerlekampMasseyDecoder(enc), False
    if kind == "wagner":
        return D.WagnerSoftDecisionDecoder(enc), True
    if kind == "minsum":
        return quiet(D.MinSumLDPCDecoder, enc, bp_iters=2), True
    raise ValueError(kind)


def modem_by_name(name):
    return [m for m in modem_specs(max_order=256) if m["name"] == name][0]


def build_link(item, e_sym=None, d_sym=None):
    from kaira.models.channel_code import ChannelCodeModel
    from kaira.constraints import IdentityConstraint
    from kaira.channels import PerfectChannel, LambdaChannel
    if item["code"] == "Polar(8,4)":
        from kaira.models.fec.encoders import PolarCodeEncoder
        from kaira.models.fec.decoders import SuccessiveCancellationDecoder
        enc = quiet(PolarCodeEncoder, 4, 8, frozen_zeros=True)
        dec, soft = quiet(SuccessiveCancellationDecoder, enc, regime="min_sum"), True
    else:
        enc = quiet(build_code, CODES[item["code"]])
        dec, soft = mk_decoder(item["decoder"], enc)
    m = modem_by_name(item["modem"])
    mod, demod = build_modem(m)
    for o in (mod, demod):
        o.eval()
    if soft:
        class SoftDemod(type(demod)):
            pass
        orig_forward = demod.forward
        demod.forward = lambda y, *a, **k: orig_forward(y, item.get("noise_var", 1.0))
    ch_kind = item["channel"]
    if ch_kind == "ideal":
        channel = PerfectChannel()
    elif ch_kind == "flips":
        mod2, demod2 = build_modem(m)

        def flip(y):
            hard = demod2(y)
            return mod2((hard + e_sym()) % 2)
        channel = LambdaChannel(flip)
    else:
        channel = LambdaChannel(lambda y: y + d_sym())
    link = ChannelCodeModel(enc, IdentityConstraint(), mod, channel, demod, dec)
    return link, enc, m


def run_link(item, tl, mutate=None):
    config = item["config"]
    obs = []
    holder = {}
    link, enc, m = build_link(item, e_sym=lambda: holder["e"], d_sym=lambda: holder["d"])
    if mutate:
        mutate(link)
    nb = int(item.get("blocks", 1))          # code blocks sent in one row
    k1, n1 = enc.code_dimension, enc.code_length
    k, n = nb * k1, nb * n1
    t, _ = capability(enc) if item["channel"] == "flips" else (0, "")
    if item["channel"] == "flips" and (t is None or t < 1):
        return []
    nsym = n // m["bps"]

    mdt = getattr(torch, item.get("msg_dtype", "float32"))

    def run(ctx):
        msg = fresh_bits("m", (1, k), mdt)
        if item["channel"] == "flips":
            holder["e"] = fresh_bits("e", (1, n))
        if item["channel"] == "displace":
            holder["d"] = fresh_reals("d", (1, nsym), torch.complex64 if not item["modem"].startswith("BPSK(real") else torch.float32)
        out = link(msg)
        return dict(msg=msg, out=out)
    assume = []
    if item["channel"] == "flips":
        for b in range(nb):
            assume.append(z3.AtMost(*[z3.Bool(f"e{i}") for i in range(b * n1, (b + 1) * n1)], t))
    if item["channel"] == "displace":
        lim = item["dlim"]
        for i in range(nsym):
            for s_ in ("r", "i"):
                assume.append(z3.And(z3.Real(f"d{i}{s_}") > -lim, z3.Real(f"d{i}{s_}") < lim))
    try:
        paths = sym_paths(run, assume, tl, max_paths=600, state=(link,))
    except (RuntimeError, ValueError, IndexError, TypeError, AssertionError) as e:
        if isinstance(e, NotEncodable):
            raise
        return [ob("link returns the message", config, "violated", what=f"pipeline raises: {type(e).__name__}: {str(e)[:120]}", witness={"raises": True}, replay={"reproduced": replay_link(item, None)[0]}, **tl.take())]
    status, viol = "holds", None
    for ctx, R in paths:
        out = elems(R["out"])
        if len(out) != k:
            viol = dict(what=f"{len(out)} bits returned for a {k}-bit message", witness={"len": len(out)}, replay={"reproduced": True})
            status = "violated"
            break
        st, model = decide(ctx, differs(out, elems(R["msg"])))
        if st == "violated" and viol is None:
            w = {"m": model_bits(model, "m", k)}
            if item["channel"] == "flips":
                w["e"] = model_bits(model, "e", n)
            if item["channel"] == "displace":
                w["d"] = [(float(S.zval(model, z3.Real(f"d{i}r"))), float(S.zval(model, z3.Real(f"d{i}i")))) for i in range(nsym)]
            rep, got = replay_link(item, w)
            viol = dict(what=f"message {w['m']}" + (f" with channel bit flips {w['e']}" if "e" in w else "") + (f" with displacements {w['d']}" if "d" in w else "") + f" comes back as {got}", witness=w, replay={"reproduced": rep})
            status = "violated"
        elif st == "inconclusive" and status == "holds":
            status = st
    if viol:
        obs.append(ob("link returns the message", config, "violated", **viol, **tl.take()))
    else:
        obs.append(ob("link returns the message", config, status, sample=dict(query="exists message" + {"ideal": "", "flips": f", <= {t} flipped code bits per block", "displace": ", per-symbol displacement below d_min/2 per axis"}[item["channel"]] + ": ChannelCodeModel(...)(message) != message", paths=len(paths)), **tl.take()))
    return obs


def replay_link(item, w):
    with _disable_current_modes():
        holder = {}
        link, enc, m = build_link(item, e_sym=lambda: holder["e"], d_sym=lambda: holder["d"])
        nb = int(item.get("blocks", 1))
        k, n = nb * enc.code_dimension, nb * enc.code_length
        if w is None:
            g = torch.Generator().manual_seed(0)
            for _ in range(20):
                msg = torch.randint(0, 2, (1, k), generator=g).float()
                holder["e"] = torch.zeros(1, n)
                holder["d"] = torch.zeros(1, n // m["bps"], dtype=torch.complex64)
                try:
                    link(msg)
                except Exception:
                    return True, None
            return False, None
        msg = real_bits(w["m"], (1, k)).to(getattr(torch, item.get("msg_dtype", "float32")))
        if "e" in w:
            holder["e"] = real_bits(w["e"], (1, n))
        if "d" in w:
            holder["d"] = torch.tensor([[complex(a, b) for a, b in w["d"]]], dtype=torch.complex64)
        try:
            out = link(msg)
        except Exception as e:
            return True, f"raises {type(e).__name__}"
        got = [int(round(float(v))) for v in out.flatten().tolist()]
        return got != w["m"], got


def work(item):
    from .. import ops as O
    O.AUTO_TABLE = item["channel"] != "displace"
    tl = Tally()
    try:
        if item.get("selftest"):
            def mutate(link):
                # demodulator's labelling drifts from the modulator's (two labels swapped): each stage is "fine" alone
                bp = link.demodulator.modulator.bit_patterns
                bp[[0, 1]] = bp[[1, 0]].clone()
            it = dict(code="ExtHamming(8,4)", decoder="ml", modem="QPSK(normalize=True)", channel="ideal", config="selftest")
            obs = run_link(it, tl, mutate)
            hit = any(o["status"] == "violated" for o in obs)
            return [ob("selftest:mismatched-labelling-between-stages", "selftest", "holds" if hit else "error", what="" if hit else "mutant not flagged")]
        return run_link(item, tl)
    except NotEncodable as e:
        return [ob("harness", item["config"], "inconclusive" if "unknown" in str(e) else "error", what=f"NotEncodable: {e}", stretch=bool(item.get("stretch")))]
    finally:
        O.AUTO_TABLE = False


def all_items():
    items = []

    def add(code, decoder, modem, channel, **kw):
        it = dict(code=code, decoder=decoder, modem=modem, channel=channel, **kw)
        it["config"] = f"{code}+{decoder} | {modem} | {channel}" + (f" noise_var={kw['noise_var']}" if "noise_var" in kw else "") + (f" {kw['blocks']} blocks per row" if "blocks" in kw else "") + (f" message dtype {kw['msg_dtype']}" if "msg_dtype" in kw else "")
        items.append(it)
    hard_modems8 = ["BPSK", "QPSK(normalize=True)", "QAM16(gray=True,normalize=True)", "PAM4(gray=True,normalize=True)", "PSK4(gray=True)", "QAM4(gray=False,normalize=False)"]
    for md in hard_modems8:
        for dec in ("syndrome", "ml"):
            add("ExtHamming(8,4)", dec, md, "ideal")
            add("ExtHamming(8,4)", dec, md, "flips")
        add("Repetition(4)", "ml", md, "ideal")
        add("Repetition(4)", "ml", md, "flips")
    for dec in ("syndrome", "bm"):
        code = "Hamming(7,4)" if dec == "syndrome" else "BCH(7,4)"
        add(code, dec, "BPSK", "ideal")
        add(code, dec, "BPSK", "flips")
    # soft pipelines (LLR interface between demodulator and decoder)
    for md in ("BPSK", "QPSK(normalize=True)", "PAM4(gray=True,normalize=True)", "QAM16(gray=True,normalize=True)"):
        for nv in (1.0,) if TIER == "quick" else (1e-2, 1.0, 1e2):
            add("SPC(3)", "wagner", md, "ideal", noise_var=nv)
            add("Polar(8,4)", "sc", md, "ideal", noise_var=nv)
            if md != "QAM16(gray=True,normalize=True)":
                add("LDPC(6,3)", "minsum", md, "ideal", noise_var=nv)
    # integer / bool message tensors (randint-style data) through hard and soft links; low-confidence LLRs (|LLR| < 1) on the soft ones
    add("ExtHamming(8,4)", "ml", "QPSK(normalize=True)", "ideal", msg_dtype="int64")
    add("SPC(3)", "wagner", "BPSK", "ideal", noise_var=8.0, msg_dtype="int64")
    add("SPC(3)", "wagner", "PSK4(gray=True)", "ideal", noise_var=8.0)
    add("LDPC(6,3)", "minsum", "BPSK", "ideal", noise_var=8.0, msg_dtype="int64")
    # several code blocks in one row, including code lengths that are not a multiple of the symbol size
    add("Hamming(7,4)", "ml", "QPSK(normalize=True)", "ideal", blocks=2)
    add("ExtHamming(8,4)", "ml", "QPSK(normalize=True)", "flips", blocks=2)
    add("SPC(3)", "wagner", "PSK8(gray=True)", "ideal", noise_var=1.0, blocks=3)
    add("Hamming(7,4)", "ml", "QAM16(gray=True,normalize=True)", "ideal", blocks=4)
    if TIER == "thorough":
        add("Hamming(7,4)", "ml", "PSK8(gray=True)", "ideal", blocks=3)
        add("Hamming(7,4)", "ml", "QPSK(normalize=True)", "flips", blocks=2)
        add("SPC(5)", "wagner", "QAM16(gray=True,normalize=True)", "ideal", noise_var=1.0, blocks=2)
        add("Repetition(6)", "ml", "QAM16(gray=True,normalize=True)", "flips", blocks=2)
    # dense constellations: one 64-QAM symbol per block (n = 6), one 256-QAM symbol per block (n = 8) in the thorough tier
    q64 = "QAM64(gray=True,normalize=True)"
    add("SPC(5)", "wagner", q64, "ideal", noise_var=1.0)
    add("Repetition(6)", "ml", q64, "ideal")
    add("Repetition(6)", "ml", q64, "flips")
    if TIER == "thorough":
        add("LDPC(6,3)", "minsum", q64, "ideal", noise_var=1.0)
        add("SPC(5)", "wagner", "QAM64(gray=False,normalize=False)", "ideal", noise_var=1.0)
        add("SPC(7)", "wagner", "QAM256(gray=True,normalize=True)", "ideal", noise_var=1.0)
        add("Polar(8,4)", "sc", "QAM256(gray=True,normalize=True)", "ideal", noise_var=1.0)
    if TIER == "thorough":
        # cross product: every code/decoder of the catalogue with every memoryless modem whose symbol size divides n
        # (differential and pi/4 modems carry known label findings of C05 and are left to C05/C15)
        have = {it["config"] for it in items}
        mems = [m for m in modem_specs(max_order=64) if m["name"].startswith(("BPSK", "QPSK", "PSK", "QAM", "PAM")) and m["name"] != "BPSK(real)"]
        lens = {"ExtHamming(8,4)": 8, "Hamming(7,4)": 7, "BCH(7,4)": 7, "Repetition(4)": 4, "Repetition(6)": 6, "SPC(3)": 4, "SPC(5)": 6, "SPC(7)": 8, "LDPC(6,3)": 6, "Polar(8,4)": 8}
        hard = [("ExtHamming(8,4)", "syndrome"), ("ExtHamming(8,4)", "ml"), ("Hamming(7,4)", "syndrome"), ("Hamming(7,4)", "ml"), ("BCH(7,4)", "bm"),
                ("Repetition(4)", "ml"), ("Repetition(6)", "ml"), ("Repetition(6)", "syndrome")]
        soft = [("SPC(3)", "wagner"), ("SPC(5)", "wagner"), ("SPC(7)", "wagner"), ("LDPC(6,3)", "minsum"), ("Polar(8,4)", "sc")]
        for m in mems:
            for code, dec in hard:
                if lens[code] % m["bps"] == 0:
                    for chn in ("ideal", "flips"):
                        before = len(items)
                        add(code, dec, m["name"], chn)
                        if items[-1]["config"] in have:
                            items.pop()
            for code, dec in soft:
                if lens[code] % m["bps"] == 0 and not (dec == "minsum" and m["bps"] >= 4):
                    add(code, dec, m["name"], "ideal", noise_var=1.0)
                    if items[-1]["config"] in have:
                        items.pop()
    # bounded symbol displacement on BPSK (d_min = 2: |d| < 1 per axis keeps every symbol in its own decision region)
    add("Hamming(7,4)", "syndrome", "BPSK", "displace", dlim=0.99)
    add("ExtHamming(8,4)", "ml", "QPSK(normalize=True)", "displace", dlim=0.7)
    items.append(dict(selftest=True, config="selftest", channel="ideal"))
    return items


def replay(body):
    for it in all_items():
        if it.get("config") == body["config"]:
            return replay_link(it, body["witness"] if "m" in body["witness"] else None)[0]
    return False


def main():
    replay_main(__name__)
    ck = Check(PID)
    items = all_items()
    from kaira.models import channel_code
    from kaira.models.generic import sequential
    from kaira.channels import lambda_channel, identity
    ck.encoded(channel_code.ChannelCodeModel.__init__, sequential.SequentialModel.forward, lambda_channel.LambdaChannel.forward, identity.PerfectChannel.forward)
    ck.bound("links", f"{len(items) - 1} (code, decoder, modem, channel) combinations through the real ChannelCodeModel: hard pipelines over 6 modem options with the ideal channel and with <= t flipped code bits per block (symbolic pattern, re-labelled through the library's own modem), soft pipelines (Wagner, polar SC, min-sum LDPC) over the ideal channel with noise_var on a grid, displacement below d_min/2 per axis for BPSK / QPSK")
    ck.assume("one row per call (B = 1) carrying one code block, or 2..4 blocks for the multi-block links; all messages and all admissible error patterns / displacements per query; finite-table domain for the bit flows (exact float32), reals for the displacement items")
    ck.run_items(__name__, "work", items)
    ck.finish(min_obligations=20)


if __name__ == "__main__":
    main()
