"""Feasibility prototype of the symbolic-tensor engine (NOT framework code): dispatch mode + wrapper subclass,
storage-sharing views via meta geometry, re-execution forking on bool(sym)."""
import warnings; warnings.filterwarnings("ignore")
import itertools, time
import numpy as np, torch, z3
from torch.utils._python_dispatch import TorchDispatchMode
from torch.utils._pytree import tree_map, tree_flatten

class Fork(Exception): pass
class NotEncodable(Exception): pass

class Ctx:
    """one symbolic path: decision prefix + path condition"""
    cur = None
    def __init__(self, prefix, assumptions):
        self.prefix = list(prefix); self.pos = 0; self.pc = list(assumptions); self.solver_calls = 0
    def decide(self, cond):
        cond = z3.simplify(cond)
        if z3.is_true(cond): return True
        if z3.is_false(cond): return False
        if self.pos < len(self.prefix):
            v = self.prefix[self.pos]
        else:
            # choose a feasible branch; remember
            s = z3.Solver(); s.add(*self.pc); self.solver_calls += 1
            t_ok = s.check(cond) == z3.sat; self.solver_calls += 1
            f_ok = s.check(z3.Not(cond)) == z3.sat
            if t_ok and f_ok: v = True; self.prefix.append(True); self.open = getattr(self, "open", []) + [self.pos]
            elif t_ok: v = True; self.prefix.append(True)
            elif f_ok: v = False; self.prefix.append(False)
            else: raise Fork("infeasible")
        self.pos += 1
        self.pc.append(cond if v else z3.Not(cond))
        return v

def explore(fn, assumptions):
    """DFS over decision prefixes; fn(ctx) runs the real code and returns obligations"""
    stack = [[]]; results = []
    while stack:
        prefix = stack.pop()
        ctx = Ctx(prefix, assumptions); Ctx.cur = ctx
        t0 = time.time(); out = fn(ctx)
        results.append((ctx, out)); print("  path", len(results), "decisions", len(ctx.prefix), "solver_calls", ctx.solver_calls, f"{time.time()-t0:.1f}s", flush=True)
        for p in getattr(ctx, "open", []):
            if p >= len(prefix):
                stack.append(ctx.prefix[:p] + [False])
    return results

class Storage:
    def __init__(self, flat): self.flat = flat  # numpy object array 1-D


class Aff:
    """affine GF(2) form: xor of variables (frozenset of names) xor const; value in {0,1}"""
    __slots__ = ("vs", "c")
    def __init__(self, vs, c=0): self.vs = frozenset(vs); self.c = c & 1
    def __hash__(self): return hash((self.vs, self.c))
    def __eq__(self, o): return isinstance(o, Aff) and self.vs == o.vs and self.c == o.c
    def z3(self):
        e = z3.BoolVal(bool(self.c))
        for v in sorted(self.vs): e = z3.Xor(e, z3.Bool(v))
        return e
def axor(a, b):
    if not isinstance(a, Aff): a = Aff((), int(a))
    if not isinstance(b, Aff): b = Aff((), int(b))
    r = Aff(a.vs ^ b.vs, a.c ^ b.c)
    return r if r.vs else r.c
class Lin:
    """integer linear combination of Aff forms"""
    def __init__(self, terms, c=0): self.terms = {k: v for k, v in terms.items() if v}; self.c = c
def tolin(x):
    if isinstance(x, Lin): return x
    if isinstance(x, Aff): return Lin({x: 1}, 0)
    assert float(x) == int(x), x
    return Lin({}, int(x))
def ladd(a, b, sb=1):
    a, b = tolin(a), tolin(b); t = dict(a.terms)
    for k, v in b.terms.items(): t[k] = t.get(k, 0) + sb * v
    r = Lin(t, a.c + sb * b.c)
    if not r.terms: return r.c
    if len(r.terms) == 1 and r.c == 0 and list(r.terms.values()) == [1]: return next(iter(r.terms))
    return r
def lmulc(a, k):
    assert float(k) == int(k); k = int(k)
    a = tolin(a); r = Lin({t: v * k for t, v in a.terms.items()}, a.c * k)
    if not r.terms: return r.c
    if len(r.terms) == 1 and r.c == 0 and list(r.terms.values()) == [1]: return next(iter(r.terms))
    return r
def lmul(a, b):
    if not isinstance(a, (Aff, Lin)): return lmulc(b, a)
    if not isinstance(b, (Aff, Lin)): return lmulc(a, b)
    raise NotEncodable("sym*sym")
def mod2(x):
    x = tolin(x); r = x.c & 1
    for t, v in x.terms.items():
        if v & 1: r = axor(r, t)
    return r
def zint(x):
    x = tolin(x)
    return z3.Sum([z3.IntVal(x.c)] + [z3.If(t.z3(), z3.IntVal(v), z3.IntVal(0)) for t, v in x.terms.items()])
def zeq(a, b):
    if isinstance(a, z3.ExprRef) or isinstance(b, z3.ExprRef): raise NotEncodable("bool eq")
    d = ladd(a, b, -1)
    if not isinstance(d, (Aff, Lin)): return z3.BoolVal(d == 0)
    m = None
    try: m = mod2(d)
    except Exception: pass
    if isinstance(a, (Aff, int, float)) and isinstance(b, (Aff, int, float)) and (isinstance(a, Aff) or a in (0, 1)) and (isinstance(b, Aff) or b in (0, 1)):
        x = axor(a, b)
        return z3.Not(x.z3()) if isinstance(x, Aff) else z3.BoolVal(x == 0)
    return zint(d) == 0
def zlt(a, c):
    if not isinstance(a, (Aff, Lin)): return z3.BoolVal(a < c)
    return zint(a) < int(c) if float(c) == int(c) else zint(a) < z3.RealVal(repr(c))
def lift(v, dtype): return v

class SymTensor(torch.Tensor):
    @staticmethod
    def __new__(cls, storage, meta):
        r = torch.Tensor._make_wrapper_subclass(cls, tuple(meta.shape), strides=meta.stride(), storage_offset=meta.storage_offset(), dtype=meta.dtype, device="cpu")
        r.storage_ = storage; r.meta = meta
        return r
    def arr(self):
        return np.lib.stride_tricks.as_strided(self.storage_.flat[self.meta.storage_offset():], shape=tuple(self.meta.shape), strides=tuple(s * 8 for s in self.meta.stride()), writeable=True) if self.meta.numel() else np.empty(tuple(self.meta.shape), dtype=object)
    def __repr__(self): return f"SymTensor{tuple(self.shape)}"
    @classmethod
    def __torch_function__(cls, func, types, args=(), kwargs=None):
        kwargs = kwargs or {}
        name = getattr(func, "__name__", "")
        if name == "item" and isinstance(args[0], SymTensor):
            v = args[0].arr().reshape(-1)[0]
            return v if isinstance(v, (bool, int, float)) else SymScalar(v, args[0].dtype)
        if name == "__bool__" and isinstance(args[0], SymTensor):
            v = args[0].arr().reshape(-1)[0]
            if isinstance(v, (bool, int, float)): return bool(v)
            return Ctx.cur.decide(v if isinstance(v, z3.ExprRef) else z3.Not(zeq(v, 0)))
        with torch._C.DisableTorchFunctionSubclass():
            return func(*args, **kwargs)

def _sub_dispatch(cls, func, types, args=(), kwargs=None):
    return SymMode.__torch_dispatch__(THE_MODE, func, types, args, kwargs)
SymTensor.__torch_dispatch__ = classmethod(_sub_dispatch)

class SymScalar:
    def __init__(self, e, dtype): self.e = e; self.dtype = dtype
    def __eq__(self, o): return SymScalar(zeq(self.e, o), torch.bool) if isinstance(self.e, (Aff, Lin)) else (self.e == o)
    def __bool__(self): return Ctx.cur.decide(self.e if isinstance(self.e, z3.ExprRef) else z3.Not(zeq(self.e, 0)))

def mkmeta(shape, dtype):
    with torch.utils._python_dispatch._disable_current_modes():
        return torch.empty(tuple(shape), dtype=dtype, device="meta")
def from_real(t):
    meta = mkmeta(t.shape, t.dtype)
    flat = np.empty(t.numel(), dtype=object)
    with torch.utils._python_dispatch._disable_current_modes():
        vals = t.reshape(-1).tolist()
    for i, v in enumerate(vals): flat[i] = lift(v, t.dtype)
    return SymTensor(Storage(flat), meta)

def fresh(name, shape, dtype, kind):
    meta = mkmeta(shape, dtype)
    flat = np.empty(meta.numel(), dtype=object); cons = []
    for i in range(meta.numel()):
        flat[i] = Aff([f"{name}{i}"])
    return SymTensor(Storage(flat), meta)

def new_from_arr(arr, meta_like):
    meta = mkmeta(meta_like.shape, meta_like.dtype)
    flat = np.empty(meta.numel(), dtype=object); flat[:] = np.asarray(arr, dtype=object).reshape(-1)
    return SymTensor(Storage(flat), meta)

VIEW_OPS = {"aten.view.default", "aten._unsafe_view.default", "aten.select.int", "aten.transpose.int", "aten.expand.default", "aten.squeeze.dim", "aten.unsqueeze.default", "aten.unbind.int", "aten.slice.Tensor", "aten.t.default", "aten.permute.default", "aten.detach.default", "aten.alias.default"}
OPS_SEEN = set()


class SymMode(TorchDispatchMode):
    def __torch_dispatch__(self, func, types, args=(), kwargs=None):
        kwargs = kwargs or {}
        name = str(func); OPS_SEEN.add(name)
        flat_args, _ = tree_flatten((args, kwargs))
        def to_sym(a):
            return from_real(a) if isinstance(a, torch.Tensor) and not isinstance(a, SymTensor) else a
        args = tree_map(to_sym, args); kwargs = tree_map(to_sym, kwargs)
        def to_meta(a): return a.meta if isinstance(a, SymTensor) else a
        margs = tree_map(to_meta, args); mkw = tree_map(to_meta, kwargs)
        if "device" in mkw: mkw = dict(mkw, device="meta")
        if name == "aten.equal.default":
            a, b = args[0].arr(), args[1].arr()
            return Ctx.cur.decide(z3.And([zeq(x, y) for x, y in zip(a.reshape(-1), b.reshape(-1))])) if a.shape == b.shape else False
        mout = self._run_meta(func, margs, mkw)
        if name in VIEW_OPS:
            base = args[0]
            return tree_map(lambda m: SymTensor(base.storage_, m) if isinstance(m, torch.Tensor) else m, mout)
        A = [a.arr() if isinstance(a, SymTensor) else a for a in args]
        if name in ("aten.zeros.default", "aten.zeros_like.default"):
            return new_from_arr(np.full(tuple(mout.shape), lift(0, mout.dtype), dtype=object), mout)
        if name == "aten.lift_fresh.default": return args[0]
        if name == "aten.clone.default": return new_from_arr(A[0].copy(), mout)
        if name == "aten._to_copy.default":
            return new_from_arr(A[0].copy(), mout)
        if name == "aten.mm.default":
            a, b = A; out = np.empty((a.shape[0], b.shape[1]), dtype=object)
            for i in range(a.shape[0]):
                for j in range(b.shape[1]):
                    acc = 0
                    for kk in range(a.shape[1]): acc = ladd(acc, lmul(a[i, kk], b[kk, j]))
                    out[i, j] = acc
            return new_from_arr(out, mout)
        if name == "aten.remainder.Scalar":
            assert A[1] == 2
            return new_from_arr(np.vectorize(mod2, otypes=[object])(A[0]), mout)
        if name == "aten.add.Tensor":
            a, b = np.broadcast_arrays(A[0], A[1])
            return new_from_arr(np.vectorize(ladd, otypes=[object])(a, b), mout)
        if name == "aten.rsub.Scalar":
            return new_from_arr(np.vectorize(lambda x: ladd(A[1], x, -1), otypes=[object])(A[0]), mout)
        if name == "aten.index_put_.default":
            base, indices, values = args[0], args[1], args[2]
            idx = tuple(slice(None) if i is None else np.array([v if isinstance(v, bool) else int(v) for v in i.arr().reshape(-1)]).reshape(i.arr().shape) for i in indices)
            v = values.arr() if isinstance(values, SymTensor) else lift(values, base.dtype)
            base.arr()[idx] = v
            return base
        if name == "aten.index.Tensor":
            base, indices = args[0], args[1]
            idx = tuple(slice(None) if i is None else np.array([v if isinstance(v, bool) else int(v) for v in i.arr().reshape(-1)]).reshape(i.arr().shape) for i in indices)
            return new_from_arr(base.arr()[idx], mout)
        if name == "aten.copy_.default":
            dst, src = args[0], args[1]
            s = np.broadcast_to(src.arr(), dst.arr().shape)
            d = dst.arr()
            for idx in np.ndindex(*d.shape): d[idx] = s[idx]
            return dst
        if name == "aten.equal.default":
            a, b = A
            return Ctx.cur.decide(z3.And([x == y for x, y in zip(a.reshape(-1), b.reshape(-1))])) if a.shape == b.shape else False
        if name == "aten.lt.Scalar":
            return new_from_arr(np.vectorize(lambda x: zlt(x, A[1]) if isinstance(x, (Aff, Lin)) else (x < A[1]), otypes=[object])(A[0]), mout)
        if name == "aten.any.default":
            return new_from_arr(np.array(z3.simplify(z3.Or([x if isinstance(x, z3.ExprRef) else (z3.BoolVal(bool(x)) if isinstance(x, (bool, int, float)) else z3.Not(zeq(x, 0))) for x in A[0].reshape(-1)])), dtype=object), mout)
        if name == "aten._local_scalar_dense.default":
            raise NotEncodable("item reached dispatch")
        raise NotEncodable(name)
    import contextlib
    @staticmethod
    @contextlib.contextmanager
    def _noop(): yield
    def _run_meta(self, func, margs, mkw):
        # run the op on meta tensors outside of this mode to get output geometry
        with torch.utils._python_dispatch._disable_current_modes():
            return func(*margs, **mkw)

THE_MODE = SymMode()
if __name__ == "__main__":
    from kaira.models.fec.encoders import HammingCodeEncoder
    from kaira.models.fec.decoders import SyndromeLookupDecoder
    for mu, infoset in ((3, "left"), (3, "right"), (4, "left")):
        enc = HammingCodeEncoder(mu=mu, information_set=infoset)
        dec = SyndromeLookupDecoder(enc)
        k, n = enc.code_dimension, enc.code_length
        t0 = time.time()
        def run(ctx):
            with THE_MODE:
                m = fresh("m", (1, k), torch.float32, "bit")
                e = fresh("e", (1, n), torch.float32, "bit")
                c = enc(m)
                r = (c + e) % 2
                d = dec(r)
                return m.arr().copy(), d.arr().copy()
        ebits = [z3.Bool(f"e{i}") for i in range(n)]
        zb = lambda v: v.z3() if isinstance(v, Aff) else z3.BoolVal(bool(v))
        res = explore(run, [z3.AtMost(*ebits, 1)])
        viol = 0; q = 0
        for ctx, (m, d) in res:
            s = z3.Solver(); s.add(*ctx.pc); s.add(z3.Or([z3.Not(zeq(a, b)) for a, b in zip(m.reshape(-1), d.reshape(-1))])); q += 1
            r = s.check()
            if r != z3.unsat: viol += 1; print("  counterexample", s.model())
        print(f"hamming mu={mu} {infoset}: paths={len(res)} queries={q} violations={viol} time={time.time()-t0:.1f}s ops={len(OPS_SEEN)}")
