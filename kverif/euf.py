"""EUF stage stubs and a small decision-prefix path engine (DESIGN section 2.4).

Symbolic stand-ins handed to the REAL kaira container classes:

* `Term`         immutable term tree (built without touching z3, so that stage stubs may run inside the
                 worker threads of the real ThreadPoolExecutor; z3 is only used from the main thread)
* `Tok`          plain token object carrying a term
* `TokTensor`    `torch.Tensor` subclass carrying a term (containers that insist on tensors and call
                 `torch.stack` / `torch.sum(dim=0)` / `torch.cat(dim=1)` on the stage outputs)
* `SymStage...`  stage stubs: apply a distinct uninterpreted function symbol to the token and to all
                 forwarded positional/keyword arguments and count their calls
* `SymBool/SymInt` + `PathEngine`: `bool()` on an uninterpreted predicate and `__index__` on a symbolic
                 int fork the execution (re-execution with a decision prefix; the solver says which
                 sides are feasible)
* `Z3Env`        translation Term -> z3 (token sort = Real, so that superposition is real addition and
                 validity of `out == spec` is decided in QF_UFLRA/QF_UFLIA; no arithmetic is used
                 anywhere else, so for the pure pipelines this is plain EUF validity)
"""
from __future__ import annotations

import threading
import time
from collections import namedtuple

import torch
import z3
from torch import nn

Term = namedtuple("Term", "kind name kids sort")  # kind: var | app | sum | py ; sort: T | B | I


class NotEncodable(Exception):
    pass


class Inconclusive(Exception):
    pass


def var(name, sort="T"):
    return Term("var", name, (), sort)


def term_of(obj):
    """term of an arbitrary Python object handed to a stage"""
    if isinstance(obj, Term):
        return obj
    if isinstance(obj, (Tok, TokTensor, SymBool, SymInt)):
        return obj.term
    if isinstance(obj, torch.Tensor):
        raise NotEncodable("concrete tensor reached a symbolic stage")
    if isinstance(obj, (list, tuple)):
        return Term("app", f"pyseq{len(obj)}", tuple(term_of(o) for o in obj), "T")
    # None / bool / int / str ...: an uninterpreted constant named after the value
    return Term("py", repr(obj), (), "T")


def app(fname, x, args=(), kwargs=None, sort="T"):
    """f(x, *args, **kwargs) as a term; the symbol is indexed by the keyword names (sorted) and,
    at translation time, by its arity, so a dropped / added argument yields a DIFFERENT symbol."""
    kw = sorted((kwargs or {}).items())
    sym = fname if not kw else fname + "{" + ",".join(k for k, _ in kw) + "}"
    kids = (term_of(x),) + tuple(term_of(a) for a in args) + tuple(term_of(v) for _, v in kw)
    return Term("app", sym, kids, sort)


def tsum(terms):
    return Term("sum", "+", tuple(terms), "T")


def show(t, depth=0):
    if not isinstance(t, Term):
        return repr(t)
    if t.kind in ("var", "py"):
        return t.name
    if t.kind == "sum":
        return "(" + " + ".join(show(k) for k in t.kids) + ")"
    return t.name + "(" + ", ".join(show(k) for k in t.kids) + ")"


# ------------------------------------------------------------------------------------------------
# tokens
# ------------------------------------------------------------------------------------------------
class Tok:
    __slots__ = ("term",)

    def __init__(self, term):
        self.term = term

    def __repr__(self):
        return "Tok<" + show(self.term) + ">"


class _Stacked:
    """result of torch.stack on token tensors: only `torch.sum(., dim=0)` is defined on it"""


class TokTensor(torch.Tensor):
    """A tensor-typed token. Only the operations the containers perform on stage outputs are defined:
    torch.stack([...]) -> stacked token, torch.sum(stacked, dim=0) -> elementwise real sum,
    torch.cat([...], dim=1) -> uninterpreted n-ary CAT (order sensitive). Anything else raises
    NotEncodable (surfaces as a harness error, never as success)."""

    @staticmethod
    def __new__(cls, term, stacked=None):
        t = torch.Tensor._make_subclass(cls, torch.empty(0))
        t.term = term
        t.stacked = stacked
        return t

    def __repr__(self):  # noqa
        return "TokTensor<" + (show(self.term) if self.term is not None else "stack") + ">"

    @classmethod
    def __torch_function__(cls, func, types, args=(), kwargs=None):
        kwargs = kwargs or {}
        if func is torch.stack:
            seq = list(args[0])
            dim = kwargs.get("dim", args[1] if len(args) > 1 else 0)
            if dim != 0 or not all(isinstance(s, TokTensor) and s.term is not None for s in seq):
                raise NotEncodable("torch.stack on tokens only along dim 0")
            return TokTensor(None, stacked=tuple(s.term for s in seq))
        if func in (torch.sum, torch.Tensor.sum):
            x = args[0]
            dim = kwargs.get("dim", args[1] if len(args) > 1 else None)
            if not isinstance(x, TokTensor) or x.stacked is None or dim != 0:
                raise NotEncodable("torch.sum on tokens only as sum(stack(...), dim=0)")
            return TokTensor(tsum(x.stacked))
        if func is torch.cat:
            seq = list(args[0])
            dim = kwargs.get("dim", args[1] if len(args) > 1 else 0)
            if not all(isinstance(s, TokTensor) and s.term is not None for s in seq):
                raise NotEncodable("torch.cat on non-token")
            return TokTensor(Term("app", f"CAT@dim{dim}", tuple(s.term for s in seq), "T"))
        name = getattr(func, "__name__", str(func))
        if name in ("__get__", "__repr__", "__format__", "__str__"):
            with torch._C.DisableTorchFunctionSubclass():
                return func(*args, **kwargs)
        raise NotEncodable(f"tensor operation {name} on a symbolic token is not encodable")


def wrap_like(x, term):
    return TokTensor(term) if isinstance(x, torch.Tensor) else Tok(term)


# ------------------------------------------------------------------------------------------------
# recording + stage stubs
# ------------------------------------------------------------------------------------------------
class Recorder:
    def __init__(self):
        self.lock = threading.Lock()
        self.calls = []  # (symbol, thread ident)

    def note(self, sym):
        with self.lock:
            self.calls.append((sym, threading.get_ident()))

    def count(self, sym):
        return sum(1 for s, _ in self.calls if s == sym)

    def counts(self):
        d = {}
        for s, _ in self.calls:
            d[s] = d.get(s, 0) + 1
        return d

    def order(self):
        return [s for s, _ in self.calls]


class SymStage:
    """plain callable stage: x -> f(x, *args, **kwargs), f uninterpreted"""

    def __init__(self, sym, rec):
        self.sym = sym
        self.rec = rec

    def __call__(self, x, *args, **kwargs):
        self.rec.note(self.sym)
        return wrap_like(x, app(self.sym, x, args, kwargs))

    def __repr__(self):
        return f"SymStage({self.sym})"


def _module_stage(base):
    class _S(base):
        def __init__(self, sym, rec):
            super().__init__()
            self.sym = sym
            self.rec = rec

        def forward(self, x, *args, **kwargs):
            self.rec.note(self.sym)
            return wrap_like(x, app(self.sym, x, args, kwargs))

        def extra_repr(self):
            return self.sym

    _S.__name__ = "Sym" + base.__name__
    return _S


SymModule = _module_stage(nn.Module)
_STAGE_BASES = {}


def stage_class(base_name):
    """nn.Module stage stub deriving from the kaira base class the container type-checks against"""
    if base_name not in _STAGE_BASES:
        if base_name == "module":
            _STAGE_BASES[base_name] = SymModule
        else:
            from kaira.channels import BaseChannel
            from kaira.constraints import BaseConstraint
            from kaira.models.base import BaseModel
            base = {"model": BaseModel, "channel": BaseChannel, "constraint": BaseConstraint}[base_name]
            _STAGE_BASES[base_name] = _module_stage(base)
    return _STAGE_BASES[base_name]


def make_stage(sym, rec, kind="plain"):
    if kind == "plain":
        return SymStage(sym, rec)
    return stage_class(kind)(sym, rec)


# ------------------------------------------------------------------------------------------------
# z3 translation
# ------------------------------------------------------------------------------------------------
class Z3Env:
    def __init__(self):
        self.funcs = {}
        self.memo = {}

    def sort(self, s):
        return {"T": z3.RealSort(), "B": z3.BoolSort(), "I": z3.IntSort()}[s]

    def func(self, name, arg_sorts, res_sort):
        key = (name, tuple(arg_sorts), res_sort)
        if key not in self.funcs:
            zname = f"{name}/{len(arg_sorts)}" + ("" if set(arg_sorts) <= {"T"} else ":" + "".join(arg_sorts))
            self.funcs[key] = z3.Function(zname, *[self.sort(a) for a in arg_sorts], self.sort(res_sort))
        return self.funcs[key]

    def z(self, t):
        if not isinstance(t, Term):
            return t  # already a z3 expression
        if t in self.memo:
            return self.memo[t]
        if t.kind == "var":
            r = z3.Const(t.name, self.sort(t.sort))
        elif t.kind == "py":
            r = z3.Const("py:" + t.name, self.sort("T"))
        elif t.kind == "sum":
            kids = [self.z(k) for k in t.kids]
            r = kids[0] if len(kids) == 1 else z3.Sum(kids)
        elif t.kind == "app":
            kids = [self.z(k) for k in t.kids]
            r = self.func(t.name, [k.sort for k in t.kids], t.sort)(*kids)
        else:
            raise NotEncodable(t.kind)
        self.memo[t] = r
        return r


# ------------------------------------------------------------------------------------------------
# solver access with statistics
# ------------------------------------------------------------------------------------------------
class Solver:
    """one z3 solver per worker process; push/pop per query; every check is counted in the tally"""

    def __init__(self, tally, timeout_ms=20000):
        self.s = z3.Solver()
        self.s.set("timeout", timeout_ms)
        self.tally = tally

    def check(self, *assertions):
        self.s.push()
        try:
            self.s.add(*assertions)
            t0 = time.time()
            r = self.s.check()
            res = "sat" if r == z3.sat else ("unsat" if r == z3.unsat else "unknown")
            self.tally.count(res, time.time() - t0)
            model = self.s.model() if res == "sat" else None
            return res, model
        finally:
            self.s.pop()

    def decide(self, assumptions, prop):
        """(a) assumptions sat (non-vacuity)  (b) assumptions and not prop: unsat -> holds | sat -> model.
        returns (status, model) with status in holds | violated | vacuous | inconclusive"""
        r, _ = self.check(*assumptions)
        if r == "unsat":
            return "vacuous", None
        if r != "sat":
            return "inconclusive", None
        r, m = self.check(*assumptions, z3.Not(prop))
        if r == "unsat":
            return "holds", None
        if r == "sat":
            return "violated", m
        return "inconclusive", None


# ------------------------------------------------------------------------------------------------
# forking on bool() / __index__
# ------------------------------------------------------------------------------------------------
class SymBool:
    def __init__(self, term, engine, env):
        self.term = term
        self.engine = engine
        self.env = env

    def __bool__(self):
        return self.engine.decide_bool(self.env.z(self.term))


class ItemBool:
    """looks like a 0-d tensor result of a condition: BranchingModel calls `.item()` and then bool()"""

    def __init__(self, sb):
        self.sb = sb

    def item(self):
        return self.sb

    def __bool__(self):  # must not be used by the container when .item exists
        raise NotEncodable("bool() on an object with .item(): the container was expected to call .item()")


class SymInt:
    """symbolic index: comparisons give SymBool (fork), __index__ concretises (fork per feasible value)"""

    def __init__(self, name, engine, env):
        self.term = var(name, "I")
        self.engine = engine
        self.env = env

    def _cmp(self, op, other):
        o = other.term if isinstance(other, SymInt) else int(other)
        zo = self.env.z(o) if isinstance(o, Term) else z3.IntVal(o)
        zs = self.env.z(self.term)
        zt = {"le": zs <= zo, "lt": zs < zo, "ge": zs >= zo, "gt": zs > zo, "eq": zs == zo, "ne": zs != zo}[op]
        sb = SymBool(None, self.engine, self.env)
        sb.term = zt  # already z3 (Z3Env.z passes z3 expressions through)
        return sb

    def __le__(self, o):
        return self._cmp("le", o)

    def __lt__(self, o):
        return self._cmp("lt", o)

    def __ge__(self, o):
        return self._cmp("ge", o)

    def __gt__(self, o):
        return self._cmp("gt", o)

    def __eq__(self, o):
        return self._cmp("eq", o)

    def __ne__(self, o):
        return self._cmp("ne", o)

    __hash__ = object.__hash__

    def __index__(self):
        return self.engine.decide_int(self.env.z(self.term))

    def __repr__(self):
        return "<sym " + self.term.name + ">"


class PathEngine:
    """re-execution with a decision prefix. `explore(run)` yields (path_condition, decisions, result)
    for every feasible path of `run(engine)`. Feasibility of each side of a fork is a solver query."""

    def __init__(self, solver, max_paths=100000, max_values=64):
        self.solver = solver
        self.max_paths = max_paths
        self.max_values = max_values
        self.prefix = []
        self.trace = []
        self.pc = []
        self.pending = []

    def explore(self, run):
        work = [[]]
        n = 0
        while work:
            self.prefix = work.pop()
            self.trace = []
            self.pc = []
            self.pending = []
            res = run(self)
            n += 1
            if n > self.max_paths:
                raise Inconclusive("path budget exhausted")
            yield list(self.pc), list(self.trace), res
            work.extend(self.pending)

    def decide_bool(self, c):
        k = len(self.trace)
        if k < len(self.prefix):
            d = self.prefix[k]
        else:
            rt, _ = self.solver.check(*self.pc, c)
            rf, _ = self.solver.check(*self.pc, z3.Not(c))
            if "unknown" in (rt, rf):
                raise Inconclusive("feasibility of a fork undecided")
            if rt == "sat" and rf == "sat":
                self.pending.append(self.trace + [False])
                d = True
            elif rt == "sat":
                d = True
            elif rf == "sat":
                d = False
            else:
                raise Inconclusive("infeasible path condition reached")
        self.trace.append(d)
        self.pc.append(c if d else z3.Not(c))
        return d

    def decide_int(self, t):
        k = len(self.trace)
        if k < len(self.prefix):
            v = self.prefix[k]
        else:
            vals = []
            while True:
                r, m = self.solver.check(*self.pc, *[t != u for u in vals])
                if r == "unknown":
                    raise Inconclusive("value enumeration undecided")
                if r == "unsat":
                    break
                vals.append(m.eval(t, model_completion=True).as_long())
                if len(vals) > self.max_values:
                    raise Inconclusive("unbounded symbolic index reached __index__")
            if not vals:
                raise Inconclusive("infeasible path condition reached")
            vals.sort()
            v = vals[0]
            for u in vals[1:]:
                self.pending.append(self.trace + [u])
        self.trace.append(v)
        self.pc.append(t == v)
        return v
