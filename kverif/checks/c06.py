"""C06 — demodulators decide for the nearest point and emit correctly signed, scaled max-log LLRs."""
from __future__ import annotations

import torch
import z3
from torch.utils._python_dispatch import _disable_current_modes

from .. import sym as S
from ..catalog import modem_specs, build_modem
from ..common import Check, Tally, ob, tier, replay_main, TIER
from ..engine import fresh_reals, elems, from_arr
from ..harness import sym_paths, decide_nra, decide, zor, zand
from ..sym import NotEncodable

PID = "C06"
YMAX = 4.0


def table(mod):
    with _disable_current_modes():
        c = mod.constellation.detach()
        pts = [complex(v) for v in c.tolist()] if c.is_complex() else [complex(float(v), 0.0) for v in c.tolist()]
        if hasattr(mod, "bit_patterns"):
            labels = [[int(round(float(b))) for b in row] for row in mod.bit_patterns.tolist()]
        else:
            labels = [[i] for i in range(len(pts))]      # BPSK publishes its two points in label order 0, 1
    return pts, labels


def d2(y, c):
    """|y - c|^2 as a polynomial in (a, b)"""
    dr, di = S.sub(y.re, c.real), S.sub(y.im, c.imag)
    return S.add(S.mul(dr, dr), S.mul(di, di))


def hard_item(m, tl, mutate=None):
    config = m["name"]
    mod, demod = build_modem(m)
    if mutate:
        mutate(mod, demod)
    pts, labels = table(demod.modulator if hasattr(demod, "modulator") and hasattr(demod.modulator, "constellation") else mod)
    bps = m["bps"]
    dmin2 = min(abs(p - q) ** 2 for i, p in enumerate(pts) for q in pts[i + 1:])
    margin = 1e-4 * dmin2

    def run(ctx):
        demod.eval()
        if hasattr(demod, "reset_state"):
            demod.reset_state()
        y = fresh_reals("y", (2, 1), torch.complex64)      # two independent received points (exercises broadcasting)
        return dict(y=y, bits=demod(y))
    names = ["y0r", "y0i", "y1r", "y1i"]
    assume = [z3.And(z3.Real(nm) >= -YMAX, z3.Real(nm) <= YMAX) for nm in names]
    paths = sym_paths(run, assume, tl, max_paths=400, state=(demod,))
    status, viol = "holds", None
    for ctx, R in paths:
        ys = [S.tocx(v) for v in elems(R["y"])]
        bits = elems(R["bits"])
        if len(bits) != 2 * bps:
            viol = dict(what=f"{len(bits)} bits for 2 received symbols of {bps} bits", witness={"len": len(bits)}, replay={"reproduced": True})
            status = "violated"
            break
        for r in range(2):
            beta = bits[r * bps:(r + 1) * bps]
            y = ys[r]
            dist = [d2(y, c) for c in pts]
            terms = []
            any_label = []
            for i, lab in enumerate(labels):
                is_i = zand([S.zbool(S.eq(bv, bool(lb))) for bv, lb in zip(beta, lab)])
                any_label.append(is_i)
                farther = zor([S.zbool(S.gt(S.sub(dist[i], dist[j]), margin)) for j in range(len(pts)) if j != i])
                terms.append(z3.And(is_i, farther))
            st, model = decide(ctx, z3.Or(zor(terms), z3.Not(zor(any_label))))
            if st == "violated" and viol is None:
                yv = [float(S.zval(model, z3.Real(nm))) for nm in names]
                rep, detail = replay_hard(m, yv, pts, labels, margin)
                viol = dict(what=f"received point {complex(yv[2 * r], yv[2 * r + 1]):.4f}: {detail}", witness={"y": yv}, replay={"reproduced": rep})
                status = "violated"
            elif st == "inconclusive" and status == "holds":
                status = st
    if viol:
        return [ob("hard decision = label of a nearest point", config, "violated", **viol, **tl.take())]
    return [ob("hard decision = label of a nearest point", config, status, sample=dict(query="exists y in C: label(demod(y)) is not the label of a point within margin of the minimum distance", points=len(pts), paths=len(paths), margin=margin), **tl.take())]


def replay_hard(m, yv, pts, labels, margin):
    with _disable_current_modes():
        mod, demod = build_modem(m)
        demod.eval()
        y = torch.tensor([[complex(yv[0], yv[1])], [complex(yv[2], yv[3])]], dtype=torch.complex64)
        out = demod(y).reshape(2, -1)
        bad = False
        detail = ""
        for r in range(2):
            beta = [int(round(float(v))) for v in out[r].tolist()]
            yy = complex(yv[2 * r], yv[2 * r + 1])
            ds = [abs(yy - c) ** 2 for c in pts]
            if beta not in labels:
                bad, detail = True, f"decided bits {beta} are not a label"
                continue
            i = labels.index(beta)
            if ds[i] > min(ds) + margin:
                j = ds.index(min(ds))
                bad, detail = True, f"decided {beta} (distance^2 {ds[i]:.5f}) although the point labelled {labels[j]} is nearer (distance^2 {ds[j]:.5f})"
        return bad, detail


def soft_item(m, tl, mutate=None):
    config = m["name"]
    mod, demod = build_modem(m)
    if mutate:
        mutate(mod, demod)
    pts, labels = table(demod.modulator if hasattr(demod, "modulator") and hasattr(demod.modulator, "constellation") else mod)
    bps = m["bps"]
    V = z3.Real("V")
    # kappa from one concrete evaluation of the real code
    with _disable_current_modes():
        demod.eval()
        y0 = torch.tensor([[0.3 + 0.2j]], dtype=torch.complex64)
        l0 = demod(y0, 0.7).flatten().tolist()
    yy = complex(0.3, 0.2)
    kappas = []
    for p in range(bps):
        m1 = min(abs(yy - c) ** 2 for c, lab in zip(pts, labels) if lab[p] == 1)
        m0 = min(abs(yy - c) ** 2 for c, lab in zip(pts, labels) if lab[p] == 0)
        if abs(m1 - m0) > 1e-6:
            kappas.append(l0[p] * 0.7 / (m1 - m0))
    kappa = round(sum(kappas) / len(kappas), 3) if kappas else 1.0
    if kappa <= 0:
        return [ob("soft output = kappa (min d1^2 - min d0^2) / noise_var", config, "violated", what=f"LLR scale factor is not positive (kappa = {kappa:.4f} at y = 0.3+0.2j, noise_var 0.7): sign convention inverted",
                   witness={"kappa": kappa, "llr": l0}, replay={"reproduced": True}, **tl.take())]

    def run(ctx):
        demod.eval()
        if hasattr(demod, "reset_state"):
            demod.reset_state()
        y = fresh_reals("y", (1, 1), torch.complex64)
        nv = from_arr([S.topoly(V)], torch.float32, ())
        return dict(y=y, llr=demod(y, nv))
    names = ["y0r", "y0i"]
    assume = [z3.And(z3.Real(nm) >= -YMAX, z3.Real(nm) <= YMAX) for nm in names] + [V >= z3.RealVal("1/1000"), V <= 1000]
    paths = sym_paths(run, assume, tl, max_paths=64, state=(demod,))
    status, viol = "holds", None
    for ctx, R in paths:
        y = S.tocx(elems(R["y"])[0])
        llr = elems(R["llr"])
        if len(llr) != bps:
            viol = dict(what=f"{len(llr)} LLRs for one symbol of {bps} bits", witness={"len": len(llr)}, replay={"reproduced": True})
            status = "violated"
            break
        S.ENV.side, S.ENV.defined = ctx.side, ctx.defined
        try:
            bad = []
            for p in range(bps):
                m1 = None
                m0 = None
                for c, lab in zip(pts, labels):
                    d = d2(y, c)
                    if lab[p] == 1:
                        m1 = d if m1 is None else S.minimum(m1, d)
                    else:
                        m0 = d if m0 is None else S.minimum(m0, d)
                lhs = S.mul(llr[p], S.topoly(V))
                rhs = S.mul(S.sub(m1, m0), kappa)
                diff = S.sub(lhs, rhs)
                tol = 1e-3 * kappa
                bad += [S.zbool(S.gt(diff, tol)), S.zbool(S.lt(diff, -tol))]
        finally:
            S.ENV.side = S.ENV.defined = None
        st, model = decide_nra(ctx, zor(bad), budget_s=60)
        if st == "violated" and viol is None:
            yv = [float(S.zval(model, z3.Real(nm))) for nm in names]
            vv = float(S.zval(model, V))
            rep, detail = replay_soft(m, yv, vv, pts, labels, kappa)
            viol = dict(what=f"y = {complex(yv[0], yv[1]):.4f}, noise_var = {vv:.4g}: {detail}", witness={"y": yv, "noise_var": vv}, replay={"reproduced": rep})
            status = "violated"
        elif st == "inconclusive" and status == "holds":
            status = st
    if viol:
        return [ob("soft output = kappa (min d1^2 - min d0^2) / noise_var", config, "violated", **viol, **tl.take())]
    return [ob("soft output = kappa (min d1^2 - min d0^2) / noise_var", config, status,
               sample=dict(query="exists y, noise_var: LLR_p * noise_var != kappa (min_{label_p=1}|y-c|^2 - min_{label_p=0}|y-c|^2)", kappa=kappa, points=len(pts), paths=len(paths)), **tl.take())]


def replay_soft(m, yv, vv, pts, labels, kappa):
    with _disable_current_modes():
        mod, demod = build_modem(m)
        demod.eval()
        y = torch.tensor([[complex(yv[0], yv[1])]], dtype=torch.complex64)
        llr = demod(y, float(vv)).flatten().tolist()
        yy = complex(yv[0], yv[1])
        bad, detail = False, ""
        for p in range(len(llr)):
            m1 = min(abs(yy - c) ** 2 for c, lab in zip(pts, labels) if lab[p] == 1)
            m0 = min(abs(yy - c) ** 2 for c, lab in zip(pts, labels) if lab[p] == 0)
            e = kappa * (m1 - m0) / vv
            if abs(llr[p] * vv - kappa * (m1 - m0)) > 5e-4 * kappa:
                bad, detail = True, f"LLR[{p}] = {llr[p]:.5g}, max-log value {e:.5g} (kappa = {kappa})"
        return bad, detail


def work(item):
    tl = Tally()
    try:
        if item.get("selftest"):
            def mutate(mod, demod):
                c = demod.modulator.constellation
                c[0] = c[0] * 1.6       # the demodulator's copy of one point drifts away from the modulator's table
            m = [x for x in modem_specs() if x["name"] == "PSK8(gray=True)"][0]
            mod, demod = build_modem(m)
            pts, labels = table(mod)
            obs = hard_item_with_tables(m, tl, mutate, pts, labels)
            hit = any(o["status"] == "violated" for o in obs)
            return [ob("selftest:demodulator-table-drift", "selftest", "holds" if hit else "error", what="" if hit else "mutant not flagged")]
        if item["type"] == "hard":
            return hard_item(item["modem"], tl)
        return soft_item(item["modem"], tl)
    except NotEncodable as e:
        return [ob("harness", item["config"], "error", what=f"NotEncodable: {e}", stretch=bool(item.get("stretch")))]


def hard_item_with_tables(m, tl, mutate, pts, labels):
    """selftest helper: decide against the MODULATOR's published tables while the demodulator is mutated"""
    global table
    orig = table
    table = lambda mod: (pts, labels)   # noqa
    try:
        return hard_item(m, tl, mutate)
    finally:
        table = orig


def all_items():
    items = []
    maxo = 64
    for m in modem_specs(max_order=maxo):
        if TIER == "quick" and (m["order"] or 2) > 16 and not m["name"].startswith("QAM64(gray=True,normalize=True"):
            continue
        if m["memory"] in ("dpsk", "pi4") or m["name"] in ("Identity", "BPSK(real)"):
            continue   # differential / alternating schemes: decision variable needs atan2 or per-phase tables (outside, DESIGN §6)
        stretch = (m["order"] or 2) > 16
        items.append(dict(type="hard", modem=m, config=m["name"] + " hard", stretch=stretch and not m["name"].startswith("QAM64(gray=True,normalize=True")))
        items.append(dict(type="soft", modem=m, config=m["name"] + " soft", stretch=stretch))
    items.append(dict(selftest=True, config="selftest"))
    return items


def replay(body):
    for it in all_items():
        if it.get("config", "").startswith(body["config"] + " "):
            w = body["witness"]
            mod, demod = build_modem(it["modem"])
            pts, labels = table(demod.modulator if hasattr(demod, "modulator") and hasattr(demod.modulator, "constellation") else mod)
            if "noise_var" in w and it["type"] == "soft":
                return replay_soft(it["modem"], w["y"], w["noise_var"], pts, labels, 1.0)[0]
            if "noise_var" not in w and it["type"] == "hard":
                dmin2 = min(abs(p - q) ** 2 for i, p in enumerate(pts) for q in pts[i + 1:])
                return replay_hard(it["modem"], w["y"], pts, labels, 1e-4 * dmin2)[0]
    return False


def main():
    replay_main(__name__)
    ck = Check(PID)
    items = all_items()
    import kaira.modulations as MM
    ck.encoded(MM.BPSKDemodulator.forward, MM.QPSKDemodulator.forward, MM.QPSKDemodulator._min_distance_to_points, MM.PSKDemodulator.forward, MM.QAMDemodulator.forward,
               MM.PAMDemodulator.forward, MM.OQPSKDemodulator.forward)
    ck.bound("inputs", f"received point y = a + jb with a, b symbolic reals in [-{YMAX}, {YMAX}] (two independent points for the hard clause), noise variance symbolic in [1e-3, 1e3]; memoryless schemes of order <= {tier(16, 64)}")
    ck.assume("floats of symbolic quantities are reals: the nearest-point clause carries a margin of 1e-4 d_min^2, the LLR identity a tolerance of 1e-3 kappa; kappa (the fixed positive multiple) is read off one concrete evaluation and then proved for all y and noise variances")
    ck.assume("DPSK and pi/4-QPSK on a continuous received point are outside the claim (atan2 / alternating tables); covered for noise-free inputs by C05 and C15")
    ck.run_items(__name__, "work", items)
    ck.finish(min_obligations=15)


if __name__ == "__main__":
    main()
