import z3, time
def q(n, symbolicT=True):
    x = [z3.Real(f"x{i}") for i in range(n)]
    T = z3.Real("T") if symbolicT else z3.RealVal(2)
    s = z3.Real("s"); p = sum(xi*xi for xi in x)
    eps = z3.RealVal("1e-8") if False else z3.Q(1, 10**8)
    base = [T > 0, s >= 0, s*s*(p+eps) == T, p >= z3.Q(1,10**10)]
    out = [xi*s for xi in x]
    P = sum(o*o for o in out)
    for name, neg in [("never more", P > T), ("within 0.1% when p>=1e-4", z3.And(p >= z3.Q(1,10**4), P < T*z3.Q(999,1000))),
                      ("sign preserved", z3.Or(*[z3.And(xi > 0, o <= 0) for xi, o in zip(x, out)]))]:
        so = z3.Solver(); so.set("timeout", 60000); so.add(*base); so.add(neg)
        t0=time.time(); r = so.check(); print(n, symbolicT, name, r, f"{time.time()-t0:.2f}s")
for n in (2,3,4,6):
    q(n)
# idempotence: apply twice
def idem(n):
    x = [z3.Real(f"x{i}") for i in range(n)]; T = z3.Real("T")
    eps = z3.Q(1, 10**8)
    s1 = z3.Real("s1"); p1 = sum(xi*xi for xi in x)
    y = [xi*s1 for xi in x]; p2 = sum(v*v for v in y); s2 = z3.Real("s2")
    zz = [v*s2 for v in y]
    so = z3.Solver(); so.set("timeout", 60000)
    so.add(T > 0, s1 >= 0, s1*s1*(p1+eps) == T, s2 >= 0, s2*s2*(p2+eps) == T, p1 >= z3.Q(1,10**4), T >= z3.Q(1,100), T <= 100)
    # idempotent within 1e-3 relative: |z - y| <= 1e-3 |y| componentwise
    so.add(z3.Or(*[z3.Or(a - b > z3.Q(1,1000)*z3.If(b>=0,b,-b), b - a > z3.Q(1,1000)*z3.If(b>=0,b,-b)) for a,b in zip(zz,y)]))
    t0=time.time(); r = so.check(); print("idem", n, r, f"{time.time()-t0:.2f}s")
for n in (2,3): idem(n)
