"""C20 — per-sample components are pure: batch result equals the stack of single results."""
from __future__ import annotations

import contextlib
import io

import torch
import z3
from torch.utils._python_dispatch import _disable_current_modes

from .. import sym as S
from ..catalog import build_code, cfg, spec, T, modem_specs, build_modem
from ..common import Check, Tally, ob, tier, replay_main, TIER
from ..engine import fresh_bits, fresh_reals, elems, from_arr
from ..harness import sym_paths, decide, decide_nra, model_bits, real_bits, zor
from ..sym import NotEncodable

PID = "C20"


def quiet(f, *a, **k):
    with contextlib.redirect_stdout(io.StringIO()):
        return f(*a, **k)


def components():
    """name -> dict(make=callable returning f, n=member length, kind='bits'|'real'|'complex', oned=bool, blocks=bool)"""
    from kaira.models.fec import decoders as D
    import kaira.constraints as C
    out = {}

    def enc(name, s, oned=True):
        out[f"encoder {name}"] = dict(make=lambda: build_code(s), n=lambda f: f.code_dimension, kind="bits", oned=oned, blocks=True, state=True)
    enc("Hamming(7,4)", spec("HammingCodeEncoder", mu=3))
    enc("Cyclic(7,g=1011)", spec("CyclicCodeEncoder", code_length=7, generator_polynomial=0b1011))
    enc("RM(1,3)", spec("ReedMullerCodeEncoder", order=1, length_param=3))
    enc("Linear 3x7", spec("LinearBlockCodeEncoder", generator_matrix=T([[1, 1, 0, 1, 0, 0, 1], [0, 1, 1, 0, 1, 0, 1], [1, 1, 1, 0, 0, 1, 0]])))
    enc("SPC(3)", spec("SingleParityCheckCodeEncoder", dimension=3))
    enc("Repetition(3)", spec("RepetitionCodeEncoder", repetition_factor=3))
    enc("Golay(23,12)", spec("GolayCodeEncoder"))
    def dec(name, s, mk, oned=True, blocks=True, fixed_second=False):
        def make():
            e = quiet(build_code, s)
            d = quiet(mk, e)
            d._kv_n = e.code_length
            return d
        out[f"decoder {name}"] = dict(make=make, n=lambda f: f._kv_n, kind="bits", oned=oned, blocks=blocks, state=True, fixed_second=fixed_second)
    dec("Syndrome@Hamming(7,4)", spec("HammingCodeEncoder", mu=3), D.SyndromeLookupDecoder)
    dec("BruteForceML@Hamming(7,4)", spec("HammingCodeEncoder", mu=3), D.BruteForceMLDecoder)
    dec("BerlekampMassey@BCH(7,4)", spec("BCHCodeEncoder", mu=3, delta=3), D.BerlekampMasseyDecoder, fixed_second=True)
    dec("ReedMuller(hard)@RM(1,3)", spec("ReedMullerCodeEncoder", order=1, length_param=3), D.ReedMullerDecoder)
    if TIER == "thorough":
        # every code object of the C01 catalogue up to n = 16: encoder purity, and syndrome-decoder purity for the small ones
        from ..catalog import code_specs, cfg
        seen = set()
        for s in code_specs():
            c = cfg(s)
            if c in seen:
                continue
            seen.add(c)
            try:
                e = quiet(build_code, s)
            except Exception:  # noqa: BLE001
                continue
            if e.code_length <= 16 and e.code_dimension <= 8:
                enc(c, s)
                if e.code_length - e.code_dimension <= 4 and e.code_length <= 10 and len([k for k in out if k.startswith("decoder Syndrome@")]) < 40:
                    dec(f"Syndrome@{c}", s, D.SyndromeLookupDecoder)

    def hinv():
        e = build_code(spec("HammingCodeEncoder", mu=3))

        class F(torch.nn.Module):
            _kv_n = 7

            def forward(self, r):
                return e.inverse_encode(r)[0]
        return F()
    out["inverse_encode Hamming(7,4)"] = dict(make=hinv, n=lambda f: 7, kind="bits", oned=True, blocks=True, state=False)

    def bp_soft():
        # sum-product BP with soft output on the 3x6 LDPC matrix; members are sign patterns turned into LLRs of magnitude 0.8,
        # the observed output is the soft LLR rounded to 1e-3 (so that equality is meaningful on float32 leaves)
        from kaira.models.fec.encoders import LDPCCodeEncoder
        e = quiet(LDPCCodeEncoder, check_matrix=torch.tensor([[1., 0, 1, 1, 0, 0], [0, 1, 1, 0, 1, 0], [0, 0, 0, 1, 1, 1]]))
        d = quiet(D.BeliefPropagationDecoder, e, bp_iters=3, arctanh=True)

        class F(torch.nn.Module):
            def forward(self, bits):
                llr = (1 - 2 * bits) * 0.8
                _, soft = d(llr, return_soft=True)
                return torch.round(soft * 1000)
        return F()
    out["decoder BP(return_soft)@LDPC(6,3)"] = dict(make=bp_soft, n=lambda f: 6, kind="bits", oned=False, blocks=False, state=True, table=True, nested=False)

    def wag():
        from kaira.models.fec.encoders import SingleParityCheckCodeEncoder
        d = D.WagnerSoftDecisionDecoder(SingleParityCheckCodeEncoder(2))
        d._kv_n = 3
        return d
    out["decoder Wagner@SPC(2)"] = dict(make=wag, n=lambda f: 3, kind="real", oned=True, blocks=True, state=False, noties=True)
    for m in modem_specs(max_order=16):
        if m["name"] in ("QPSK(normalize=True)", "PSK8(gray=True)", "QAM16(gray=True,normalize=True)", "PAM4(gray=True,normalize=True)", "BPSK"):
            out[f"modulator {m['name']}"] = dict(make=(lambda mm=m: build_modem(mm)[0]), n=(lambda f, mm=m: mm["bps"] * 2), kind="bits", oned=True, blocks=False, state=True, table=True)
            out[f"hard demodulator {m['name']}"] = dict(make=(lambda mm=m: build_modem(mm)[1]), n=lambda f: 2, kind="complex", oned=True, blocks=False, state=True)
    out["constraint TotalPower(1.0)"] = dict(make=lambda: C.TotalPowerConstraint(1.0), n=lambda f: 2, kind="real", oned=False, blocks=False, state=False, nra=True, nonzero=True, nested=False)
    out["constraint AveragePower(1.0)"] = dict(make=lambda: C.AveragePowerConstraint(1.0), n=lambda f: 2, kind="real", oned=False, blocks=False, state=False, nra=True, nonzero=True, nested=False)
    # the same constraints without the non-zero assumption (a silent member takes the uniform-signal fallback) and on complex members
    out["constraint TotalPower(1.0) incl. silent members"] = dict(make=lambda: C.TotalPowerConstraint(1.0), n=lambda f: 2, kind="real", oned=False, blocks=False, state=False, nra=True, nested=False)
    out["constraint AveragePower(1.0) incl. silent members"] = dict(make=lambda: C.AveragePowerConstraint(1.0), n=lambda f: 2, kind="real", oned=False, blocks=False, state=False, nra=True, nested=False)
    out["constraint TotalPower(2.0) complex members"] = dict(make=lambda: C.TotalPowerConstraint(2.0), n=lambda f: 2, kind="complex", oned=False, blocks=False, state=False, nra=True, nested=False)
    out["constraint AveragePower(0.5) complex members"] = dict(make=lambda: C.AveragePowerConstraint(0.5), n=lambda f: 2, kind="complex", oned=False, blocks=False, state=False, nra=True, nested=False)
    return out


def neq(a, b, tol=None):
    """z3: some coordinate differs (exactly for bits, beyond tol for reals)"""
    terms = []
    for x, y in zip(a, b):
        if isinstance(x, S.Cx) or isinstance(y, S.Cx):
            x, y = S.tocx(x), S.tocx(y)
            pairs = [(x.re, y.re), (x.im, y.im)]
        else:
            pairs = [(x, y)]
        for p, q in pairs:
            if tol is None:
                terms.append(S.zbool(S.ne(p, q)))
            else:
                d = S.sub(p, q)
                terms += [S.zbool(S.gt(d, tol)), S.zbool(S.lt(d, -tol))]
    return zor(terms)


def run_component(name, tl, mutate=None):
    c = components()[name]
    f = c["make"]()
    if mutate:
        mutate(f)
    n = c["n"](f)
    B = 2
    obs = []
    dec_fn = decide_nra if c.get("nra") else decide
    tol = 1e-6 if c["kind"] != "bits" and c.get("nra") else None

    def rec(clause, st, **kw):
        obs.append(ob(clause, name, st, **kw, **tl.take()))

    def fresh(prefix, shape):
        if c["kind"] == "bits":
            return fresh_bits(prefix, shape)
        if c["kind"] == "complex":
            return fresh_reals(prefix, shape, torch.complex64)
        return fresh_reals(prefix, shape)
    fixed = None
    if c.get("fixed_second"):
        fixed = [1.0, 0.0, 1.0, 1.0, 0.0, 0.0, 1.0][:n]

    def prep():
        if hasattr(f, "eval"):
            f.eval()
        if hasattr(f, "reset_state"):
            f.reset_state()

    def call(x):
        prep()
        r = f(x)
        return r[0] if isinstance(r, tuple) else r

    def run(ctx):
        x1 = fresh("p", (n,))
        x2 = fresh("q", (n,)) if fixed is None else from_arr(fixed, torch.float32, (n,))
        X = torch.stack([x1, x2])
        before = list(elems(X))
        res = dict(x1=x1, x2=x2)
        res["batch"] = call(X)
        res["after"] = list(elems(X))
        res["before"] = before
        res["again"] = call(X)
        res["swapped"] = call(torch.stack([x2, x1]))
        res["one_a"] = call(x1.unsqueeze(0))
        res["one_b"] = call(x2.unsqueeze(0))
        if c["oned"]:
            try:
                res["flat_a"] = call(x1)
            except (RuntimeError, ValueError, IndexError, AssertionError, TypeError) as e:
                if isinstance(e, NotEncodable):
                    raise
                res["flat_a"] = None        # rejected with an error: acceptable for an unsupported layout
        try:
            # (B1, B2, n); for constraints the item is the leading index, so a (1,2,n) tensor is ONE item: not comparable
            res["b3"] = call(torch.stack([x1, x2]).reshape(1, 2, n)) if c.get("nested", True) else None
        except (RuntimeError, ValueError, IndexError, AssertionError, TypeError) as e:
            if isinstance(e, NotEncodable):
                raise
            res["b3"] = None
        if c["blocks"]:
            try:
                res["blocks"] = call(torch.cat([x1, x2]).unsqueeze(0))     # (1, 2n): two blocks in one row
            except (RuntimeError, ValueError, IndexError, AssertionError, TypeError) as e:
                if isinstance(e, NotEncodable):
                    raise
                res["blocks"] = None
        return res
    assume = []
    names = [f"p{i}" for i in range(n)] + ([f"q{i}" for i in range(n)] if fixed is None else [])
    if c["kind"] == "real":
        assume = [z3.And(z3.Real(nm) >= -10, z3.Real(nm) <= 10) for nm in names]
        if c.get("noties"):
            for grp in (names[:n], names[n:]):
                for i, a in enumerate(grp):
                    assume.append(z3.Real(a) != 0)
                    for b_ in grp[i + 1:]:
                        assume += [z3.Real(a) != z3.Real(b_), z3.Real(a) != -z3.Real(b_)]
        if c.get("nonzero"):
            assume += [zor([z3.Or(z3.Real(nm) > z3.RealVal("1/10"), z3.Real(nm) < -z3.RealVal("1/10")) for nm in names[:n]]),
                       zor([z3.Or(z3.Real(nm) > z3.RealVal("1/10"), z3.Real(nm) < -z3.RealVal("1/10")) for nm in names[n:]])]
    if c["kind"] == "complex":
        cn = [f"{p}{i}{s_}" for p in ("p", "q") for i in range(n) for s_ in ("r", "i")]
        assume = [z3.And(z3.Real(nm) >= -3, z3.Real(nm) <= 3) for nm in cn]
    try:
        paths = sym_paths(run, assume, tl, max_paths=700, state=(f,) if c["state"] else ())
    except (RuntimeError, ValueError, IndexError, AssertionError, TypeError) as e:
        if isinstance(e, NotEncodable):
            raise
        rec("batch = stack of singles", "violated", what=f"raises on a batch of two valid members: {type(e).__name__}: {str(e)[:100]}", witness={"raises": True}, replay={"reproduced": True})
        return obs
    agg = {}

    def note(clause, st, detail=""):
        cur = agg.get(clause, ("holds", ""))
        if st == "violated" and cur[0] != "violated":
            agg[clause] = (st, detail)
        elif st == "inconclusive" and cur[0] == "holds":
            agg[clause] = (st, "")
        elif clause not in agg:
            agg[clause] = cur
    for ctx, R in paths:
        batch = elems(R["batch"])
        per = len(batch) // B

        def cmp(clause, a, b_, what):
            if a is None or b_ is None:
                note(clause, "holds")
                return
            if len(a) != len(b_):
                note(clause, "violated", f"{what}: {len(a)} vs {len(b_)} output elements")
                return
            st, model = dec_fn(ctx, neq(a, b_, tol))
            detail = ""
            if st == "violated":
                detail = what + ": " + describe(model, names, c["kind"], n)
            note(clause, st, detail)
        cmp("batch = stack of singles", batch[:per], elems(R["one_a"]), "row 0 of f(stack) != f(member 0 alone)")
        cmp("batch = stack of singles", batch[per:], elems(R["one_b"]), "row 1 of f(stack) != f(member 1 alone)")
        sw = elems(R["swapped"])
        cmp("independent of position / other members", sw[per:], batch[:per], "member 0 processed at position 1 gives a different result")
        cmp("independent of position / other members", sw[:per], batch[per:], "member 1 processed at position 0 gives a different result")
        cmp("repeated call gives the same answer", elems(R["again"]), batch, "second call on the same batch differs")
        st, model = decide(ctx, neq(R["before"], R["after"]))
        note("input tensor not modified", st, "input modified in place" if st == "violated" else "")
        if c["oned"]:
            cmp("1-D layout agrees or is rejected", None if R["flat_a"] is None else elems(R["flat_a"]), batch[:per], "f(member as 1-D tensor) != row of f(stack)")
        cmp("(B1,B2,n) layout agrees or is rejected", None if R["b3"] is None else elems(R["b3"]), batch, "f on (1,2,n) != f on (2,n)")
        if c["blocks"]:
            cmp("(B, b*n) layout agrees or is rejected", None if R.get("blocks") is None else elems(R["blocks"]), batch, "two blocks in one row != two rows")
    for clause, (st, detail) in agg.items():
        if st == "violated":
            rec(clause, st, what=detail, witness={"detail": detail}, replay={"reproduced": replay_component(name, detail)})
        else:
            rec(clause, st, sample=dict(query=clause, paths=len(paths)))
    return obs


def describe(model, names, kind, n):
    if model is None:
        return ""
    if kind == "bits":
        vals = [1 if z3.is_true(model.eval(z3.Bool(nm), model_completion=True)) else 0 for nm in names]
    elif kind == "complex":
        vals = []
        for p in ("p", "q"):
            for i in range(n):
                vals.append(complex(float(S.zval(model, z3.Real(f"{p}{i}r"))), float(S.zval(model, z3.Real(f"{p}{i}i")))))
    else:
        vals = [float(S.zval(model, z3.Real(nm))) for nm in names]
    return "INPUT=" + repr(vals)


def replay_component(name, detail):
    """re-run the real component on the witness members and compare batch vs singles / layouts concretely"""
    if "INPUT=" not in detail:
        return True
    vals = eval(detail.split("INPUT=")[1], {"__builtins__": {}}, {})
    c = components()[name]
    with _disable_current_modes():
        f = c["make"]()
        n = c["n"](f)
        dt = torch.complex64 if c["kind"] == "complex" else torch.float32
        x1 = torch.tensor(vals[:n], dtype=dt)
        x2 = torch.tensor(vals[n:2 * n], dtype=dt) if len(vals) >= 2 * n else torch.tensor([1.0, 0.0, 1.0, 1.0, 0.0, 0.0, 1.0][:n])

        def call(x):
            if hasattr(f, "eval"):
                f.eval()
            if hasattr(f, "reset_state"):
                f.reset_state()
            r = f(x.clone())
            return r[0] if isinstance(r, tuple) else r
        try:
            batch = call(torch.stack([x1, x2]))
            a, b_ = call(x1.unsqueeze(0)), call(x2.unsqueeze(0))
            sw = call(torch.stack([x2, x1]))
        except Exception:
            return True

        def differs(u, v):
            u, v = u.reshape(-1), v.reshape(-1)
            if u.numel() != v.numel():
                return True
            return bool((u.to(torch.complex128) - v.to(torch.complex128)).abs().max() > 1e-5) if u.numel() else False
        per = batch.reshape(2, -1)
        if differs(per[0], a) or differs(per[1], b_) or differs(sw.reshape(2, -1)[1], per[0]) or differs(sw.reshape(2, -1)[0], per[1]) or differs(call(torch.stack([x1, x2])), batch):
            return True
        for alt in (lambda: call(x1) if c["oned"] else None, lambda: call(torch.stack([x1, x2]).reshape(1, 2, n)), lambda: call(torch.cat([x1, x2]).unsqueeze(0)) if c["blocks"] else None):
            try:
                r = alt()
            except Exception:
                continue
            if r is None:
                continue
            ref = per[0] if r.numel() == per[0].numel() else batch
            if differs(r, ref):
                return True
    return False


def work(item):
    from .. import ops as O
    tl = Tally()
    name = item["config"]
    try:
        if item.get("selftest"):
            def mutate(f):
                orig = f.forward

                def fwd(r, *a, **k):
                    out = orig(r, *a, **k)
                    if r.dim() == 2 and r.shape[0] > 1:
                        out = out.clone()
                        out[1] = out[0]       # second row answered with the first row's result
                    return out
                f.forward = fwd
            obs = run_component("decoder BruteForceML@Hamming(7,4)", tl, mutate)
            hit = any(o["status"] == "violated" for o in obs)
            return [ob("selftest:row-1-copies-row-0", "selftest", "holds" if hit else "error", what="" if hit else "mutant not flagged")]
        O.AUTO_TABLE = bool(components()[name].get("table")) or name.startswith("modulator")
        return run_component(name, tl)
    except NotEncodable as e:
        return [ob("harness", name, "inconclusive" if "unknown" in str(e) else "error", what=f"NotEncodable: {e}")]
    finally:
        O.AUTO_TABLE = False


def replay(body):
    return replay_component(body["config"], body["witness"].get("detail", ""))


def main():
    replay_main(__name__)
    ck = Check(PID)
    items = [dict(config=nm) for nm in components()]
    items.append(dict(selftest=True, config="selftest"))
    from kaira.models.fec import utils as U
    from kaira.models.fec.decoders import base as DB, syndrome_lookup, berlekamp_massey, brute_force_ml, reed_muller_decoder, wagner_soft_decision_decoder
    from kaira.models.fec.encoders import base as EB
    import kaira.constraints.power as CP
    ck.encoded(U.apply_blockwise, syndrome_lookup.SyndromeLookupDecoder.forward, berlekamp_massey.BerlekampMasseyDecoder.forward, brute_force_ml.BruteForceMLDecoder.forward,
               reed_muller_decoder.ReedMullerDecoder.forward, wagner_soft_decision_decoder.WagnerSoftDecisionDecoder.forward, CP.TotalPowerConstraint.forward, CP.AveragePowerConstraint.forward)
    ck.bound("members", "batches of two symbolic members (all values of both at once), each member also alone as a batch of one and as a 1-D tensor, swapped order, (1,2,n) layout and two blocks in one row; Berlekamp-Massey: second member fixed (its front end concretises every bit)")
    ck.bound("components", f"{len(items) - 1} components: 7 encoders, 5 hard decoders/inverses, Wagner, sum-product BP soft output (rounded to 1e-3), 5 modulators + hard demodulators (continuous received points), total/average power constraints")
    ck.assume("an unsupported layout may be rejected with an exception (never answered with different values); PAPR and per-antenna constraints and iterative soft decoders are outside this check's catalogue (their per-item clauses are in C08 / C10)")
    ck.run_items(__name__, "work", items)
    ck.finish(min_obligations=40)


if __name__ == "__main__":
    main()
