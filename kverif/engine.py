"""E1: symbolic tensors under the real torch front end (TorchDispatchMode + wrapper subclass).

Geometry comes from meta tensors (torch's own kernels), values live in a shared Storage of
symbolic scalars (kverif.sym). Data-dependent Python values (bool(), item(), int()) fork the
path by deterministic re-execution with a decision prefix.
"""
from __future__ import annotations

import math
import time

import numpy as np
import torch
import z3
from torch.utils._python_dispatch import TorchDispatchMode, _disable_current_modes
from torch.utils._pytree import tree_map

from . import sym as S
from .sym import NotEncodable


# ------------------------------------------------------------------------------------------------
# path context / fork engine
# ------------------------------------------------------------------------------------------------
class Infeasible(Exception):
    pass


class PathLimit(Exception):
    pass


class Ctx:
    cur = None

    def __init__(self, prefix, assumptions, tally=None, timeout_ms=60000):
        self.prefix = list(prefix)
        self.pos = 0
        self.pc = []
        self.open = []          # (position, [alternative values])
        self.side = []          # purification constraints (always true definitions)
        self.defined = []       # definedness conditions met on this path
        self.solver = z3.Solver()
        self.solver.set("timeout", timeout_ms)
        self._nside = 0
        self.tally = tally
        self.rng_log = []       # stubbed random draws in generation order
        for a in assumptions:
            self.solver.add(a)
            self.pc.append(a)

    def _sync(self):
        while self._nside < len(self.side):
            self.solver.add(self.side[self._nside])
            self._nside += 1

    def check(self, *assume):
        self._sync()
        t0 = time.time()
        r = self.solver.check(*assume)
        if self.tally is not None:
            self.tally.count(str(r), time.time() - t0)
        return r

    def _commit(self, cond):
        self.pc.append(cond)
        self.solver.add(cond)

    def decide(self, cond):
        """cond: z3 Bool -> python bool, forking when both sides are feasible"""
        if isinstance(cond, bool):
            return cond
        cond = z3.simplify(cond)
        if z3.is_true(cond):
            return True
        if z3.is_false(cond):
            return False
        if self.pos < len(self.prefix):
            v = self.prefix[self.pos]
        else:
            t_ok = self.check(cond)
            f_ok = self.check(z3.Not(cond))
            if z3.unknown in (t_ok, f_ok):
                raise NotEncodable("solver returned unknown while choosing a branch")
            t_ok = t_ok == z3.sat
            f_ok = f_ok == z3.sat
            if t_ok and f_ok:
                v = True
                self.open.append((self.pos, [False]))
            elif t_ok:
                v = True
            elif f_ok:
                v = False
            else:
                raise Infeasible()
            self.prefix.append(v)
        self.pos += 1
        self._commit(cond if v else z3.Not(cond))
        return v

    def choose(self, term, limit=4096):
        """term: z3 Int/Real term with finitely many feasible values -> concrete value (fork over all)"""
        term = z3.simplify(term)
        if z3.is_int_value(term):
            return term.as_long()
        if z3.is_rational_value(term):
            return float(term.as_fraction())
        if self.pos < len(self.prefix):
            v = self.prefix[self.pos]
        else:
            vals = []
            self._sync()
            self.solver.push()
            while True:
                r = self.check()
                if r == z3.unknown:
                    self.solver.pop()
                    raise NotEncodable("solver returned unknown while enumerating values")
                if r != z3.sat:
                    break
                mv = self.solver.model().eval(term, model_completion=True)
                vals.append(mv)
                self.solver.add(term != mv)
                if len(vals) > limit:
                    self.solver.pop()
                    raise NotEncodable("too many feasible values for a concretised scalar")
            self.solver.pop()
            if not vals:
                raise Infeasible()
            pyv = [x.as_long() if z3.is_int_value(x) else float(x.as_fraction()) for x in vals]
            pyv.sort()
            v = pyv[0]
            if len(pyv) > 1:
                self.open.append((self.pos, pyv[1:]))
            self.prefix.append(v)
        self.pos += 1
        if z3.is_int(term):
            self._commit(term == int(v))
        else:
            from fractions import Fraction
            fr = Fraction(v)
            self._commit(term == z3.RealVal(f"{fr.numerator}/{fr.denominator}"))
        return v


_SERIAL = [0]


def _next_serial():
    _SERIAL[0] += 1
    return _SERIAL[0]


def explore(fn, assumptions=(), tally=None, max_paths=100000, timeout_ms=60000):
    """DFS over decision prefixes. fn(ctx) runs the real code under the mode and returns a result.
    Returns list of (ctx, result)."""
    stack = [[]]
    results = []
    while stack:
        prefix = stack.pop()
        ctx = Ctx(prefix, assumptions, tally, timeout_ms)
        Ctx.cur = ctx
        S.ENV.side = ctx.side
        S.ENV.defined = ctx.defined
        S.ENV.serial = _next_serial()
        S.ENV.tainted = False
        try:
            out = fn(ctx)
        except Infeasible:
            continue
        except Exception as e:
            try:
                e._kv_ctx = ctx      # lets a harness extract an input on which the real code raises
            except Exception:
                pass
            raise
        finally:
            tainted = S.ENV.tainted
            Ctx.cur = None
            S.ENV.side = None
            S.ENV.defined = None
        ctx._sync()
        ctx.tainted = tainted
        results.append((ctx, out))
        if tally is not None:
            tally.paths += 1
        if len(results) > max_paths:
            raise PathLimit(f"more than {max_paths} paths")
        for pos, alts in ctx.open:
            if pos >= len(prefix):
                for a in alts:
                    stack.append(ctx.prefix[:pos] + [a])
    return results


# ------------------------------------------------------------------------------------------------
# storage / tensors
# ------------------------------------------------------------------------------------------------
class Storage:
    __slots__ = ("flat", "sym")

    def __init__(self, flat, sym=True):
        self.flat = flat   # 1-D numpy object array
        self.sym = sym     # may contain symbolic scalars


_CONC = (bool, int, float, complex)


def _has_sym(flat):
    for v in flat:
        if type(v) not in _CONC:
            return True
    return False


def mkmeta(shape, dtype):
    with _disable_current_modes():
        return torch.empty(tuple(shape), dtype=dtype, device="meta")


_FLOAT32 = (torch.float32, torch.float16, torch.bfloat16)
_INTS = (torch.int8, torch.int16, torch.int32, torch.int64, torch.uint8)


def norm_scalar(v, dtype):
    """bring a scalar into the value set of dtype"""
    if type(v) is float and v != v:
        u = S.unbox(v)
        if u is not None:
            v = u
    if type(v).__name__ == "G":
        if v.leaves.dtype != dtype:
            with _disable_current_modes():
                from .gtab import G
                return G(v.sel, v.leaves.to(dtype))
        return v
    if dtype.is_complex:
        if isinstance(v, S.Cx):
            if dtype == torch.complex64:
                re = S.f32(v.re) if isinstance(v.re, float) else (float(v.re) if S.is_conc(v.re) else v.re)
                im = S.f32(v.im) if isinstance(v.im, float) else (float(v.im) if S.is_conc(v.im) else v.im)
                return S.Cx(re, im)
            return v
        if isinstance(v, complex):
            if dtype == torch.complex64:
                return S.Cx(S.f32(v.real), S.f32(v.imag))
            return S.Cx(v.real, v.imag)
        if S.is_conc(v):
            return S.Cx(S.f32(float(v)) if dtype == torch.complex64 else float(v), 0.0)
        return S.Cx(v, 0.0)
    if isinstance(v, S.Cx):
        raise NotEncodable("complex value in a real tensor")
    if isinstance(v, complex):
        raise NotEncodable("complex value in a real tensor")
    if dtype.is_floating_point:
        if isinstance(v, float):
            return S.f32(v) if dtype in _FLOAT32 else v
        if isinstance(v, (bool, int)):
            return float(v)
        return v
    if dtype == torch.bool:
        if isinstance(v, (int, float)) and not isinstance(v, bool):
            return bool(v)
        if S.is_bitlike(v) or isinstance(v, bool):
            return v
        return S.tobit(v)
    # integer dtypes
    if isinstance(v, bool):
        return int(v)
    if isinstance(v, float):
        v = int(v)
    if dtype == torch.uint8 and isinstance(v, int):
        return v % 256          # concrete values wrap as in torch; symbolic integers are assumed in range
    return v


class SymTensor(torch.Tensor):
    @staticmethod
    def __new__(cls, storage, meta):
        r = torch.Tensor._make_wrapper_subclass(cls, tuple(meta.shape), strides=meta.stride(),
                                                storage_offset=meta.storage_offset(), dtype=meta.dtype, device="cpu")
        r.storage_ = storage
        r.meta = meta
        return r

    def arr(self):
        m = self.meta
        if m.numel() == 0:
            return np.empty(tuple(m.shape), dtype=object)
        return np.lib.stride_tricks.as_strided(self.storage_.flat[m.storage_offset():], shape=tuple(m.shape),
                                               strides=tuple(s * 8 for s in m.stride()), writeable=True)

    def __repr__(self):
        return f"SymTensor{tuple(self.shape)}:{self.dtype}"

    __str__ = __repr__

    def __format__(self, spec):
        return repr(self)

    @classmethod
    def __torch_function__(cls, func, types, args=(), kwargs=None):
        kwargs = kwargs or {}
        name = getattr(func, "__name__", "")
        if args and isinstance(args[0], SymTensor):
            t = args[0]
            if name == "item":
                return _item(t)
            if name == "__bool__":
                return bool(_item(t))
            if name in ("__int__", "__index__"):
                return int(_item(t))
            if name == "__float__":
                return float(_item(t))
            if name == "tolist":
                return _tolist(t)
            if name == "numpy" or name == "__array__":
                raise NotEncodable("numpy() on a symbolic tensor")
            if name == "__len__":
                return t.meta.shape[0]
            if name == "__repr__" or name == "__str__" or name == "__format__":
                return repr(t)
        if name == "__getitem__" and len(args) == 2:
            r = _getitem_symbolic_scalar_index(args[0], args[1])
            if r is not NotImplemented:
                return r
        if name == "__setitem__" and len(args) == 3:
            r = _setitem_symbolic_scalar_index(args[0], args[1], args[2])
            if r is not NotImplemented:
                return r
        with torch._C.DisableTorchFunctionSubclass():
            return func(*args, **kwargs)


def _is_sym0d(k):
    if isinstance(k, SymTensor) and k.meta.dim() == 0 and not k.dtype.is_floating_point and k.dtype != torch.bool:
        v = k.arr().reshape(-1)[0]
        return type(v) not in _CONC
    return False


def _getitem_symbolic_scalar_index(base, key):
    """x[i] with a 0-dim symbolic integer tensor i: torch would call int(i); keep it symbolic instead by
    indexing with i.reshape(1) and dropping the resulting unit dimension"""
    keys = tuple(key) if isinstance(key, (tuple, list)) else (key,)
    if not any(_is_sym0d(k) for k in keys):
        return NotImplemented
    newkeys = []
    for k in keys:
        if _is_sym0d(k):
            newkeys.append(k.reshape(1))
        elif isinstance(k, int):
            newkeys.append(torch.tensor([k]))
        elif isinstance(k, torch.Tensor) and k.dim() == 0:
            newkeys.append(k.reshape(1))
        else:
            raise NotEncodable("symbolic scalar index mixed with slices")
    r = base[tuple(newkeys)]
    return r[0]


def _setitem_symbolic_scalar_index(base, key, value):
    """x[i0, .., ik, p] = v with a symbolic 0-dim last index p and concrete leading indices: written as a select over
    every candidate position (torch itself would call int(p))"""
    keys = tuple(key) if isinstance(key, (tuple, list)) else (key,)
    if not any(_is_sym0d(k) for k in keys):
        return NotImplemented
    if any(_is_sym0d(k) for k in keys[:-1]) or not all(isinstance(k, int) or (isinstance(k, torch.Tensor) and k.dim() == 0) for k in keys[:-1]):
        raise NotEncodable("symbolic scalar index in a non-final position of an assignment")
    prefix = tuple(int(k) for k in keys[:-1])
    p = keys[-1]
    row = base[prefix] if prefix else base
    n = row.shape[0]
    for j in range(n):
        cond = (p == j)
        cur = row[j]
        v = value if not isinstance(value, torch.Tensor) else value.reshape(cur.shape)
        row[j] = torch.where(cond, v if isinstance(v, torch.Tensor) else torch.full_like(cur, v), cur)
    return None


def _item(t):
    if t.meta.numel() != 1:
        raise RuntimeError("a Tensor with more than one element cannot be converted to Scalar")
    v = t.arr().reshape(-1)[0]
    if isinstance(v, S.Cx) and S.is_conc(v.re) and S.is_conc(v.im):
        return complex(v.re, v.im)
    if type(v) in _CONC:
        return v
    return SymScalar(v)


def _tolist(t):
    a = t.arr()

    def conv(x):
        if isinstance(x, np.ndarray):
            return [conv(y) for y in x]
        return x if type(x) in _CONC else SymScalar(x)
    if a.ndim == 0:
        return conv(a.reshape(-1)[0])
    return [conv(y) for y in a]


class _TensorOperand(Exception):
    pass


def _tensor_fallback(opname, reflected):
    def deco(f):
        def g(self, o):
            try:
                return f(self, o)
            except _TensorOperand:
                t = self.as_tensor()
                import operator
                fn = getattr(operator, opname)
                return fn(o, t) if reflected else fn(t, o)
        return g
    return deco


class SymScalar:
    """python-level symbolic number returned by .item(); arithmetic stays symbolic, truth value forks"""
    __slots__ = ("v",)

    def __init__(self, v):
        self.v = v

    @staticmethod
    def _u(o):
        if isinstance(o, torch.Tensor):
            raise _TensorOperand()
        return o.v if isinstance(o, SymScalar) else o

    def as_tensor(self):
        v = self.v
        intlike = S.is_bitlike(v) or (isinstance(v, S.Poly) and v.is_int)
        return from_arr([v], torch.int64 if intlike else torch.float32, ())

    @_tensor_fallback("add", False)
    def __add__(self, o): return wrap_scalar(S.add(self.v, self._u(o)))
    @_tensor_fallback("add", True)
    def __radd__(self, o): return wrap_scalar(S.add(self._u(o), self.v))
    @_tensor_fallback("sub", False)
    def __sub__(self, o): return wrap_scalar(S.sub(self.v, self._u(o)))
    @_tensor_fallback("sub", True)
    def __rsub__(self, o): return wrap_scalar(S.sub(self._u(o), self.v))
    @_tensor_fallback("mul", False)
    def __mul__(self, o): return wrap_scalar(S.mul(self.v, self._u(o)))
    @_tensor_fallback("mul", True)
    def __rmul__(self, o): return wrap_scalar(S.mul(self._u(o), self.v))
    @_tensor_fallback("truediv", False)
    def __truediv__(self, o): return wrap_scalar(S.div(self.v, self._u(o)))
    @_tensor_fallback("truediv", True)
    def __rtruediv__(self, o): return wrap_scalar(S.div(self._u(o), self.v))
    def __neg__(self): return wrap_scalar(S.neg(self.v))
    def __abs__(self): return wrap_scalar(S.absv(self.v))
    def __mod__(self, o): return wrap_scalar(S.remainder(self.v, self._u(o)))
    def __pow__(self, o): return wrap_scalar(S.powi(self.v, self._u(o)))
    @_tensor_fallback("lt", False)
    def __lt__(self, o): return wrap_scalar(S.lt(self.v, self._u(o)))
    @_tensor_fallback("le", False)
    def __le__(self, o): return wrap_scalar(S.le(self.v, self._u(o)))
    @_tensor_fallback("gt", False)
    def __gt__(self, o): return wrap_scalar(S.gt(self.v, self._u(o)))
    @_tensor_fallback("ge", False)
    def __ge__(self, o): return wrap_scalar(S.ge(self.v, self._u(o)))
    @_tensor_fallback("eq", False)
    def __eq__(self, o): return wrap_scalar(S.eq(self.v, self._u(o)))
    @_tensor_fallback("ne", False)
    def __ne__(self, o): return wrap_scalar(S.ne(self.v, self._u(o)))
    def __xor__(self, o): return wrap_scalar(S.bxor(S.tobit(self.v), S.tobit(self._u(o))))
    __rxor__ = __xor__
    def __and__(self, o): return wrap_scalar(S.band(S.tobit(self.v), S.tobit(self._u(o))))
    __rand__ = __and__
    def __or__(self, o): return wrap_scalar(S.bor(S.tobit(self.v), S.tobit(self._u(o))))
    __ror__ = __or__
    def __invert__(self): return wrap_scalar(S.bnot(S.tobit(self.v)))

    def __bool__(self):
        return Ctx.cur.decide(S.zbool(self.v))

    def _concretise(self):
        v = self.v
        if S.is_bitlike(v):
            return 1 if Ctx.cur.decide(S.zbool(v)) else 0
        if isinstance(v, S.Cases):
            for g, val in v.cs[:-1]:
                if Ctx.cur.decide(S.zbool(g)):
                    return SymScalar(val)._concretise() if S._is_sym(val) else val
            val = v.cs[-1][1]
            return SymScalar(val)._concretise() if S._is_sym(val) else val
        p = S.topoly(v)
        return Ctx.cur.choose(S.poly_z3(p))

    def __int__(self):
        return int(self._concretise())

    __index__ = __int__

    def __float__(self):
        v = self.v
        if S.is_bitlike(v) or isinstance(v, S.Cases) or (isinstance(v, S.Poly) and v.is_int):
            return float(self._concretise())
        if isinstance(v, S.Poly) and all(S._ATOM_BY_ID[a].kind == "bit" or S._ATOM_BY_ID[a].is_int for a in v.atoms()):
            return float(self._concretise())      # rational combination of bits / integers (e.g. errors / total): finitely many values
        # float(x) of a symbolic real (e.g. float(power.item())): there is no finite set of values to fork over, and
        # Python insists on an exact float: hand out a NaN box (sym.nanbox); the path is marked tainted.
        return S.nanbox(v)

    def __round__(self, n=None):
        return wrap_scalar(S.round_(self.v))

    def __hash__(self):
        return hash(self._concretise())

    def __repr__(self):
        return f"SymScalar({self.v!r})"

    def __format__(self, spec):
        return repr(self)


def wrap_scalar(v):
    return v if type(v) in _CONC else SymScalar(v)


# ------------------------------------------------------------------------------------------------
# construction helpers
# ------------------------------------------------------------------------------------------------
def from_arr(a, dtype, shape=None):
    a = np.asarray(a, dtype=object) if not isinstance(a, np.ndarray) else a
    shape = tuple(a.shape) if shape is None else tuple(shape)
    meta = mkmeta(shape, dtype)
    flat = np.empty(meta.numel(), dtype=object)
    src = a.reshape(-1)
    sym = False
    for i in range(flat.shape[0]):
        v = norm_scalar(src[i], dtype)
        if type(v) not in _CONC:
            sym = True
        flat[i] = v
    return SymTensor(Storage(flat, sym), meta)


def from_real(t):
    with _disable_current_modes():
        t = t.detach()
        if t.is_sparse:
            t = t.to_dense()
        vals = t.reshape(-1).tolist()
        dtype = t.dtype
        shape = tuple(t.shape)
    meta = mkmeta(shape, dtype)
    flat = np.empty(len(vals), dtype=object)
    if dtype.is_complex:
        for i, v in enumerate(vals):
            flat[i] = S.Cx(v.real, v.imag)
        return SymTensor(Storage(flat, True), meta)
    for i, v in enumerate(vals):
        flat[i] = v
    return SymTensor(Storage(flat, False), meta)


def to_real(t):
    """SymTensor with only concrete content -> real torch tensor"""
    a = t.arr()
    dtype = t.dtype

    def conv(v):
        if isinstance(v, S.Cx):
            if not (S.is_conc(v.re) and S.is_conc(v.im)):
                raise NotEncodable("to_real on symbolic complex")
            return complex(v.re, v.im)
        if type(v) not in _CONC:
            raise NotEncodable("to_real on symbolic content")
        return v
    lst = [conv(v) for v in a.reshape(-1)]
    with _disable_current_modes():
        return torch.tensor(lst, dtype=dtype).reshape(tuple(a.shape))


def is_concrete(t):
    st = t.storage_
    if not st.sym:
        return True
    for v in t.arr().reshape(-1):
        if isinstance(v, S.Cx):
            if not (S.is_conc(v.re) and S.is_conc(v.im)):
                return False
        elif type(v) not in _CONC:
            return False
    return True


def fresh_bits(name, shape, dtype=torch.float32):
    meta = mkmeta(shape, dtype)
    flat = np.empty(meta.numel(), dtype=object)
    for i in range(flat.shape[0]):
        flat[i] = S.bitvar(f"{name}{i}")
    return SymTensor(Storage(flat, True), meta)


def fresh_reals(name, shape, dtype=torch.float32):
    meta = mkmeta(shape, dtype)
    flat = np.empty(meta.numel(), dtype=object)
    for i in range(flat.shape[0]):
        if dtype.is_complex:
            flat[i] = S.Cx(S.realvar(f"{name}{i}r"), S.realvar(f"{name}{i}i"))
        else:
            flat[i] = S.realvar(f"{name}{i}")
    return SymTensor(Storage(flat, True), meta)


def elems(t):
    """flat list of the scalars of a SymTensor (or real tensor) in logical (row-major) order"""
    if isinstance(t, SymTensor):
        return list(t.arr().reshape(-1))
    with _disable_current_modes():
        return t.reshape(-1).tolist()


def eval_tensor(t, model):
    """SymTensor -> real tensor under a model"""
    vals = [S.evaluate(v, model) for v in elems(t)]
    with _disable_current_modes():
        if t.dtype.is_complex:
            return torch.tensor([complex(v) for v in vals], dtype=t.dtype).reshape(tuple(t.shape))
        if t.dtype.is_floating_point:
            return torch.tensor([float(v) for v in vals], dtype=t.dtype).reshape(tuple(t.shape))
        if t.dtype == torch.bool:
            return torch.tensor([bool(v) for v in vals], dtype=t.dtype).reshape(tuple(t.shape))
        return torch.tensor([int(v) for v in vals], dtype=t.dtype).reshape(tuple(t.shape))
