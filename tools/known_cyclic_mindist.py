#!/usr/bin/env python3
"""Manual helper: enumerate every cyclic catalogue configuration (n <= 21) whose minimum_distance() takes the
k > 12 branch and returns wt(g) although the true distance is smaller (independent bitmask computation)."""
import json, os, sys
sys.path.insert(0, os.path.dirname(os.path.dirname(os.path.abspath(__file__))))
from kverif.catalog import divisors_of_xn1, _divs_large, pdivmod, pmul
ROOT = os.path.dirname(os.path.dirname(os.path.abspath(__file__)))
cfgs = []
for n in [3, 5, 6, 7, 9, 10, 12, 14, 15, 17, 18, 20, 21]:
    for g in (divisors_of_xn1(n) if n <= 15 else _divs_large(n)):
        k = n - (g.bit_length() - 1)
        if k <= 12:
            continue
        wg = bin(g).count("1")
        d = min(bin(pmul(m, g)).count("1") for m in range(1, 1 << k))
        if d < wg:
            h, _ = pdivmod((1 << n) | 1, g)
            for c in (f"CyclicCodeEncoder(code_length={n}, generator_polynomial={g}, information_set='left')",
                      f"CyclicCodeEncoder(code_length={n}, generator_polynomial={g}, information_set='right')",
                      f"CyclicCodeEncoder(code_length={n}, check_polynomial={h})"):
                cfgs.append(c)
p = os.path.join(ROOT, "known_findings.json")
k = json.load(open(p))
k["findings"] = [f for f in k["findings"] if f.get("id") != "cyclic-mindist-upper-bound"]
k["findings"].append(dict(id="cyclic-mindist-upper-bound", property="C03", clause="min-distance>=advertised", configs=sorted(cfgs),
    what="CyclicCodeEncoder.minimum_distance() returns the weight of g(X) for k > 12 and documents it as a lower bound; it is an upper bound, and the true distance is smaller (e.g. n=15, g=X^2+X+1: advertised 3, X^3+1 is a codeword of weight 2)"))
json.dump(k, open(p, "w"), indent=1)
print(len(cfgs))
