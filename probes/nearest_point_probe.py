import warnings; warnings.filterwarnings("ignore")
import torch, z3, time, fractions
from kaira.modulations import PSKModulator, QAMModulator
def Q(f): 
    fr = fractions.Fraction(float(f)); return z3.Q(fr.numerator, fr.denominator)
def check(mod, name):
    c = mod.constellation; M = len(c)
    a, b = z3.Reals("a b")
    cr = [Q(x.real) for x in c]; ci = [Q(x.imag) for x in c]
    # implementation-side: first-argmin chain over squared distance (sqrt removed by monotonicity), nonlinear form left to z3
    D = [(a - cr[i]) * (a - cr[i]) + (b - ci[i]) * (b - ci[i]) for i in range(M)]
    # linearised: D_i - D_j = -2a(cr_i - cr_j) - 2b(ci_i-ci_j) + |c_i|^2 - |c_j|^2
    def le(i, j): return -2*a*(cr[i]-cr[j]) - 2*b*(ci[i]-ci[j]) + (cr[i]*cr[i]+ci[i]*ci[i]) - (cr[j]*cr[j]+ci[j]*ci[j]) <= 0
    idx = z3.Int("idx")
    first_min = z3.And([z3.Implies(idx == i, z3.And([ (z3.Not(le(j, i)) if j < i else le(i, j)) for j in range(M) if j != i])) for i in range(M)] + [idx >= 0, idx < M])
    # spec: idx is a nearest point
    spec = z3.Or([z3.And(idx == i, z3.And([D[i] <= D[j] for j in range(M) if j != i])) for i in range(M)])
    for label, sp in (("nonlinear spec", spec), ("linear spec", z3.Or([z3.And(idx == i, z3.And([le(i, j) for j in range(M) if j != i])) for i in range(M)]))):
        s = z3.Solver(); s.set("timeout", 120000); s.add(first_min, z3.Not(sp))
        t0 = time.time(); r = s.check(); print(name, M, label, r, f"{time.time()-t0:.2f}s", flush=True)
check(PSKModulator(8), "psk8"); check(PSKModulator(16), "psk16"); check(QAMModulator(16), "qam16"); check(QAMModulator(64), "qam64"); check(PSKModulator(64), "psk64")
