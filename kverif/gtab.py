"""Guarded finite-table domain (DESIGN §2.1 `Guarded`): a tensor element that depends only on a few Boolean
input variables is kept extensionally — one concrete leaf per assignment of its selector variables, the leaves
being computed by torch's own kernels (exact float32/complex64 semantics, including transcendental ops).
An ATen op whose operands are all table-valued is executed once per assignment of the union of selectors;
each output element is then reduced to the selectors it really depends on. The solver still decides the final
obligation: a table turns into the guard formula OR_{assignments with leaf} AND literals."""
from __future__ import annotations

import itertools

import numpy as np
import torch
import z3
from torch.utils._python_dispatch import _disable_current_modes
from torch.utils._pytree import tree_map, tree_flatten

from . import sym as S
from .sym import NotEncodable

MAX_SEL = 16


class G:
    """sel: tuple of Bool variable names (sorted); leaves: 1-D real torch tensor of length 2^len(sel);
    assignment index = sum_i bit(sel[i]) << (len(sel)-1-i)"""
    __slots__ = ("sel", "leaves")

    def __init__(self, sel, leaves):
        self.sel = sel
        self.leaves = leaves

    def __repr__(self):
        return f"G(sel={self.sel}, n={self.leaves.numel()}, dtype={self.leaves.dtype})"

    def guard_of(self, idx):
        s = len(self.sel)
        lits = []
        for i, v in enumerate(self.sel):
            b = (idx >> (s - 1 - i)) & 1
            lits.append(z3.Bool(v) if b else z3.Not(z3.Bool(v)))
        return z3.And(lits) if len(lits) > 1 else (lits[0] if lits else z3.BoolVal(True))

    def zbool(self):
        with _disable_current_modes():
            nz = (self.leaves != 0).tolist()
        if all(nz):
            return z3.BoolVal(True)
        if not any(nz):
            return z3.BoolVal(False)
        ones = [i for i, t in enumerate(nz) if t]
        zeros = [i for i, t in enumerate(nz) if not t]
        if len(ones) <= len(zeros):
            return z3.Or([self.guard_of(i) for i in ones])
        return z3.Not(z3.Or([self.guard_of(i) for i in zeros]))

    def cases(self):
        """-> S.Cases (or a concrete scalar) over guard formulas"""
        with _disable_current_modes():
            vals = self.leaves.tolist()
        cs = []
        for i, v in enumerate(vals):
            if isinstance(v, complex):
                v = S.Cx(v.real, v.imag)
            cs.append((S.BX(self.guard_of(i)) if self.sel else True, v))
        return S.mkcases(cs)

    def evaluate(self, model):
        idx = 0
        for v in self.sel:
            idx = (idx << 1) | (1 if z3.is_true(model.eval(z3.Bool(v), model_completion=True)) else 0)
        with _disable_current_modes():
            return self.leaves[idx].item()


def _assign_matrix(sel):
    """(2^s, s) 0/1 int array of assignments in index order"""
    s = len(sel)
    n = 1 << s
    idx = np.arange(n)
    return ((idx[:, None] >> (s - 1 - np.arange(s))[None, :]) & 1).astype(np.int64)


def aff_table(a, sel, pos):
    """values of Aff a for all assignments of sel (numpy int array)"""
    n = 1 << len(sel)
    M = _assign_matrix(sel)
    out = np.full(n, a.c, dtype=np.int64)
    for v in a.vs:
        out ^= M[:, pos[v]]
    return out


def vars_of(x):
    """Boolean variables a table-able scalar depends on; None if not table-able"""
    if isinstance(x, G):
        return set(x.sel)
    if isinstance(x, S.Aff):
        return set(x.vs)
    if isinstance(x, S.Cx):
        a, b = vars_of(x.re), vars_of(x.im)
        return None if a is None or b is None else a | b
    if not S._is_sym(x):
        return set()
    if isinstance(x, S.Poly):
        out = set()
        for m in x.t:
            for aid, _ in m:
                at = S._ATOM_BY_ID[aid]
                if at.kind != "bit" or not isinstance(at.p, S.Aff):
                    return None
                out |= at.p.vs
        return out
    return None


def table_of(x, sel, pos, dtype):
    """numpy array (2^s,) of python-number leaves of scalar x over selector tuple sel"""
    n = 1 << len(sel)
    if isinstance(x, G):
        # expand to the larger selector set
        with _disable_current_modes():
            lv = x.leaves
        M = _assign_matrix(sel)
        sub = np.zeros(n, dtype=np.int64)
        for v in x.sel:
            sub = (sub << 1) | M[:, pos[v]]
        with _disable_current_modes():
            return lv[torch.from_numpy(sub)]
    with _disable_current_modes():
        if isinstance(x, S.Aff):
            return torch.from_numpy(aff_table(x, sel, pos)).to(dtype)
        if isinstance(x, S.Cx):
            re = table_of(x.re, sel, pos, torch.float64)
            im = table_of(x.im, sel, pos, torch.float64)
            return torch.complex(re, im).to(dtype)
        if not S._is_sym(x):
            return torch.full((n,), x, dtype=dtype) if not isinstance(x, complex) else torch.full((n,), x, dtype=dtype)
        if isinstance(x, S.Poly):
            acc = np.zeros(n, dtype=np.float64)
            for m, c in x.t.items():
                term = np.full(n, float(c), dtype=np.float64)
                for aid, _ in m:
                    at = S._ATOM_BY_ID[aid]
                    term = term * aff_table(at.p, sel, pos)
                acc += term
            return torch.from_numpy(acc).to(dtype)
    raise NotEncodable("table_of")


def reduce_support(sel, leaves):
    """drop selectors the table does not depend on"""
    s = len(sel)
    keep = []
    with _disable_current_modes():
        t = leaves.reshape((2,) * s) if s else leaves.reshape(())
        for i in range(s):
            a = t.select(i, 0)
            b = t.select(i, 1)
            same = torch.equal(a, b) if not a.dtype.is_floating_point and not a.dtype.is_complex else bool(((a == b) | (a.isnan() & b.isnan())).all())
            if not same:
                keep.append(i)
        if len(keep) == s:
            return sel, leaves
        idx = [slice(None) if i in keep else 0 for i in range(s)]
        t2 = t[tuple(idx)] if s else t
        return tuple(sel[i] for i in keep), t2.reshape(-1).clone()


def has_g(args, kwargs, SymTensor):
    for a in tree_flatten((args, kwargs))[0]:
        if isinstance(a, SymTensor) and a.storage_.sym:
            for v in a.arr().reshape(-1):
                if isinstance(v, G):
                    return True
    return False


def gmode(func, args, kwargs, SymTensor, from_arr, to_real_fn, limit=None):
    """execute func once per assignment of the union of selectors; returns outputs as SymTensors of G elements,
    or None when some operand is not table-able (caller falls back to the scalar path with tables as case lists)"""
    flat = tree_flatten((args, kwargs))[0]
    syms = [a for a in flat if isinstance(a, SymTensor)]
    allvars = set()
    for a in syms:
        if not a.storage_.sym:
            continue
        for v in a.arr().reshape(-1):
            vs = vars_of(v)
            if vs is None:
                return None
            allvars |= vs
    if len(allvars) > (MAX_SEL if limit is None else limit):
        if limit is not None:
            return None
        raise NotEncodable(f"finite-table domain: {len(allvars)} selector variables in one op (> {MAX_SEL})")
    if not allvars and limit is not None:
        return None
    sel = tuple(sorted(allvars, key=_varkey))
    pos = {v: i for i, v in enumerate(sel)}
    n = 1 << len(sel)
    # batched real inputs: shape (n, *shape)
    batched = {}
    for a in syms:
        arr = a.arr()
        with _disable_current_modes():
            if not a.storage_.sym:
                base = to_real_fn(a)
                batched[id(a)] = base.unsqueeze(0).expand((n,) + tuple(base.shape))
                continue
            flatv = list(arr.reshape(-1))
            consts = []
            symidx = []
            for j, v in enumerate(flatv):
                if isinstance(v, S.Cx) and S.is_conc(v.re) and S.is_conc(v.im):
                    consts.append(complex(v.re, v.im))
                elif S._is_sym(v) or isinstance(v, (G, S.Cx)):
                    consts.append(0)
                    symidx.append(j)
                else:
                    consts.append(v)
            t = torch.tensor(consts, dtype=a.dtype).unsqueeze(0).expand(n, len(consts)).clone() if consts else torch.empty((n, 0), dtype=a.dtype)
            for j in symidx:
                t[:, j] = table_of(flatv[j], sel, pos, a.dtype)
            batched[id(a)] = t.reshape((n,) + tuple(arr.shape))
    outs = None
    flat_in, in_spec = tree_flatten((args, kwargs))
    tens_pos = [i for i, x in enumerate(flat_in) if isinstance(x, SymTensor)]
    from torch.utils._pytree import tree_unflatten
    if n > 1 and str(func) in VMAP_OK and str(func) not in NO_VMAP:
        def call(*ts):
            fl = list(flat_in)
            for i, t in zip(tens_pos, ts):
                fl[i] = t
            a2, k2 = tree_unflatten(fl, in_spec)
            return func(*a2, **k2)
        try:
            with _disable_current_modes():
                vout = torch.vmap(call)(*[batched[id(flat_in[i])] for i in tens_pos])
            vflat, vspec = tree_flatten(vout)
            outs = [tree_unflatten([t[i] if isinstance(t, torch.Tensor) else t for t in vflat], vspec) for i in range(n)] if False else None
            batched_out = (vflat, vspec)
        except Exception:
            batched_out = None
            NO_VMAP.add(str(func))
    else:
        batched_out = None
    if batched_out is None:
        outs = []
        with _disable_current_modes():
            for i in range(n):
                fl = list(flat_in)
                for p in tens_pos:
                    fl[p] = batched[id(flat_in[p])][i]
                ai, ki = tree_unflatten(fl, in_spec)
                outs.append(func(*ai, **ki))
        with _disable_current_modes():
            per = [tree_flatten(o)[0] for o in outs]
            vspec = tree_flatten(outs[0])[1]
            vflat = []
            for k in range(len(per[0])):
                if isinstance(per[0][k], torch.Tensor):
                    shape = tuple(per[0][k].shape)
                    if any(tuple(p[k].shape) != shape for p in per):
                        raise NotEncodable("finite-table domain: output shape depends on the selector assignment")
                    vflat.append(torch.stack([p[k] for p in per], dim=0))
                else:
                    vflat.append(per[0][k])
        batched_out = (vflat, vspec)
    vflat, vspec = batched_out
    res = []
    for t in vflat:
        if not isinstance(t, torch.Tensor):
            res.append(t)
            continue
        with _disable_current_modes():
            shape = tuple(t.shape[1:])
            st = t.reshape(n, -1)
            dtype = t.dtype
        elems = np.empty(st.shape[1], dtype=object)
        for j in range(st.shape[1]):
            with _disable_current_modes():
                col = st[:, j].clone()
            s2, l2 = reduce_support(sel, col)
            if not s2:
                with _disable_current_modes():
                    elems[j] = l2.reshape(-1)[0].item()
            else:
                elems[j] = G(s2, l2)
        res.append(from_arr(elems.reshape(shape) if shape else elems.reshape(()), dtype, shape))
    return tree_unflatten(res, vspec)


NO_VMAP = set()
# torch.vmap over raw ATen overloads can crash the interpreter for some ops (seen: segfault inside the min-sum decoder's
# gather/masked_select chain), so batching through vmap is limited to ops observed to be safe; everything else loops
VMAP_OK = {"aten.index.Tensor", "aten.argmin.default", "aten.argmax.default", "aten.abs.default", "aten.sum.default", "aten.mean.default", "aten.any.default", "aten.all.default"}


def _unused():
    outs = []
    return outs


POINTWISE = {
    "aten.where.self", "aten.where.ScalarOther", "aten.where.ScalarSelf", "aten.eq.Scalar", "aten.eq.Tensor", "aten.ne.Scalar", "aten.ne.Tensor",
    "aten.lt.Scalar", "aten.lt.Tensor", "aten.le.Scalar", "aten.le.Tensor", "aten.gt.Scalar", "aten.gt.Tensor", "aten.ge.Scalar", "aten.ge.Tensor",
    "aten.add.Tensor", "aten.add.Scalar", "aten.sub.Tensor", "aten.sub.Scalar", "aten.rsub.Scalar", "aten.mul.Tensor", "aten.mul.Scalar",
    "aten.div.Tensor", "aten.div.Scalar", "aten.abs.default", "aten.neg.default", "aten.sign.default", "aten.sgn.default",
    "aten.bitwise_and.Tensor", "aten.bitwise_or.Tensor", "aten.bitwise_xor.Tensor", "aten.bitwise_not.default", "aten.bitwise_and.Scalar",
    "aten.logical_and.default", "aten.logical_or.default", "aten.logical_not.default", "aten.logical_xor.default",
    "aten.remainder.Scalar", "aten.fmod.Scalar", "aten.pow.Tensor_Scalar", "aten.clamp.default", "aten.floor_divide.default",
    "aten.sqrt.default", "aten.exp.default", "aten.log.default", "aten.cos.default", "aten.sin.default", "aten.angle.default",
    "aten.round.default", "aten.floor.default", "aten._to_copy.default", "aten.minimum.default", "aten.maximum.default", "aten.complex.default",
    "aten.sigmoid.default", "aten.tanh.default", "aten.reciprocal.default", "aten.__lshift__.Scalar", "aten.__rshift__.Scalar", "aten._conj.default",
    "aten.conj_physical.default", "aten.masked_fill.Scalar", "aten.atan2.default", "aten.square.default", "aten.log2.default", "aten.log10.default",
}


def gmode_pointwise(func, args, kwargs, SymTensor, from_arr, to_real_fn, mout):
    """pointwise op in the finite-table domain, evaluated per group of output elements that share a selector set"""
    name = str(func)
    if name == "aten._to_copy.default" and len([a for a in args if isinstance(a, SymTensor)]) != 1:
        return None
    tpos = [i for i, a in enumerate(args) if isinstance(a, SymTensor)]
    if any(isinstance(v, SymTensor) for v in kwargs.values()):
        return None
    oshape = tuple(mout.shape)
    arrs = {}
    for i in tpos:
        a = args[i]
        if a.dim() == 0 and not a.storage_.sym:
            continue   # concrete 0-dim operands keep their 0-dim role in type promotion
        arrs[i] = np.broadcast_to(a.arr(), oshape) if oshape != tuple(a.shape) else a.arr()
    numel = int(np.prod(oshape)) if oshape else 1
    flat = {i: arr.reshape(-1) for i, arr in arrs.items()}
    groups = {}
    for j in range(numel):
        vs = set()
        for i, fa in flat.items():
            v = vars_of(fa[j])
            if v is None:
                return None
            vs |= v
        if len(vs) > MAX_SEL:
            raise NotEncodable(f"finite-table domain: element with {len(vs)} selector variables")
        groups.setdefault(tuple(sorted(vs, key=_varkey)), []).append(j)
    out = np.empty(numel, dtype=object)
    with _disable_current_modes():
        zero_d = {i: to_real_fn(args[i]) for i in tpos if i not in arrs}
    for sel, idxs in groups.items():
        pos = {v: k for k, v in enumerate(sel)}
        n = 1 << len(sel)
        real_args = list(args)
        with _disable_current_modes():
            for i in tpos:
                if i in zero_d:
                    real_args[i] = zero_d[i]
                    continue
                dt = args[i].dtype
                fa = flat[i]
                consts, symj = [], []
                for q, j in enumerate(idxs):
                    v = fa[j]
                    if isinstance(v, S.Cx) and S.is_conc(v.re) and S.is_conc(v.im):
                        consts.append(complex(v.re, v.im))
                    elif S._is_sym(v) or isinstance(v, (G, S.Cx)):
                        consts.append(0)
                        symj.append(q)
                    else:
                        consts.append(v)
                t = torch.tensor(consts, dtype=dt).unsqueeze(0).expand(n, len(consts)).clone()
                for q in symj:
                    t[:, q] = table_of(fa[idxs[q]], sel, pos, dt)
                real_args[i] = t
            r = func(*real_args, **kwargs)
            if r.dtype != mout.dtype:
                r = r.to(mout.dtype)
            if tuple(r.shape) != (n, len(idxs)):
                r = r.expand(n, len(idxs))
        for q, j in enumerate(idxs):
            with _disable_current_modes():
                col = r[:, q].clone()
            s2, l2 = reduce_support(sel, col)
            if not s2:
                with _disable_current_modes():
                    out[j] = l2.reshape(-1)[0].item()
            else:
                out[j] = G(s2, l2)
    return from_arr(out.reshape(oshape) if oshape else out.reshape(()), mout.dtype, oshape)


REDUCE_DIM = {"aten.all.dim": 1, "aten.any.dim": 1, "aten.sum.dim_IntList": 1, "aten.mean.dim": 1, "aten.prod.dim_int": 1, "aten.argmin.default": 1,
              "aten.argmax.default": 1, "aten.min.dim": 1, "aten.max.dim": 1, "aten.amax.default": 1, "aten.amin.default": 1}


def gmode_reduce(func, args, kwargs, SymTensor, from_arr, to_real_fn):
    """reduction along one dimension in the finite-table domain, evaluated per group of rows that share a selector set"""
    name = str(func)
    a = args[0]
    dim = args[1] if len(args) > 1 else kwargs.get("dim")
    if isinstance(dim, (list, tuple)):
        if len(dim) != 1:
            return None
        dim = dim[0]
    if dim is None or a.dim() == 0:
        return None
    keep = args[2] if len(args) > 2 else kwargs.get("keepdim", False)
    extra_kwargs = {k: v for k, v in kwargs.items() if k not in ("dim", "keepdim")}
    if len(args) > 3:
        return None
    arr = np.moveaxis(a.arr(), dim % a.dim(), -1)
    rows_shape = arr.shape[:-1]
    L = arr.shape[-1]
    rows = arr.reshape(-1, L)
    groups = {}
    for r in range(rows.shape[0]):
        vs = set()
        for v in rows[r]:
            x = vars_of(v)
            if x is None:
                return None
            vs |= x
        if len(vs) > MAX_SEL:
            raise NotEncodable(f"finite-table domain: reduction row with {len(vs)} selector variables")
        groups.setdefault(tuple(sorted(vs, key=_varkey)), []).append(r)
    nrows = rows.shape[0]
    outs = None
    for sel, ridx in groups.items():
        pos = {v: k for k, v in enumerate(sel)}
        n = 1 << len(sel)
        with _disable_current_modes():
            t = torch.zeros((n, len(ridx), L), dtype=a.dtype)
            for q, r in enumerate(ridx):
                for c in range(L):
                    v = rows[r][c]
                    if isinstance(v, S.Cx) and S.is_conc(v.re) and S.is_conc(v.im):
                        t[:, q, c] = complex(v.re, v.im)
                    elif S._is_sym(v) or isinstance(v, (G, S.Cx)):
                        t[:, q, c] = table_of(v, sel, pos, a.dtype)
                    else:
                        t[:, q, c] = v
            if name == "aten.sum.dim_IntList" or name == "aten.mean.dim" or name.startswith("aten.ama"):
                res = func(t, [-1], False, **extra_kwargs)
            else:
                res = func(t, -1, False, **extra_kwargs)
        res_list = list(res) if isinstance(res, (tuple, list)) else [res]
        if outs is None:
            outs = [(np.empty(nrows, dtype=object), rr.dtype) for rr in res_list]
        for k, rr in enumerate(res_list):
            for q, r in enumerate(ridx):
                with _disable_current_modes():
                    col = rr[:, q].clone()
                s2, l2 = reduce_support(sel, col)
                if not s2:
                    with _disable_current_modes():
                        outs[k][0][r] = l2.reshape(-1)[0].item()
                else:
                    outs[k][0][r] = G(s2, l2)
    final = []
    for o, dt in outs:
        shaped = o.reshape(rows_shape) if rows_shape else o.reshape(())
        if keep:
            shaped = np.expand_dims(shaped, dim % a.dim())
        final.append(from_arr(shaped, dt, shaped.shape))
    return final[0] if len(final) == 1 else tuple(final)


def _varkey(v):
    # names look like "b12": sort by prefix then number so that tables are laid out predictably
    i = len(v)
    while i > 0 and v[i - 1].isdigit():
        i -= 1
    return (v[:i], int(v[i:]) if i < len(v) else -1)
