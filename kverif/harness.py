"""Glue used by the per-property checks: run the real code symbolically, decide obligations,
extract witnesses, concolic validation of the encoding against the real code."""
from __future__ import annotations

import random
import time

import torch
import z3
from torch.utils._python_dispatch import _disable_current_modes

from . import sym as S
from .engine import (Ctx, explore, SymTensor, fresh_bits, fresh_reals, elems, eval_tensor, from_arr,
                     Infeasible, PathLimit)
from .ops import SymMode
from .sym import NotEncodable
from .common import SEED


def _contains_symscalar(x):
    from .engine import SymScalar
    if isinstance(x, SymScalar):
        return True
    if type(x) is float and x != x and S.unbox(x) is not None:
        return True
    if isinstance(x, (list, tuple)):
        return any(_contains_symscalar(y) for y in x)
    return False


_ORIG_TENSOR = torch.tensor
_ORIG_AS_TENSOR = torch.as_tensor


def _sym_tensor_factory(orig):
    """torch.tensor([... SymScalar ...]) keeps the scalars symbolic (python-level stub, checker process only)"""
    def f(data, *args, **kwargs):
        from .engine import SymScalar, from_arr
        import numpy as np
        if _contains_symscalar(data):
            def strip(x):
                if isinstance(x, SymScalar):
                    return x.v
                if type(x) is float and x != x and S.unbox(x) is not None:
                    return S.unbox(x)
                if isinstance(x, (list, tuple)):
                    return [strip(y) for y in x]
                if isinstance(x, SymTensor):
                    if x.dim() == 0:
                        return x.arr().reshape(-1)[0]
                    return [strip(y) for y in x]
                if isinstance(x, torch.Tensor):
                    return x.tolist()
                return x
            raw = strip(data)
            shape = []
            y = raw
            while isinstance(y, list):
                shape.append(len(y))
                y = y[0] if y else None
            flat = np.empty(int(np.prod(shape)) if shape else 1, dtype=object)

            def fill(x, out):
                if isinstance(x, list):
                    for z in x:
                        fill(z, out)
                else:
                    out.append(x)
            lst = []
            fill(raw, lst)
            for i, v in enumerate(lst):
                flat[i] = v
            dtype = kwargs.get("dtype")
            if dtype is None:
                if any(isinstance(v, float) or (isinstance(v, S.Poly) and not v.is_int) or isinstance(v, (S.SqrtV,)) for v in lst):
                    dtype = torch.float32
                elif all(isinstance(v, bool) or isinstance(v, (S.Aff, S.BX)) for v in lst) and any(isinstance(v, bool) for v in lst) and not any(type(v) is int for v in lst):
                    dtype = torch.bool
                else:
                    dtype = torch.int64
            return from_arr(flat.reshape(shape) if shape else flat.reshape(()), dtype, tuple(shape))
        return orig(data, *args, **kwargs)
    return f


def _snapshot(objs):
    """shallow snapshot of the attribute dictionaries of the given objects (and of all nn.Module children), so
    that symbolic tensors cached in module state during a symbolic run never leak into later runs"""
    snap = []
    seen = set()
    for o in objs:
        mods = list(o.modules()) if isinstance(o, torch.nn.Module) else [o]
        for m in mods:
            if id(m) in seen or not hasattr(m, "__dict__"):
                continue
            seen.add(id(m))
            d = dict(m.__dict__)
            sub = {k: dict(v) for k, v in d.items() if k in ("_buffers", "_parameters") and isinstance(v, dict)}
            snap.append((m, d, sub))
    return snap


def _restore(snap):
    for m, d, sub in snap:
        m.__dict__.clear()
        m.__dict__.update(d)
        for k, v in sub.items():
            m.__dict__[k].clear()
            m.__dict__[k].update(v)


def sym_paths(fn, assumptions=(), tally=None, max_paths=100000, timeout_ms=60000, state=()):
    """run fn() under the symbolic mode on every feasible path; returns [(ctx, result)].
    `state`: objects whose attributes are restored after every path (module caches / carry-over state)."""
    def wrapped(ctx):
        snap = _snapshot(state)
        torch.tensor = _sym_tensor_factory(_ORIG_TENSOR)
        torch.as_tensor = _sym_tensor_factory(_ORIG_AS_TENSOR)
        try:
            with SymMode():
                return fn(ctx)
        finally:
            torch.tensor = _ORIG_TENSOR
            torch.as_tensor = _ORIG_AS_TENSOR
            _restore(snap)
    return explore(wrapped, assumptions, tally, max_paths, timeout_ms)


def zor(xs):
    xs = [x for x in xs]
    if not xs:
        return z3.BoolVal(False)
    return z3.Or(xs) if len(xs) > 1 else xs[0]


def zand(xs):
    xs = [x for x in xs]
    if not xs:
        return z3.BoolVal(True)
    return z3.And(xs) if len(xs) > 1 else xs[0]


def differs(a, b):
    """z3 Bool: some coordinate of the two scalar lists differs"""
    assert len(a) == len(b), (len(a), len(b))
    return zor([S.zbool(S.ne(x, y)) for x, y in zip(a, b)])


def all_zero(a):
    return zand([S.zbool(S.eq(x, 0)) for x in a])


def _holds(ctx):
    """a path that boxed a symbolic real into a Python float (sym.nanbox) lost track of Python-level arithmetic on it:
    its obligations may be violated (replay-confirmed) but are never reported as holding"""
    return "inconclusive" if getattr(ctx, "tainted", False) else "holds"


def decide(ctx, negated, extra=()):
    """-> ('holds', None) | ('violated', model) | ('inconclusive', None). Path condition is in ctx.solver."""
    ctx._sync()
    ctx.solver.push()
    try:
        for e in extra:
            ctx.solver.add(e)
        ctx.solver.add(negated)
        r = ctx.check()
        if r == z3.unsat:
            return _holds(ctx), None
        if r == z3.sat:
            return "violated", ctx.solver.model()
        return "inconclusive", None
    finally:
        ctx.solver.pop()


def dual_certificate(forms, target, tally=None, timeout_ms=60000):
    """GF(2) Farkas query for  (forall x: all forms(x)=0  =>  target(x)=0)  when every form is GF(2)-affine in the
    symbolic bits: ask the solver for multipliers lam with  target == XOR_i lam_i*forms_i  coefficient by coefficient
    (constant term included).  sat => the implication holds for every x (trivially, by substituting);
    unsat/unknown => nothing is concluded here (the caller keeps its direct query's verdict).
    Returns (True, lam) | (False, None) | (None, None)."""
    fs = []
    for f in forms:
        if isinstance(f, S.Aff):
            fs.append(f)
        elif isinstance(f, (int, bool)) or (isinstance(f, float) and f in (0.0, 1.0)):
            fs.append(S.Aff(frozenset(), int(f)))
        else:
            return None, None
    if isinstance(target, (int, bool)):
        target = S.Aff(frozenset(), int(target))
    if not isinstance(target, S.Aff):
        return None, None
    lam = [z3.Bool(f"lam!{i}") for i in range(len(fs))]
    s = z3.Solver()
    s.set("timeout", timeout_ms)
    atoms = set(target.vs)
    for f in fs:
        atoms |= f.vs

    def xr(sel, want):
        if not sel:
            return z3.BoolVal(not want)
        e = sel[0]
        for l in sel[1:]:
            e = z3.Xor(e, l)
        return e if want else z3.Not(e)

    for v in sorted(atoms):
        s.add(xr([l for l, f in zip(lam, fs) if v in f.vs], v in target.vs))
    s.add(xr([l for l, f in zip(lam, fs) if f.c], bool(target.c)))
    t0 = time.time()
    r = s.check()
    if tally is not None:
        tally.count(str(r), time.time() - t0)
    if r == z3.sat:
        m = s.model()
        return True, [1 if z3.is_true(m.eval(l, model_completion=True)) else 0 for l in lam]
    return (False, None) if r == z3.unsat else (None, None)


def decide_nra(ctx, negated, extra=(), budget_s=40):
    """like decide(), for non-linear real obligations: fresh solver per obligation and a small portfolio
    (default solver, then the nlsat tactic, then a reseeded default), because z3's incremental NRA is erratic"""
    ctx._sync()
    base = list(ctx.pc) + list(ctx.side) + list(extra) + [negated]
    attempts = [("default", 0, 0.25), ("nlsat", 0, 0.45), ("default", 7, 0.3)]
    for kind, seed, share in attempts:
        if kind == "default":
            s = z3.Solver()
            if seed:
                s.set("random_seed", seed)
        else:
            s = z3.Tactic("qfnra-nlsat").solver()
        s.set("timeout", int(budget_s * share * 1000))
        s.add(*base)
        t0 = time.time()
        try:
            r = s.check()
        except z3.Z3Exception:
            r = z3.unknown
        if ctx.tally is not None:
            ctx.tally.count(str(r), time.time() - t0)
        if r == z3.unsat:
            return _holds(ctx), None
        if r == z3.sat:
            return "violated", s.model()
    return "inconclusive", None


_NAMES = {}


def names_of(e):
    """names of the uninterpreted constants of a z3 expression"""
    k = e.get_id()
    if k in _NAMES:
        return _NAMES[k][1]
    out, seen, stack = set(), set(), [e]
    while stack:
        t = stack.pop()
        i = t.get_id()
        if i in seen:
            continue
        seen.add(i)
        if z3.is_const(t) and t.decl().kind() == z3.Z3_OP_UNINTERPRETED:
            out.add(str(t))
        else:
            stack.extend(t.children())
    if len(_NAMES) > 50000:
        _NAMES.clear()
    _NAMES[k] = (e, out)      # keeps e alive: a z3 ast id is reused once the ast is freed
    return out


def ackermannize(exprs):
    """replace every application of an uninterpreted function by a fresh real constant (functional consistency is
    dropped: only adds models, so unsat stays sound) so that the pure-NRA tactic accepts the formulas"""
    apps, seen, stack = {}, set(), list(exprs)
    while stack:
        t = stack.pop()
        i = t.get_id()
        if i in seen:
            continue
        seen.add(i)
        if z3.is_app(t) and t.num_args() > 0 and t.decl().kind() == z3.Z3_OP_UNINTERPRETED:
            apps[i] = t
        stack.extend(t.children())
    if not apps:
        return list(exprs)
    pairs = [(t, z3.Real(f"__ack{k}_{i}") if t.sort() == z3.RealSort() else z3.Const(f"__ack{k}_{i}", t.sort())) for k, (i, t) in enumerate(apps.items())]
    # outermost applications first, so that nested applications are replaced as a whole
    pairs.sort(key=lambda p: -len(p[0].sexpr()))
    out = list(exprs)
    for a, c in pairs:
        out = [z3.substitute(e, (a, c)) for e in out]
    return out


def decide_any(ctx, bads, extra=(), budget_s=40, defined=()):
    """decide the disjunction of `bads` one disjunct at a time (each on its own cone of influence):
    'violated' with the first model found, 'holds' when every disjunct is unsat, otherwise 'inconclusive'"""
    worst, lost = _holds(ctx), 0.0
    for b in bads:
        if z3.is_false(b):
            continue
        if lost > 2 * budget_s:
            return "inconclusive", None        # the obligation is open anyway: do not burn the budget of every disjunct
        t0 = time.time()
        st, m = decide_nra_sliced(ctx, b, defined, budget_s, extra)
        if st == "violated":
            return st, m
        if st == "inconclusive":
            worst = st
            lost += time.time() - t0
    return worst, None


def decide_nra_sliced(ctx, negated, defined=(), budget_s=40, extra=()):
    """decide_nra on the cone of influence of the obligation: the path condition, the non-definitional side
    constraints, and only those purification definitions (u*b = a, s*s = r, ...) whose variable the obligation
    reaches, transitively; definedness conditions are assumed when they speak about reached variables only.
    Dropping constraints can only add models, so 'holds' is sound; a model is confirmed by the caller's replay."""
    ctx._sync()
    base = list(ctx.pc) + [c for c in ctx.side if c.get_id() not in S._DEF_IDS] + list(extra)
    seen, work, chosen, cids = set(), [], [], set()
    for e in base + [negated]:
        work.extend(names_of(e))
    while work:
        v = work.pop()
        if v in seen:
            continue
        seen.add(v)
        for c in S._DEF_CONS.get(v, ()):
            if c.get_id() not in cids:
                cids.add(c.get_id())
                chosen.append(c)
                work.extend(names_of(c))
    dd = [d for d in defined if names_of(d) <= seen]
    full = base + chosen + dd + [negated]
    full_ack = ackermannize(full)
    has_uf = any(a is not b for a, b in zip(full, full_ack))
    attempts = [("default", 0, 0.25), ("nlsat", 0, 0.45), ("default", 7, 0.3)]
    for kind, seed, share in attempts:
        if kind == "default":
            s = z3.Solver()
            if seed:
                s.set("random_seed", seed)
        else:
            s = z3.Tactic("qfnra-nlsat").solver()
        s.set("timeout", int(budget_s * share * 1000))
        s.add(*(full_ack if kind == "nlsat" else full))
        t0 = time.time()
        try:
            r = s.check()
        except z3.Z3Exception:
            r = z3.unknown
        if ctx.tally is not None:
            ctx.tally.count(str(r), time.time() - t0)
        if r == z3.unsat:
            return _holds(ctx), None
        if r == z3.sat:
            if kind == "nlsat" and has_uf:
                continue          # a model of the ackermannized formula need not respect functional consistency
            return "violated", s.model()
    return "inconclusive", None


def reachable(ctx, extra=()):
    ctx._sync()
    r = ctx.check(*extra)
    return r == z3.sat


def model_bits(model, name, n):
    return [1 if z3.is_true(model.eval(z3.Bool(f"{name}{i}"), model_completion=True)) else 0 for i in range(n)]


def model_reals(model, name, n):
    out = []
    for i in range(n):
        v = model.eval(z3.Real(f"{name}{i}"), model_completion=True)
        out.append(float(S.zval(model, z3.Real(f"{name}{i}"))))
    return out


def real_bits(bits, shape, dtype=torch.float32):
    with _disable_current_modes():
        return torch.tensor(bits, dtype=dtype).reshape(shape)


def concolic(ctx, inputs, real_fn, sym_outs, tally=None, tol=1e-5, extra=()):
    """Translator validation on this path: take a model of the path condition, evaluate the symbolic outputs
    under it, run the real code on the concretised inputs and compare. inputs: {name: SymTensor}.
    Returns (ok, detail)."""
    ctx._sync()
    ctx.solver.push()
    try:
        for e in extra:
            ctx.solver.add(e)
        # diversify: random phase through a seeded parity side constraint on the bit inputs when possible
        rnd = random.Random(SEED + len(ctx.pc))
        r = ctx.check()
        if r == z3.unsat:
            return False, "path condition (with the recorded assumptions) is unsatisfiable: vacuous path"
        if r != z3.sat:
            return True, "path condition unknown: nothing to validate"
        model = ctx.solver.model()
    finally:
        ctx.solver.pop()
    real_in = {k: eval_tensor(v, model) for k, v in inputs.items()}
    with _disable_current_modes():
        real_out = real_fn(**{k: v.clone() for k, v in real_in.items()})
    if not isinstance(real_out, (list, tuple)):
        real_out = [real_out]
    if not isinstance(sym_outs, (list, tuple)):
        sym_outs = [sym_outs]
    for so, ro in zip(sym_outs, real_out):
        se = eval_tensor(so, model) if isinstance(so, SymTensor) else so
        with _disable_current_modes():
            if tuple(se.shape) != tuple(ro.shape):
                return False, f"shape {tuple(se.shape)} vs real {tuple(ro.shape)}"
            ro2 = ro.to(se.dtype) if ro.dtype != se.dtype else ro
            if se.dtype.is_floating_point or se.dtype.is_complex:
                okk = torch.allclose(se, ro2, rtol=tol, atol=tol, equal_nan=True)
            else:
                okk = torch.equal(se, ro2)
            if not okk:
                return False, f"symbolic {se.flatten().tolist()[:12]} vs real {ro.flatten().tolist()[:12]} on inputs { {k: v.flatten().tolist()[:16] for k, v in real_in.items()} }"
    if tally is not None:
        tally.validated += 1
    return True, ""


def to_int_matrix(t):
    with _disable_current_modes():
        return [[int(round(float(v))) for v in row] for row in t.detach().tolist()]


def is_binary_matrix(t):
    with _disable_current_modes():
        return bool(((t == 0) | (t == 1)).all())
