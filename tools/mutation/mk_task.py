# usage: python3 tools/mutation/mk_task.py <property id> <worktree tag> ["additional guidance"]  -- writes /tmp/mut-<tag>/_mutation/TASK.md for a mutation sub-agent
# (create the worktree first: git -C /repo worktree add /tmp/mut-<tag> HEAD; remove it afterwards with git -C /repo worktree remove --force)
import json, sys, re
pid, tag = sys.argv[1], sys.argv[2]
extra = sys.argv[3] if len(sys.argv) > 3 else ""
tpl = open('/verif/tools/mutation/task_template_C01.txt').read()
props = {json.loads(l)['id']: json.loads(l) for l in open('/verif/properties.jsonl')}
p1, p = props['C01'], props[pid]
t = tpl.replace('/tmp/mut-C01', f'/tmp/mut-{tag}')
t = t.replace(p1['title'], p['title']).replace(p1['statement'], p['statement']).replace(p1['quantifier']['text'], p['quantifier']['text'])
t = t.replace('"property": "C01"', f'"property": "{pid}"').replace("-n 8", "-n 4")
assert p['title'] in t and p['statement'] in t
if extra:
    t += "\n\nAdditional guidance for this task: " + extra + "\n"
import os
os.makedirs(f'/tmp/mut-{tag}/_mutation', exist_ok=True)
open(f'/tmp/mut-{tag}/_mutation/TASK.md','w').write(t)
print("ok", tag, len(t))
