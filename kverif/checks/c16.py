"""C16 — error-rate metrics are exact counts; the streaming form is partition-independent."""
from __future__ import annotations

import itertools
from fractions import Fraction

import torch
import z3
from torch.utils._python_dispatch import _disable_current_modes

from .. import sym as S
from ..common import Check, Tally, ob, tier, replay_main, TIER
from ..engine import fresh_bits, elems, from_arr, from_real, SymTensor, SymScalar
from ..harness import sym_paths, decide, model_bits, real_bits, zor, zand
from ..sym import NotEncodable

PID = "C16"

BATCH_SHAPES = {"ber": [(2, 3), (1, 2), (3, 1)], "bler": [(2, 3), (1, 6), (1, 3)]}
BLOCK = 3


def mk_metric(kind):
    from kaira.metrics.signal import BitErrorRate, BlockErrorRate
    m = BitErrorRate() if kind == "ber" else BlockErrorRate(block_size=BLOCK)
    return m


def wrap_state(metric):
    for name, buf in list(metric._buffers.items()):
        if buf is not None and not isinstance(buf, SymTensor):
            metric._buffers[name] = from_real(buf)


def val_of(t):
    if isinstance(t, SymTensor):
        return elems(t)[0]
    if isinstance(t, SymScalar):
        return t.v
    if isinstance(t, torch.Tensor):
        return t.item()
    return t


def ref_counts(kind, xs, ys, shape):
    """reference (errors, total) as symbolic linear terms, written from the definition"""
    diff = [S.bxor(a, b) for a, b in zip(xs, ys)]
    if kind == "ber":
        err = 0
        for d in diff:
            err = S.add(err, d)
        return err, len(diff)
    per_row = 1
    for s in shape[1:]:
        per_row *= s
    nb = len(diff) // BLOCK
    err = 0
    for b in range(nb):
        any_ = False
        for d in diff[b * BLOCK:(b + 1) * BLOCK]:
            any_ = S.bor(any_, d)
        err = S.add(err, any_)
    return err, nb


def neq_ratio(value, err, tot):
    """z3: value != err / tot (value * tot != err); tot concrete"""
    # results are float32 tensors: exact up to rounding of the final division (tolerance 1e-5, far below 1/N)
    eps = 2.0 ** -17   # exact binary constant keeps the pseudo-Boolean coefficients small
    if tot == 0:
        return z3.Or(S.zbool(S.gt(value, eps)), S.zbool(S.lt(value, -eps)))
    d = S.sub(S.mul(value, tot), err)
    return z3.Or(S.zbool(S.gt(d, eps * tot)), S.zbool(S.lt(d, -eps * tot)))


def history_item(item):
    tl = Tally()
    kind = item["kind"]
    obs = []
    shapes = BATCH_SHAPES[kind]
    sizes = [int(torch.Size(s).numel()) for s in shapes]
    for seq in item["seqs"]:
        config = f"{kind} history={''.join(seq)}"

        def run(ctx):
            metric = mk_metric(kind)
            wrap_state(metric)
            X = [fresh_bits(f"x{i}_", shapes[i]) for i in range(3)]
            Y = [fresh_bits(f"y{i}_", shapes[i]) for i in range(3)]
            outs = []
            live = []
            for op in seq + ("c",):
                if op == "r":
                    metric.reset()
                    live = []
                elif op == "c":
                    outs.append((val_of(metric.compute()), tuple(live)))
                else:
                    i = int(op)
                    metric.update(X[i], Y[i])
                    live.append(i)
            return dict(outs=outs, X=X, Y=Y)
        try:
            paths = sym_paths(run, (), tl, max_paths=3000)
        except NotEncodable as e:
            obs.append(ob("streaming", config, "error", what=f"NotEncodable: {e}", **tl.take()))
            continue
        status, viol = "holds", None
        for ctx, R in paths:
            for value, live in R["outs"]:
                err, tot = 0, 0
                for i in live:
                    e_i, t_i = ref_counts(kind, elems(R["X"][i]), elems(R["Y"][i]), shapes[i])
                    err = S.add(err, e_i)
                    tot += t_i
                st, model = decide(ctx, neq_ratio(value, err, tot))
                if st == "violated" and viol is None:
                    w = {}
                    for i in range(3):
                        w[f"x{i}"] = model_bits(model, f"x{i}_", sizes[i])
                        w[f"y{i}"] = model_bits(model, f"y{i}_", sizes[i])
                    rep, got, exp = replay_history(kind, seq, w)
                    viol = dict(what=f"history {''.join(seq)}+c: compute() gives {got}, one-shot count on the data since the last reset gives {exp}", witness=dict(w, history="".join(seq)), replay={"reproduced": rep})
                    status = "violated"
                elif st == "inconclusive" and status == "holds":
                    status = "inconclusive"
        if viol:
            obs.append(ob("streaming", config, "violated", **viol, **tl.take()))
        else:
            obs.append(ob("streaming", config, status, sample=dict(history="".join(seq) + "c", paths=len(paths), query="exists data: compute() * total != errors since last reset"), **tl.take()))
    return obs


def replay_history(kind, seq, w):
    shapes = BATCH_SHAPES[kind]
    with _disable_current_modes():
        metric = mk_metric(kind)
        X = [real_bits(w[f"x{i}"], shapes[i]) for i in range(3)]
        Y = [real_bits(w[f"y{i}"], shapes[i]) for i in range(3)]
        live = []
        bad = False
        got = exp = None
        for op in tuple(seq) + ("c",):
            if op == "r":
                metric.reset()
                live = []
            elif op == "c":
                v = float(metric.compute())
                err = tot = 0
                for i in live:
                    d = (X[i] != Y[i])
                    if kind == "ber":
                        err += int(d.sum())
                        tot += d.numel()
                    else:
                        blocks = d.reshape(-1, BLOCK).any(dim=1)
                        err += int(blocks.sum())
                        tot += blocks.numel()
                e = err / tot if tot else 0.0
                if abs(v - e) > 2.0 ** -20:
                    bad, got, exp = True, v, e
            else:
                i = int(op)
                metric.update(X[i], Y[i])
                live.append(i)
        return bad, got, exp


def oneshot_item(item):
    tl = Tally()
    obs = []
    from kaira.metrics.signal import BitErrorRate, BlockErrorRate
    from kaira.benchmarks.metrics import StandardMetrics
    shape = tuple(item["shape"])
    n = int(torch.Size(shape).numel())
    cplx = item.get("complex", False)
    config = f"shape={shape}{' complex' if cplx else ''}"

    def rec(clause, status, **kw):
        obs.append(ob(clause, config, status, **kw, **tl.take()))

    def run(ctx):
        if cplx:
            xr, xi, yr, yi = (fresh_bits(p, shape) for p in ("xr", "xi", "yr", "yi"))
            X, Y = torch.complex(xr, xi), torch.complex(yr, yi)
            xs = elems(xr) + elems(xi)
            ys = elems(yr) + elems(yi)
        else:
            X, Y = fresh_bits("x", shape), fresh_bits("y", shape)
            xs, ys = elems(X), elems(Y)
        out = dict(xs=xs, ys=ys)
        out["ber"] = val_of(BitErrorRate()(X, Y))
        out["ber_sym"] = val_of(BitErrorRate()(Y, X))
        if not cplx:
            out["bench_ber"] = StandardMetrics.bit_error_rate(X.reshape(-1), Y.reshape(-1))
            per_row = n // shape[0]
            blers = {}
            for bs in (range(1, per_row + 1) if len(shape) > 1 else ()):  # BLER treats dim 0 as the batch: >= 2-D inputs
                if per_row % bs == 0:
                    blers[bs] = (val_of(BlockErrorRate(block_size=bs)(X, Y)), val_of(BlockErrorRate(block_size=bs)(Y, X)))
            out["blers"] = blers
            blers_none = val_of(BlockErrorRate()(X, Y))
            out["bler_none"] = blers_none
            # the stateful path on the same data: update() once, then compute(), for block_size None and every divisor
            upd = {}
            for bs in ([None] + list(blers)) if len(shape) > 1 else ():
                mtr = BlockErrorRate(block_size=bs)
                wrap_state(mtr)
                mtr.update(X, Y)
                upd[bs] = val_of(mtr.compute())
            out["upd"] = upd
            if n % BLOCK == 0:
                out["bench_bler"] = StandardMetrics.block_error_rate(X.reshape(-1), Y.reshape(-1), BLOCK)
        elif len(shape) > 1:
            # complex symbols: a block of block_size *symbols* is in error when any of its symbols differs
            per_row = n // shape[0]
            out["cblers"] = {bs: val_of(BlockErrorRate(block_size=bs)(X, Y)) for bs in range(1, per_row + 1) if per_row % bs == 0}
        return out
    paths = sym_paths(run, (), tl, max_paths=3000)
    agg = {}

    def note(clause, st, what=None, model=None):
        cur = agg.get(clause, ("holds", None, None))
        if st == "violated" and cur[0] != "violated":
            agg[clause] = (st, what, model)
        elif st == "inconclusive" and cur[0] == "holds":
            agg[clause] = (st, None, None)
        elif clause not in agg:
            agg[clause] = cur
    for ctx, R in paths:
        xs, ys = R["xs"], R["ys"]
        diff = [S.bxor(a, b) for a, b in zip(xs, ys)]
        cnt = 0
        for d in diff:
            cnt = S.add(cnt, d)
        N = len(diff)
        st, model = decide(ctx, neq_ratio(R["ber"], cnt, N))
        note("BER=count/N", st, "BER differs from (#differing bits)/N", model)
        st, model = decide(ctx, S.zbool(S.ne(R["ber"], R["ber_sym"])))
        note("BER symmetric", st, "BER(x,y) != BER(y,x)", model)
        st, model = decide(ctx, z3.Xor(S.zbool(S.eq(R["ber"], 0)), zand([z3.Not(S.zbool(d)) for d in diff])))
        note("BER zero iff equal", st, "BER == 0 does not coincide with x == y", model)
        if not cplx:
            st, model = decide(ctx, neq_ratio(R["bench_ber"], cnt, N))
            note("benchmark BER = count/N", st, "StandardMetrics.bit_error_rate differs from the exact fraction", model)
            for bs, (v, vsym) in R["blers"].items():
                nb = N // bs
                be = 0
                for b in range(nb):
                    a = False
                    for d in diff[b * bs:(b + 1) * bs]:
                        a = S.bor(a, d)
                    be = S.add(be, a)
                st, model = decide(ctx, neq_ratio(v, be, nb))
                note(f"BLER=blocks-in-error/blocks", st, f"BLER(block_size={bs}) differs from (#blocks with a difference)/#blocks", model)
                st, model = decide(ctx, z3.Or(S.zbool(S.gt(S.sub(v, vsym), 2.0 ** -20)), S.zbool(S.lt(S.sub(v, vsym), -2.0 ** -20))))
                note("BLER symmetric", st, f"BLER(x,y) != BLER(y,x) for block_size={bs}", model)
                # BER <= BLER <= min(1, B * BER)
                bad = z3.Or(S.zbool(S.gt(R["ber"], S.add(v, 2.0 ** -20))), S.zbool(S.gt(v, 1)), S.zbool(S.gt(v, S.add(S.mul(R["ber"], bs), 2.0 ** -20))))
                st, model = decide(ctx, bad)
                note("BER<=BLER<=min(1,B*BER)", st, f"ordering BER <= BLER <= min(1, B*BER) fails for block_size={bs}", model)
        if not cplx and R.get("upd"):
            for bs, v in R["upd"].items():
                bsz = bs if bs is not None else N // shape[0]       # block_size None: one block per batch item
                nb = N // bsz
                be = 0
                for b in range(nb):
                    a = False
                    for d in diff[b * bsz:(b + 1) * bsz]:
                        a = S.bor(a, d)
                    be = S.add(be, a)
                st, model = decide(ctx, neq_ratio(v, be, nb))
                note("BLER update()+compute() = blocks-in-error/blocks", st, f"update()+compute() with block_size={bs} differs from (#blocks with a difference)/#blocks", model)
        if cplx and "cblers" in R:
            sd = [S.bor(diff[i], diff[n + i]) for i in range(n)]       # symbol i differs in its real or imaginary part
            for bs, v in R["cblers"].items():
                nb = n // bs
                be = 0
                for b in range(nb):
                    a = False
                    for d in sd[b * bs:(b + 1) * bs]:
                        a = S.bor(a, d)
                    be = S.add(be, a)
                st, model = decide(ctx, neq_ratio(v, be, nb))
                note("BLER=blocks-in-error/blocks", st, f"complex input: BLER(block_size={bs}) differs from (#blocks of {bs} symbols with a difference)/#blocks", model)
        if not cplx:
            if "bench_bler" in R:
                nb = N // BLOCK
                be = 0
                for b in range(nb):
                    a = False
                    for d in diff[b * BLOCK:(b + 1) * BLOCK]:
                        a = S.bor(a, d)
                    be = S.add(be, a)
                st, model = decide(ctx, neq_ratio(R["bench_bler"], be, nb))
                note("benchmark BLER = blocks-in-error/blocks", st, "StandardMetrics.block_error_rate differs from the exact fraction", model)
    for clause, (st, what, model) in agg.items():
        if st == "violated":
            if cplx:
                w = {p: model_bits(model, p, n) for p in ("xr", "xi", "yr", "yi")}
            else:
                w = {"x": model_bits(model, "x", n), "y": model_bits(model, "y", n)}
            rep = replay_oneshot(clause, shape, cplx, w)
            rec(clause, "violated", what=f"{what}; inputs {w}", witness=w, replay={"reproduced": rep})
        else:
            rec(clause, st, sample=dict(query=clause, shape=list(shape), paths=len(paths)))
    # rejection of non-divisor block sizes (ground, shapes concrete)
    if len(shape) > 1:
        per_row = n // shape[0]
        bad = []
        zdt = torch.complex64 if cplx else torch.float32
        with _disable_current_modes():
            for bs in range(2, per_row + 2):
                if per_row % bs:
                    try:
                        BlockErrorRate(block_size=bs)(torch.zeros(shape, dtype=zdt), torch.zeros(shape, dtype=zdt))
                        bad.append(bs)
                    except Exception:
                        pass
        rec("BLER rejects non-divisor block sizes", "violated" if bad else "holds", what=f"block sizes {bad} accepted for {per_row} elements per item" if bad else "",
            witness={"block_sizes": bad} if bad else None, replay={"reproduced": True} if bad else None)
    return obs


def replay_oneshot(clause, shape, cplx, w):
    from kaira.metrics.signal import BitErrorRate, BlockErrorRate
    from kaira.benchmarks.metrics import StandardMetrics
    with _disable_current_modes():
        if cplx:
            X = torch.complex(real_bits(w["xr"], shape), real_bits(w["xi"], shape))
            Y = torch.complex(real_bits(w["yr"], shape), real_bits(w["yi"], shape))
            d = torch.cat([(X.real != Y.real).flatten(), (X.imag != Y.imag).flatten()])
        else:
            X, Y = real_bits(w["x"], shape), real_bits(w["y"], shape)
            d = (X != Y).flatten()
        N = d.numel()
        ber = float(BitErrorRate()(X, Y))
        if clause == "BER=count/N":
            return abs(ber - int(d.sum()) / N) > 2.0 ** -20
        if clause == "BER symmetric":
            return abs(ber - float(BitErrorRate()(Y, X))) > 1e-9
        if clause == "BER zero iff equal":
            return (ber == 0) != (int(d.sum()) == 0)
        if clause == "benchmark BER = count/N":
            return abs(StandardMetrics.bit_error_rate(X.reshape(-1), Y.reshape(-1)) - int(d.sum()) / N) > 2.0 ** -20
        if cplx:
            d = (X != Y).flatten()          # BLER counts complex symbols
            N = d.numel()
        per_row = N // shape[0]
        if clause.startswith("BLER update()"):
            for bs in [None] + [b for b in range(1, per_row + 1) if per_row % b == 0]:
                mtr = BlockErrorRate(block_size=bs)
                mtr.update(X, Y)
                blocks = d.reshape(-1, bs if bs is not None else per_row).any(dim=1)
                if abs(float(mtr.compute()) - int(blocks.sum()) / blocks.numel()) > 2.0 ** -20:
                    return True
            return False
        for bs in range(1, per_row + 1):
            if per_row % bs:
                continue
            blocks = d.reshape(-1, bs).any(dim=1)
            try:
                v = float(BlockErrorRate(block_size=bs)(X, Y))
            except Exception:  # noqa: BLE001
                return True
            e = int(blocks.sum()) / blocks.numel()
            if clause.startswith("BLER=") and abs(v - e) > 2.0 ** -20:
                return True
            if clause == "BLER symmetric" and abs(v - float(BlockErrorRate(block_size=bs)(Y, X))) > 1e-9:
                return True
            if clause.startswith("BER<=BLER") and not (ber <= v + 1e-9 and v <= min(1.0, bs * ber) + 1e-9):
                return True
        if clause.startswith("benchmark BLER") and N % BLOCK == 0:
            blocks = d.reshape(-1, BLOCK).any(dim=1)
            return abs(StandardMetrics.block_error_rate(X.reshape(-1), Y.reshape(-1), BLOCK) - int(blocks.sum()) / blocks.numel()) > 2.0 ** -20
    return False


def work(item):
    if item.get("selftest"):
        # mutant: reset forgets to clear the error counter
        from kaira.metrics.signal import BitErrorRate
        orig = BitErrorRate.reset
        BitErrorRate.reset = lambda self: self.total_bits.zero_()
        try:
            obs = history_item(dict(kind="ber", seqs=[("0", "r", "1")]))
        finally:
            BitErrorRate.reset = orig
        hit = any(o["status"] == "violated" for o in obs)
        return [ob("selftest:reset-keeps-error-count", "selftest", "holds" if hit else "error", what="" if hit else "mutant not flagged")]
    if item["type"] == "history":
        return history_item(item)
    return oneshot_item(item)


def replay(body):
    w = body["witness"]
    if "history" in w:
        kind = body["config"].split()[0]
        return replay_history(kind, tuple(w["history"]), w)[0]
    shape = tuple(int(v) for v in body["config"].split("shape=(")[1].split(")")[0].split(",") if v.strip())
    return replay_oneshot(body["clause"], shape, "complex" in body["config"], w)


def main():
    replay_main(__name__)
    ck = Check(PID)
    items = []
    L = tier(4, 5)
    ops = ("0", "1", "2", "c", "r")
    seqs = [()]
    for ln in range(1, L + 1):
        seqs += list(itertools.product(ops, repeat=ln))
    if TIER == "thorough":
        # length 6: every history with at most two computes/resets in total (bound stated)
        seqs += [s for s in itertools.product(ops, repeat=6) if sum(1 for o in s if o in "cr") <= 2 and s[0] in "012"][::3]
    for kind in ("ber", "bler"):
        chunk = 60
        for i in range(0, len(seqs), chunk):
            items.append(dict(type="history", kind=kind, seqs=seqs[i:i + chunk], config=f"{kind} histories {i}..{i + chunk}"))
    for shape in ((4,), (6,), (2, 3), (2, 2, 2)) + (((2, 4), (8,)) if TIER == "thorough" else ()):
        items.append(dict(type="oneshot", shape=shape, config=f"oneshot {shape}"))
    for shape in ((3,), (2, 2), (1, 4)) + (((2, 3),) if TIER == "thorough" else ()):
        items.append(dict(type="oneshot", shape=shape, complex=True, config=f"oneshot complex {shape}"))
    items.append(dict(selftest=True, config="selftest"))
    from kaira.metrics.signal import ber, bler
    from kaira.benchmarks import metrics as bm
    ck.encoded(ber.BitErrorRate.forward, ber.BitErrorRate.update, ber.BitErrorRate.compute, ber.BitErrorRate.reset, bler.BlockErrorRate.forward, bler.BlockErrorRate.update,
               bler.BlockErrorRate.compute, bler.BlockErrorRate.reset, bler.BlockErrorRate._reshape_into_blocks, bm.StandardMetrics.bit_error_rate, bm.StandardMetrics.block_error_rate)
    ck.bound("histories", f"every sequence over {{update(b0), update(b1), update(b2), compute, reset}} up to length {L} (+ sampled length 6 in thorough), three symbolic batches of different sizes; history structure is a concrete enumeration (bound), all data symbolic")
    ck.bound("one-shot", "<= 8 bits per tensor; shapes (4,), (6,), (2,3), (2,2,2) (+ (2,4), (8,)); every divisor block size; complex form (3,), (2,2), (1,4) (+ (2,3)) incl. BLER over blocks of complex symbols")
    ck.stub("module counters (registered buffers) are wrapped as symbolic tensors before the run; float()/item() of a symbolic count case-splits over all feasible values")
    ck.assume("inputs are 0/1-valued tensors (the metrics threshold at 0.5 / compare |x-y| > 0)")
    ck.run_items(__name__, "work", items)
    ck.finish(min_obligations=40)


if __name__ == "__main__":
    main()
