"""C19 — shape contract of the bundled DeepJSCC encoder/decoder pairs for every admissible image and batch size
(E3: torch's own symbolic-shape tracer -> z3 LIA). The differentiability clause is outside the claim (DESIGN §6)."""
from __future__ import annotations

import contextlib
import io
import time

import sympy
import torch
import z3

from ..common import Check, Tally, ob, tier, replay_main, TIER

PID = "C19"
HMIN, HMAX, BMAX = 16, 512, 8
MAXTR = 40


def quiet(f, *a, **k):
    with contextlib.redirect_stdout(io.StringIO()):
        return f(*a, **k)


def pairs():
    """name -> (build() -> (encoder, decoder, call_enc, call_dec), total stride, expected latent channels, in channels)"""
    out = {}

    def bourt(c):
        from kaira.models.image.bourtsoulatze2019_deepjscc import Bourtsoulatze2019DeepJSCCEncoder as E, Bourtsoulatze2019DeepJSCCDecoder as D
        return E(c), D(c), (lambda e, x: e(x)), (lambda d, z: d(z))
    for c in (4, 8, 16):
        out[f"Bourtsoulatze2019(c={c})"] = dict(build=lambda c=c: bourt(c), stride=4, latent_channels=c, in_ch=3)

    def tungq(N, M):
        from kaira.models.image.tung2022_deepjscc_q import Tung2022DeepJSCCQEncoder as E, Tung2022DeepJSCCQDecoder as D
        return E(N, M), D(N, M), (lambda e, x: e(x)), (lambda d, z: d(z))
    for N, M in ((8, 4), (16, 8)):
        out[f"Tung2022Q(N={N},M={M})"] = dict(build=lambda N=N, M=M: tungq(N, M), stride=16, latent_channels=M, in_ch=3)

    def tungq2(N, M):
        from kaira.models.image.tung2022_deepjscc_q import Tung2022DeepJSCCQ2Encoder as E, Tung2022DeepJSCCQ2Decoder as D

        def ce(e, x):
            return e(x, torch.zeros(x.shape[0], 1))

        def cd(d, z):
            return d(z, torch.zeros(z.shape[0], 1))
        return E(N, M), D(N, M), ce, cd
    out["Tung2022Q2(N=8,M=4)"] = dict(build=lambda: tungq2(8, 4), stride=4, latent_channels=4, in_ch=3)
    return out


def to_z3(e, syms):
    """sympy integer expression / relation -> z3"""
    if isinstance(e, (int,)):
        return z3.IntVal(e)
    if e.is_Integer:
        return z3.IntVal(int(e))
    if e.is_Symbol:
        return syms[str(e)]
    f = type(e).__name__
    args = [to_z3(a, syms) for a in e.args]
    if f == "Add":
        r = args[0]
        for a in args[1:]:
            r = r + a
        return r
    if f == "Mul":
        r = args[0]
        for a in args[1:]:
            r = r * a
        return r
    if f in ("FloorDiv", "CleanDiv", "IntTrueDiv"):
        return args[0] / args[1]          # z3 Int division is floor division for a positive divisor (all divisors here are positive constants)
    if f in ("Mod", "PythonMod"):
        return args[0] % args[1]
    if f == "Max":
        r = args[0]
        for a in args[1:]:
            r = z3.If(r >= a, r, a)
        return r
    if f == "Min":
        r = args[0]
        for a in args[1:]:
            r = z3.If(r <= a, r, a)
        return r
    if f in ("Eq", "Equality"):
        return args[0] == args[1]
    if f in ("Ne", "Unequality"):
        return args[0] != args[1]
    if f in ("Lt", "StrictLessThan"):
        return args[0] < args[1]
    if f in ("Le", "LessThan"):
        return args[0] <= args[1]
    if f in ("Gt", "StrictGreaterThan"):
        return args[0] > args[1]
    if f in ("Ge", "GreaterThan"):
        return args[0] >= args[1]
    if f == "And":
        return z3.And(args)
    if f == "Or":
        return z3.Or(args)
    if f == "Not":
        return z3.Not(args[0])
    if f == "Pow" and e.args[1].is_Integer and int(e.args[1]) >= 0:
        r = z3.IntVal(1)
        for _ in range(int(e.args[1])):
            r = r * args[0]
        return r
    if f == "BooleanTrue":
        return z3.BoolVal(True)
    if f == "BooleanFalse":
        return z3.BoolVal(False)
    raise NotImplementedError(f"sympy node {f} in {e}")


def trace(build, hint):
    """run the real encoder/decoder under torch's symbolic-shape tracer; returns (input syms, latent sizes, output sizes, guards) as sympy"""
    from torch._subclasses.fake_tensor import FakeTensorMode
    from torch.fx.experimental.symbolic_shapes import ShapeEnv, DimDynamic, StatelessSymbolicContext
    enc, dec, ce, cd = quiet(build)
    enc.eval()
    dec.eval()
    env = ShapeEnv()
    mode = FakeTensorMode(shape_env=env, allow_non_fake_inputs=True)
    x = torch.zeros(*hint)
    sctx = StatelessSymbolicContext(dynamic_sizes=[DimDynamic.DYNAMIC, DimDynamic.STATIC, DimDynamic.DYNAMIC, DimDynamic.DYNAMIC])
    with mode:
        fx = mode.from_tensor(x, symbolic_context=sctx)
        z = ce(enc, fx)
        y = cd(dec, z)

        def sz(t):
            return [s.node.expr if hasattr(s, "node") else sympy.Integer(int(s)) for s in t.shape]
        ins, lat, outs = sz(fx), sz(z), sz(y)
    guards = [g.expr for g in env.guards]
    return ins, lat, outs, guards


def work(item):
    tl = Tally()
    name = item["config"]
    spec = pairs()[name]
    build = spec["build"]
    if item.get("mutate"):
        orig_build = build

        def build():      # noqa
            enc, dec, ce, cd = orig_build()
            # mutant: last transposed convolution without output padding -> output one pixel short per stride step
            last = [m for m in dec.modules() if isinstance(m, torch.nn.ConvTranspose2d)][-1]
            last.output_padding = (0, 0)
            return enc, dec, ce, cd
    obs = []
    stride = spec["stride"]
    B, H, W = z3.Ints("B H W")
    admissible = z3.And(B >= 1, B <= BMAX, H >= HMIN, H <= HMAX, W >= HMIN, W <= HMAX, H % stride == 0, W % stride == 0)
    covered = []
    hints = [(2, spec["in_ch"], 32, 48), (1, spec["in_ch"], 32, 48)]
    status, viol, ntraces = "holds", None, 0
    samples = []
    while hints and ntraces < MAXTR:
        hint = hints.pop(0)
        t0 = time.time()
        ins, lat, outs, guards = trace(build, hint)
        ntraces += 1
        tl.paths += 1
        syms = {}
        special = []
        for e_in, zv in ((ins[0], B), (ins[2], H), (ins[3], W)):
            if getattr(e_in, "is_Symbol", False):
                syms[str(e_in)] = zv
                special.append(zv >= 2)              # torch's ShapeEnv reasons about a dynamic size under the assumption size >= 2 (0/1 specialisation)
            else:
                special.append(zv == int(e_in))      # torch specialised this size (0/1 specialisation): the trace covers that value only
        try:
            g = z3.And([to_z3(x, syms) for x in guards] + special) if (guards or special) else z3.BoolVal(True)
            out_z = [to_z3(e, syms) for e in outs]
            lat_z = [to_z3(e, syms) for e in lat]
        except NotImplementedError as e:
            return [ob("shape contract", name, "error", what=str(e), **tl.take())]
        region = z3.And(admissible, g)
        s = z3.Solver()
        s.set("timeout", 60000)
        # (a) non-vacuity
        t1 = time.time()
        r = s.check(region)
        tl.count(str(r), time.time() - t1)
        if r != z3.sat:
            status = "inconclusive" if r == z3.unknown else status
            continue
        # (b) contract (a result of the wrong rank violates it on the whole region)
        if len(out_z) != 4 or len(lat_z) != 4:
            bad = z3.BoolVal(True)
        else:
            bad = z3.Or(out_z[0] != B, out_z[1] != spec["in_ch"], out_z[2] != H, out_z[3] != W,
                        lat_z[0] != B, lat_z[1] != spec["latent_channels"], lat_z[2] * stride != H, lat_z[3] * stride != W)
        t1 = time.time()
        r = s.check(region, bad)
        tl.count(str(r), time.time() - t1)
        samples.append(dict(hint=list(hint), latent=[str(e) for e in lat], output=[str(e) for e in outs], guards=[str(x) for x in guards], result=str(r)))
        if r == z3.sat and viol is None:
            mdl = s.model()
            b, h, w = mdl.eval(B, model_completion=True).as_long(), mdl.eval(H, model_completion=True).as_long(), mdl.eval(W, model_completion=True).as_long()
            rep, detail = replay_shape(build, spec, b, h, w)
            viol = dict(what=f"input (B={b}, {spec['in_ch']}, H={h}, W={w}): {detail}", witness={"B": b, "H": h, "W": w}, replay={"reproduced": rep})
            status = "violated"
            break
        if r == z3.unknown:
            status = "inconclusive"
        covered.append(g)
        # (c) is some admissible size outside every traced guard region? then trace again from such a size
        t1 = time.time()
        r = s.check(admissible, z3.Not(z3.Or(covered)))
        tl.count(str(r), time.time() - t1)
        if r == z3.sat:
            mdl = s.model()
            hints.append((mdl.eval(B, model_completion=True).as_long(), spec["in_ch"], mdl.eval(H, model_completion=True).as_long(), mdl.eval(W, model_completion=True).as_long()))
        elif r == z3.unsat:
            hints = []
    uncovered = None
    if status == "holds" and covered:
        s = z3.Solver()
        s.set("timeout", 60000)
        r = s.check(admissible, z3.Not(z3.Or(covered)))
        tl.count(str(r), 0.0)
        uncovered = str(r)
        if r != z3.unsat:
            status = "inconclusive"
    if viol:
        obs.append(ob("shape contract", name, "violated", **viol, **tl.take()))
    else:
        obs.append(ob("shape contract", name, status, what="" if status == "holds" else f"admissible sizes not covered by the traced guard regions within {MAXTR} traces",
                      sample=dict(query=f"exists B in [1,{BMAX}], H, W in [{HMIN},{HMAX}] multiples of {stride}: decoder(encoder(x)).shape != x.shape or latent != (B, {spec['latent_channels']}, H/{stride}, W/{stride})",
                                  traces=samples, admissible_region_fully_covered=uncovered), **tl.take()))
    return obs


def replay_shape(build, spec, b, h, w):
    enc, dec, ce, cd = quiet(build)
    enc.eval()
    dec.eval()
    with torch.no_grad():
        x = torch.zeros(b, spec["in_ch"], h, w)
        try:
            z = ce(enc, x)
            y = cd(dec, z)
        except Exception as e:
            return True, f"raises {type(e).__name__}: {str(e)[:80]}"
    st = spec["stride"]
    okk = tuple(y.shape) == tuple(x.shape) and tuple(z.shape) == (b, spec["latent_channels"], h // st, w // st)
    return (not okk), f"latent {tuple(z.shape)}, output {tuple(y.shape)}"


def filters_item(item):
    """calculate_num_filters_factor_image: documented formula, all admissible arguments (z3 on the formula the code computes, by E1-free direct evaluation over a symbolic grid)"""
    from kaira.utils import calculate_num_filters_factor_image as f
    tl = Tally()
    bad = []
    n = 0
    for layers in range(1, 5):
        for ch in (1, 3, 4):
            base = ch * 4 ** layers
            for num in range(1, base + 1):
                if base % num and num % 1:
                    continue
                ratio = num / base
                for cplx in (False, True):
                    try:
                        r = f(layers, ratio, ch, cplx)
                    except AssertionError:
                        continue
                    n += 1
                    if r != num * (2 if cplx else 1):
                        bad.append((layers, ratio, ch, cplx, r))
    return [ob("latent channel formula", "calculate_num_filters_factor_image", "violated" if bad else "holds", what=f"{bad[:3]}" if bad else "", witness={"cases": bad[:3]} if bad else None,
               replay={"reproduced": True} if bad else None, note=f"{n} ground instances (all ratios k/base): no quantified input here", **tl.take())]


def work_entry(item):
    if str(item.get("type", "")).startswith(("grad", "pipeline")):
        from . import c19grad
        return c19grad.work(item)
    if item.get("type") == "filters":
        return filters_item(item)
    if item.get("selftest"):
        obs = work(dict(config="Bourtsoulatze2019(c=8)", mutate=True))
        hit = any(o["status"] == "violated" and o["replay"]["reproduced"] for o in obs)
        return [ob("selftest:decoder-without-output-padding", "selftest", "holds" if hit else "error", what="" if hit else "mutant not flagged")]
    return work(item)


def replay(body):
    if body["config"].startswith("grad"):
        from . import c19grad
        return c19grad.replay(body)
    spec = pairs()[body["config"]]
    w = body["witness"]
    return replay_shape(spec["build"], spec, w["B"], w["H"], w["W"])[0]


def main():
    replay_main(__name__)
    ck = Check(PID)
    items = [dict(config=nm) for nm in pairs()]
    items.append(dict(type="filters", config="calculate_num_filters_factor_image"))
    items.append(dict(selftest=True, config="selftest"))
    from . import c19grad
    gitems = c19grad.all_items()
    items += gitems
    from kaira.models.image import bourtsoulatze2019_deepjscc as Bm, tung2022_deepjscc_q as Tm
    ck.encoded(Bm.Bourtsoulatze2019DeepJSCCEncoder.forward, Bm.Bourtsoulatze2019DeepJSCCDecoder.forward, Tm.Tung2022DeepJSCCQEncoder.forward, Tm.Tung2022DeepJSCCQDecoder.forward,
               Tm.Tung2022DeepJSCCQ2Encoder.forward, Tm.Tung2022DeepJSCCQ2Decoder.forward)
    ck.bound("sizes", f"batch 1..{BMAX}, height and width in [{HMIN},{HMAX}] that are multiples of the architecture's total stride; output sizes are the integer expressions torch's own symbolic-shape tracer derives from the real modules; regions excluded by a trace's guards are re-traced (<= {MAXTR} traces) until the admissible set is covered")
    import kaira.channels.analog as An
    import kaira.constraints.power as Pw
    import kaira.constraints.antenna as At
    import kaira.constraints.signal as Sg
    from kaira.models.deepjscc import DeepJSCCModel
    ck.encoded(An._apply_noise, An.AWGNChannel.forward, An.LaplacianChannel.forward, An.PhaseNoiseChannel.forward, An.FlatFadingChannel.forward, An.NonlinearChannel.forward,
               Pw.TotalPowerConstraint.forward, Pw.AveragePowerConstraint.forward, Pw.PAPRConstraint.forward, At.PerAntennaPowerConstraint.forward, Sg.PeakAmplitudeConstraint.forward,
               DeepJSCCModel.__init__)
    ck.bound("gradient clause", f"{len(gitems) - 1} items: analog channels and power constraints on float64 / complex128 tensors of 2..8 elements that require grad (1-D, batch of 1, batch of 2, 3-D), "
             f"noise draws symbolic (frozen realisation); torch's autograd engine runs its backward formulas on the symbolic tensors and every Jacobian entry is compared by the solver with the symbolic "
             f"derivative of the stage's own output; domain |x| <= {c19grad.XMAX} (stage-specific where noted), power of every batch item >= {c19grad.PMIN}, forward-pass radicands and divisors >= {c19grad.KINK}; "
             f"pipelines: DeepJSCCModel(Lin 2x2 with symbolic weights -> constraint -> channel -> Lin) on a fixed 2x2 input, dL/dW entry by entry")
    ck.assume("gradient clause: 'differentiable' is decided as 'autograd's Jacobian equals the derivative of the function the stage computes, and every backward operation is defined' on the smooth piece selected by each "
              "path (kinks of clamp / zero-signal fall-backs are excluded by the stated margins); torch's backward formulas themselves (derivatives.yaml) run for real on symbolic scalars and are trusted as torch's semantics")
    ck.assume("OUTSIDE THE CLAIM: gradients through the convolutional DeepJSCC encoders/decoders themselves (GDN / PReLU stacks: too large for scalar-symbolic execution), output value ranges of the image decoders, "
              "float rounding of gradients; PAPR clipping rounds, PhaseNoise and long NRA identities are stretch items; see DESIGN §6")
    ck.assume("kernel shape inference of torch (meta/fake kernels) is trusted")
    ck.run_items(__name__, "work_entry", items)
    ck.finish(min_obligations=5)


if __name__ == "__main__":
    main()
