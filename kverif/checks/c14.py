"""C14 — constellations are bijectively labelled, normalised and Gray-coded when requested; Gray utilities."""
from __future__ import annotations

from fractions import Fraction

import torch
import z3
from torch.utils._python_dispatch import _disable_current_modes

from .. import sym as S
from ..catalog import modem_specs, build_modem
from ..common import Check, Tally, ob, tier, replay_main, TIER
from ..engine import fresh_bits, elems
from ..harness import sym_paths, differs, decide, model_bits, real_bits, concolic, zor, zand
from ..sym import NotEncodable

PID = "C14"


def gray_requested(m):
    kw = m["mod_kw"]
    if "gray_coding" in kw:
        return kw["gray_coding"]
    if "gray_coded" in kw:
        return kw["gray_coded"]
    return m["mod"] in ("QPSKModulator", "OQPSKModulator", "DBPSKModulator", "DQPSKModulator")   # documented Gray by construction


def unit_energy_expected(m):
    kw = m["mod_kw"]
    if m["mod"] in ("BPSKModulator", "PSKModulator", "DPSKModulator", "DBPSKModulator", "DQPSKModulator", "Pi4QPSKModulator"):
        return True
    return bool(kw.get("normalize", False)) if m["mod"] != "QPSKModulator" else bool(kw.get("normalize", True))


def modem_item(m, tl, mutate=None):
    obs = []
    config = m["name"]
    bps = m["bps"]

    def rec(clause, status, **kw):
        obs.append(ob(clause, config, status, **kw, **tl.take()))
    mod, demod = build_modem(m)
    if mutate:
        mutate(mod)
    if not hasattr(mod, "constellation") or not hasattr(mod, "bit_patterns"):
        return obs
    with _disable_current_modes():
        const = mod.constellation.detach().clone()
        pats = [[int(round(float(v))) for v in row] for row in mod.bit_patterns.tolist()]
    M = const.numel()
    # ---- ground facts on the published tables --------------------------------------------------------
    pts = [complex(c) for c in const.tolist()] if const.is_complex() else [complex(float(c), 0.0) for c in const.tolist()]
    bad = []
    if M != 2 ** bps:
        bad.append(f"{M} points for {bps} bits per symbol")
    if len(set(pts)) != M:
        bad.append("constellation points are not distinct")
    if len({tuple(p) for p in pats}) != M or any(len(p) != bps for p in pats):
        bad.append("bit_patterns are not all distinct b-bit patterns")
    rec("tables: 2^b distinct points and labels", "violated" if bad else "holds", what="; ".join(bad), witness={"issues": bad} if bad else None, replay={"reproduced": True} if bad else None)
    if unit_energy_expected(m):
        e = sum(Fraction(p.real) ** 2 + Fraction(p.imag) ** 2 for p in pts) / M     # exact rational on the float32 entries
        okE = abs(e - 1) <= Fraction(1, 100000)
        rec("unit average energy", "holds" if okE else "violated", what="" if okE else f"mean |c|^2 = {float(e):.8f}", witness=None if okE else {"energy": float(e)}, replay=None if okE else {"reproduced": True})
    if bad:
        return obs
    # minimum distance of the published table (float64 on the float32 entries)
    dmin = min(abs(pts[i] - pts[j]) for i in range(M) for j in range(i + 1, M))
    if m["memory"] == "oqpsk":
        return obs   # forward() builds in-phase / delayed quadrature streams, not table lookups: label clauses apply to the tables only

    def prep():
        mod.eval()
        if hasattr(mod, "reset_state"):
            mod.reset_state()

    def run(ctx):
        prep()
        b = fresh_bits("b", (2, bps))          # two independent single-symbol rows: labels b and b'
        y = mod(b)
        y0, y1 = y[0, 0], y[1, 0]
        same = (y0 == y1)
        close = torch.abs(y0 - y1) <= dmin * (1 + 1e-4)
        hits = [y0 == const[i] for i in range(M)]
        return dict(b=b, y=y, same=same, close=close, hits=hits)
    paths = sym_paths(run, (), tl, max_paths=16, state=(mod,))
    for ctx, R in paths:
        def realfn(b):
            prep()
            return mod(b)
        okc, detail = concolic(ctx, {"b": R["b"]}, realfn, [R["y"]], tl)
        if not okc:
            rec("harness", "error", what="concolic disagreement: " + detail)
            return obs
        bb = elems(R["b"])
        b0, b1 = bb[:bps], bb[bps:]
        neq = zor([S.zbool(S.ne(x, y)) for x, y in zip(b0, b1)])
        # (1) labelling is injective through the real modulator
        st, model = decide(ctx, z3.And(neq, S.zbool(elems(R["same"])[0])))
        if st == "violated":
            w = model_bits(model, "b", 2 * bps)
            with _disable_current_modes():
                yy = realfn(real_bits(w, (2, bps)))
                rep = bool(yy[0, 0] == yy[1, 0])
            rec("labels map to distinct points", st, what=f"labels {w[:bps]} and {w[bps:]} are modulated to the same point", witness={"b": w}, replay={"reproduced": rep})
        else:
            rec("labels map to distinct points", st)
        # (2) forward, constellation and bit_patterns tell one story
        viol = None
        status = "holds"
        for i in range(M):
            mism = zor([S.zbool(S.ne(x, bool(p))) for x, p in zip(b0, pats[i])])
            st, model = decide(ctx, z3.And(S.zbool(elems(R["hits"][i])[0]), mism))
            if st == "violated" and viol is None:
                w = model_bits(model, "b", 2 * bps)[:bps]
                with _disable_current_modes():
                    yy = realfn(real_bits(w + w, (2, bps)))[0, 0]
                    rep = bool(yy == const[i]) and w != pats[i]
                viol = dict(what=f"bits {w} are modulated to constellation[{i}], whose published label bit_patterns[{i}] is {pats[i]}", witness={"b": w, "index": i}, replay={"reproduced": rep})
                status = "violated"
            elif st == "inconclusive" and status == "holds":
                status = st
        # every label reaches some table point
        st2, model = decide(ctx, z3.Not(zor([S.zbool(elems(h)[0]) for h in R["hits"]])))
        if st2 == "violated" and viol is None:
            w = model_bits(model, "b", 2 * bps)[:bps]
            viol = dict(what=f"bits {w} are modulated to a point that is not in the published constellation", witness={"b": w, "off_table": True}, replay={"reproduced": True})
            status = "violated"
        if viol:
            rec("forward agrees with published labels", "violated", **viol)
        else:
            rec("forward agrees with published labels", status, sample=dict(query="exists b, i: mod(b) == constellation[i] and bit_patterns[i] != b", M=M, result=status))
        # (3) Gray: nearest neighbours differ in exactly one bit (labels = what forward() really uses)
        if gray_requested(m) and M > 2:
            ham = 0
            for x, y in zip(b0, b1):
                ham = S.add(ham, S.bxor(x, y))
            st, model = decide(ctx, z3.And(neq, S.zbool(elems(R["close"])[0]), S.zbool(S.ne(ham, 1))))
            if st == "violated":
                w = model_bits(model, "b", 2 * bps)
                with _disable_current_modes():
                    yy = realfn(real_bits(w, (2, bps)))
                    d = float(torch.abs(yy[0, 0] - yy[1, 0]))
                hd = sum(a != b for a, b in zip(w[:bps], w[bps:]))
                rec("gray: nearest neighbours differ in one bit", st, what=f"labels {w[:bps]} and {w[bps:]} sit on nearest neighbours (distance {d:.4f} = d_min {dmin:.4f}) but differ in {hd} bits",
                    witness={"b": w}, replay={"reproduced": d <= dmin * (1 + 1e-4) and hd != 1})
            else:
                rec("gray: nearest neighbours differ in one bit", st, sample=dict(query="exists b != b': |mod(b)-mod(b')| <= d_min(1+1e-4) and hamming(b,b') != 1", dmin=dmin, result=st))
    return obs


def work(item):
    from .. import ops as O
    O.AUTO_TABLE = True
    tl = Tally()
    if item["type"] == "gray":
        from .. import gray
        obs = gray.work(item["item"])
        if TIER == "thorough":
            # the two-argument injectivity queries at the largest bit lengths do not always finish inside their cap
            # when 16 workers share the machine: undecided ones are reported as stretch, never as success
            for o in obs:
                if o["status"] == "inconclusive" and o["clause"].endswith("injective"):
                    o["stretch"] = True
        return obs
    try:
        if item.get("selftest"):
            def mutate(mod):
                c = mod.constellation
                c[[1, 2]] = c[[2, 1]].clone()    # two constellation points swapped: labels no longer Gray / consistent
            obs = modem_item(item["modem"], tl, mutate)
            hit = any(o["status"] == "violated" and o["replay"]["reproduced"] for o in obs)
            return [ob("selftest:swapped-points", "selftest", "holds" if hit else "error", what="" if hit else "mutant not flagged")]
        return modem_item(item["modem"], tl)
    except NotEncodable as e:
        return [ob("harness", item["config"], "error", what=f"NotEncodable: {e}")]


def replay(body):
    if body["config"].startswith("n <") or "tensor" in body["config"] or "QF_BV" in body["config"]:
        from .. import gray
        for it in gray.items():
            obs = gray.work(it)
            if any(o["clause"] == body["clause"] and o["status"] == "violated" and (o.get("replay") or {}).get("reproduced") for o in obs):
                return True
        return False
    for m in modem_specs():
        if m["name"] == body["config"]:
            obs = modem_item(m, Tally())
            return any(o["clause"] == body["clause"] and o["status"] == "violated" and o["replay"]["reproduced"] for o in obs)
    return False


def main():
    replay_main(__name__)
    ck = Check(PID)
    items = [dict(type="modem", modem=m, config=m["name"], stretch=bool(m.get("stretch"))) for m in modem_specs() if m["name"] != "Identity"]
    sm = [m for m in modem_specs() if m["name"] == "PSK8(gray=True)"][0]
    items.append(dict(type="modem", modem=sm, selftest=True, config="selftest"))
    try:
        from .. import gray
        for it in gray.items():
            items.append(dict(type="gray", item=it, config=str(it.get("config", it.get("clause", "gray")))))
        ck.encoded(*gray.ENCODED)
        for s_ in gray.STUBS:
            ck.stub(s_)
        for a in gray.ASSUMPTIONS:
            ck.assume(a)
        for k, v in gray.BOUNDS.items():
            ck.bound("gray:" + k, v)
    except ImportError:
        pass
    import kaira.modulations as MM
    ck.encoded(MM.PSKModulator._create_constellation, MM.PSKModulator.forward, MM.QAMModulator._create_constellation, MM.QAMModulator.forward, MM.PAMModulator._create_constellation,
               MM.PAMModulator.forward, MM.DPSKModulator._create_constellation, MM.DPSKModulator.forward, MM.Pi4QPSKModulator.forward, MM.QPSKModulator.forward, MM.BPSKModulator.forward)
    ck.bound("modems", "all schemes/orders/options of the C05 catalogue that publish constellation + bit_patterns; two symbolic labels b, b' through the real modulator (all 4^b pairs per query)")
    ck.assume("unit energy and table distinctness are ground facts about the published float32 tables, evaluated in exact rational arithmetic; Gray clause uses d_min of the published table with a 1e-4 relative margin")
    ck.run_items(__name__, "work", items)
    ck.finish(min_obligations=40)


if __name__ == "__main__":
    main()
