"""C01 — encoder, generator matrix and parity-check matrix describe one and the same code."""
from __future__ import annotations

import sys

import torch
import z3
from torch.utils._python_dispatch import _disable_current_modes

from .. import sym as S
from ..catalog import code_specs, build_code, cfg, gf2_rank
from ..common import Check, Tally, ob, tier, replay_main, TIER
from ..engine import fresh_bits, elems, from_arr, SymTensor
from ..harness import (dual_certificate, sym_paths, differs, all_zero, decide, reachable, model_bits, real_bits, concolic,
                       to_int_matrix, is_binary_matrix, zor, zand)
from ..sym import NotEncodable

PID = "C01"


def ref_check_matrix(G):
    """independent GF(2) elimination: basis of the dual of rowspace(G) as int row lists"""
    k, n = len(G), len(G[0])
    rows = [r[:] for r in G]
    piv = []
    r = 0
    for c in range(n):
        p = next((i for i in range(r, k) if rows[i][c]), None)
        if p is None:
            continue
        rows[r], rows[p] = rows[p], rows[r]
        for i in range(k):
            if i != r and rows[i][c]:
                rows[i] = [a ^ b for a, b in zip(rows[i], rows[r])]
        piv.append(c)
        r += 1
        if r == k:
            break
    free = [c for c in range(n) if c not in piv]
    H = []
    for f in free:
        h = [0] * n
        h[f] = 1
        for i, pc in enumerate(piv):
            if rows[i][f]:
                h[pc] = 1
        H.append(h)
    return H, len(piv)


def xor_dot(bits, row):
    acc = False
    for b, r in zip(bits, row):
        if r:
            acc = S.bxor(acc, b)
    return acc


def clauses(enc, config, tl, only=None):
    obs = []
    k, n = enc.code_dimension, enc.code_length
    Gt, Ht = enc.generator_matrix, enc.check_matrix

    def rec(clause, status, what="", witness=None, replay=None, sample=None):
        obs.append(ob(clause, config, status, what=what, witness=witness, replay=replay, sample=sample, **tl.take()))

    # --- ground facts about the published tables ---------------------------------------------------
    if tuple(Gt.shape) != (k, n):
        rec("dims", "violated", what=f"generator_matrix shape {tuple(Gt.shape)} != (k={k}, n={n})", witness={"shape": list(Gt.shape)}, replay={"reproduced": True})
        return obs
    if not is_binary_matrix(Gt) or not is_binary_matrix(Ht):
        rec("binary-tables", "violated", what="published generator/check matrix has entries outside {0,1}",
            witness={"H": Ht.tolist()[:4]}, replay={"reproduced": True})
        return obs
    G = to_int_matrix(Gt)
    H = to_int_matrix(Ht)
    if Ht.shape[1] != n or enc.redundancy != n - k:
        rec("dims", "violated", what=f"check_matrix has {Ht.shape[1]} columns / redundancy {enc.redundancy} for n={n}, k={k}",
            witness={"H_shape": list(Ht.shape)}, replay={"reproduced": True})
        return obs
    rkH = gf2_rank([int("".join(map(str, r)), 2) for r in H]) if H else 0
    rkG = gf2_rank([int("".join(map(str, r)), 2) for r in G])

    # --- symbolic run of the real encoder -----------------------------------------------------------
    # Reed-Muller syndromes come from a nearest-codeword search over all 2^k codewords (an ite-chain of
    # 2^k arms per output bit): bounded to k <= 7; larger RM codes get the encoder clauses only
    do_syn = not (type(enc).__name__ == "ReedMullerCodeEncoder" and k > 7)

    def run(ctx):
        m = fresh_bits("m", (1, k))
        m2 = fresh_bits("w", (1, k))
        c = enc(m)
        c2 = enc(m2)
        msum = from_arr([S.bxor(a, b) for a, b in zip(elems(m), elems(m2))], torch.float32, (1, k))
        csum = enc(msum)
        x = fresh_bits("x", (1, n))
        syn = enc.calculate_syndrome(c) if do_syn else None
        sx = enc.calculate_syndrome(x) if do_syn else None
        return dict(m=m, m2=m2, c=c, c2=c2, csum=csum, syn=syn, x=x, sx=sx)
    paths = sym_paths(run, (), tl)
    if len(paths) != 1:
        rec("harness", "error", what=f"{len(paths)} paths where one was expected")
        return obs
    ctx, R = paths[0]
    m, c = elems(R["m"]), elems(R["c"])
    if do_syn:
        ok, detail = concolic(ctx, {"m": R["m"]}, lambda m: (enc(m), enc.calculate_syndrome(enc(m))), [R["c"], R["syn"]], tl)
    else:
        ok, detail = concolic(ctx, {"m": R["m"]}, lambda m: enc(m), [R["c"]], tl)
    if not ok:
        rec("harness", "error", what="concolic disagreement encoder: " + detail)
        return obs
    ok, detail = concolic(ctx, {"x": R["x"]}, lambda x: enc.calculate_syndrome(x), [R["sx"]], tl) if do_syn else (True, "")
    if not ok:
        rec("harness", "error", what="concolic disagreement syndrome: " + detail)
        return obs
    if tuple(R["c"].shape) != (1, n):
        rec("dims", "violated", what=f"encoder output shape {tuple(R['c'].shape)} != (1,{n})", witness={}, replay={"reproduced": True})
        return obs

    def replay_msg(mb, pred):
        with _disable_current_modes():
            mt = real_bits(mb, (1, k))
            return bool(pred(mt))

    # 1. enc(m) == m.G
    ref = [xor_dot(m, [G[i][j] for i in range(k)]) for j in range(n)]
    st, model = decide(ctx, differs(c, ref))
    if st == "violated":
        mb = model_bits(model, "m", k)
        rep = replay_msg(mb, lambda mt: not torch.equal(enc(mt) % 2, (mt @ enc.generator_matrix.to(mt.dtype)) % 2))
        rec("enc=mG", st, what=f"enc(m) != m.G mod 2 for m={mb}", witness={"m": mb}, replay={"reproduced": rep})
    else:
        rec("enc=mG", st, sample=dict(query="exists m in {0,1}^k : enc(m)[j] != XOR_i m_i G[i][j]", k=k, n=n, result=st))
    # 2. injective + linear
    st, model = decide(ctx, z3.And(all_zero(c), zor([S.zbool(b) for b in m])))
    if st == "violated":
        mb = model_bits(model, "m", k)
        rep = replay_msg(mb, lambda mt: bool((enc(mt) == 0).all()) and bool(mt.any()))
        rec("injective", st, what=f"non-zero message {mb} encodes to the zero word (rank G = {rkG} < k = {k})", witness={"m": mb}, replay={"reproduced": rep})
    else:
        rec("injective", st)
    csum_ref = [S.bxor(a, b) for a, b in zip(c, elems(R["c2"]))]
    st, model = decide(ctx, differs(elems(R["csum"]), csum_ref))
    if st == "violated":
        mb, wb = model_bits(model, "m", k), model_bits(model, "w", k)
        with _disable_current_modes():
            a, b = real_bits(mb, (1, k)), real_bits(wb, (1, k))
            rep = not torch.equal(enc((a + b) % 2), (enc(a) + enc(b)) % 2)
        rec("linear", st, what=f"enc(m^w) != enc(m)^enc(w) for m={mb}, w={wb}", witness={"m": mb, "w": wb}, replay={"reproduced": rep})
    else:
        rec("linear", st)
    if not do_syn:
        if rkH != n - k:
            rec("rank(H)=n-k", "violated", what=f"published check matrix has rank {rkH}, expected n-k = {n - k}", witness={"rank": rkH, "n": n, "k": k}, replay={"reproduced": True})
        else:
            rec("rank(H)=n-k", "holds")
        return obs
    # 3. code inside null space of published H
    st, model = decide(ctx, z3.Not(all_zero(elems(R["syn"]))))
    if st == "violated":
        mb = model_bits(model, "m", k)
        rep = replay_msg(mb, lambda mt: bool(enc.calculate_syndrome(enc(mt)).any()))
        rec("syndrome(enc(m))=0", st, what=f"codeword of m={mb} has a non-zero syndrome", witness={"m": mb}, replay={"reproduced": rep})
    else:
        rec("syndrome(enc(m))=0", st)
    # 4. null space of published H inside the code (reference dual basis validated by the solver first)
    Href, rk = ref_check_matrix(G)
    if rk == k:
        st0, _ = decide(ctx, zor([S.zbool(xor_dot(ref, h)) for h in Href])) if Href else ("holds", None)
        indep = gf2_rank([int("".join(map(str, r)), 2) for r in Href]) == n - k if Href else (n == k)
        if st0 != "holds" or not indep:
            rec("harness", "error", what="reference dual basis failed its own validation")
        else:
            x, sx = elems(R["x"]), elems(R["sx"])
            neg = z3.And(all_zero(sx), zor([S.zbool(xor_dot(x, h)) for h in Href])) if Href else z3.BoolVal(False)
            st, model = decide(ctx, neg)
            how = "direct"
            if st == "inconclusive" and Href:
                # CDCL has no Gaussian elimination: for long XOR chains (n >= 63) the direct query can time out.
                # Fall back to one GF(2) Farkas query per reference row (see harness.dual_certificate).
                certs = [dual_certificate(sx, xor_dot(x, h), tally=tl)[0] for h in Href]
                if all(c is True for c in certs):
                    st, how = "holds", f"dual certificates ({len(Href)} sat queries) after the direct query returned unknown"
            if st == "violated":
                xb = model_bits(model, "x", n)
                with _disable_current_modes():
                    xt = real_bits(xb, (1, n))
                    zero_syn = not bool(enc.calculate_syndrome(xt).any())
                    # is xt a codeword? solve with the reference: Href.x != 0  <=> not in rowspace(G)
                    notcw = any(sum(a * b for a, b in zip(xb, h)) % 2 for h in Href)
                    rep = zero_syn and notcw
                rec("zero-syndrome=>codeword", st, what=f"non-codeword x={xb} has an all-zero syndrome (rank of published H = {rkH}, needs n-k = {n - k})",
                    witness={"x": xb}, replay={"reproduced": rep})
            else:
                rec("zero-syndrome=>codeword", st, sample=dict(query="exists x in {0,1}^n : syndrome(x)=0 and Href.x != 0", n=n, rows_Href=len(Href), result=st, decided_by=how))
    # 5. rank statement as a ground corollary, reported separately so that a defect is localised
    if rkH != n - k:
        rec("rank(H)=n-k", "violated", what=f"published check matrix has rank {rkH}, expected n-k = {n - k}", witness={"rank": rkH, "n": n, "k": k}, replay={"reproduced": True})
    else:
        rec("rank(H)=n-k", "holds")
    return obs


def work(item):
    tl = Tally()
    s = item["spec"]
    config = cfg(s)
    try:
        enc = build_code(s)
    except (ValueError, AssertionError, RuntimeError, IndexError) as e:
        return [] if not item.get("selftest") else [ob("selftest", config, "error", what=f"cannot build: {e}")]
    if item.get("selftest") == "zeroH":
        enc.check_matrix = torch.zeros_like(enc.check_matrix)
        obs = clauses(enc, config, tl)
        hit = any(o["status"] == "violated" and o["clause"] in ("zero-syndrome=>codeword",) and o["replay"]["reproduced"] for o in obs)
        return [ob("selftest:all-zero-H", config, "holds" if hit else "error", what="" if hit else "mutant (all-zero check matrix) not flagged")]
    if item.get("selftest") == "nomod":
        orig = enc.generator_matrix.clone()
        enc.generator_matrix[0, :] = enc.generator_matrix[1, :]  # rank-deficient generator published and used
        obs = clauses(enc, config, tl)
        hit = any(o["status"] == "violated" and o["clause"] in ("injective", "enc=mG") and o["replay"]["reproduced"] for o in obs)
        return [ob("selftest:duplicate-row-G", config, "holds" if hit else "error", what="" if hit else "mutant (rank-deficient G) not flagged")]
    try:
        return clauses(enc, config, tl)
    except NotEncodable as e:
        return [ob("harness", config, "error", what=f"NotEncodable: {e}")]


def replay(body):
    """re-run the failing clause on the real code for the recorded configuration"""
    from ..catalog import code_specs
    for s in code_specs():
        if cfg(s) == body["config"]:
            obs = work({"spec": s})
            return any(o["clause"] == body["clause"] and o["status"] == "violated" and o["replay"]["reproduced"] for o in obs)
    return False


def main():
    replay_main(__name__)
    ck = Check(PID)
    specs = code_specs()
    items = [{"spec": s, "config": cfg(s), "stretch": bool(s.get("stretch"))} for s in specs]
    from ..catalog import spec
    items.append({"spec": spec("HammingCodeEncoder", mu=3), "config": "selftest", "selftest": "zeroH"})
    items.append({"spec": spec("HammingCodeEncoder", mu=3), "config": "selftest", "selftest": "nomod"})
    from kaira.models.fec.encoders import linear_block_code as L, systematic_linear_block_code as SL, cyclic_code, bch_code, ldpc_code, reed_solomon_code, reed_muller_code
    from kaira.models.fec import utils as U
    ck.encoded(L.LinearBlockCodeEncoder.forward, L.LinearBlockCodeEncoder.calculate_syndrome, SL.SystematicLinearBlockCodeEncoder.forward,
               cyclic_code.CyclicCodeEncoder.forward, reed_solomon_code.ReedSolomonCodeEncoder.calculate_syndrome,
               reed_muller_code.ReedMullerCodeEncoder.calculate_syndrome, U.apply_blockwise, L.compute_null_space_matrix, ldpc_code.LDPCCodeEncoder.get_generator_matrix)
    ck.bound("inputs", "all 2^k messages and all 2^n words of every catalogue code (one query each)")
    ck.bound("catalogue", f"{len(specs)} code objects; tier={TIER}; families: generic, systematic, Hamming(+ext), repetition, SPC, RM, cyclic, BCH, Golay(+ext), RS-style, LDPC incl. rank-deficient H")
    ck.assume("constructors run concretely; published G/H enter the formulas as constants; floats of 0/1 data are exact")
    ck.run_items(__name__, "work", items)
    ck.finish(min_obligations=50)


if __name__ == "__main__":
    main()
