"""C04 — encoding followed by the encoder's own message extraction is the identity (blockwise, any batch layout)."""
from __future__ import annotations

import torch
import z3
from torch.utils._python_dispatch import _disable_current_modes

from .. import sym as S
from ..catalog import code_specs, build_code, cfg, spec
from ..common import Check, Tally, ob, tier, replay_main, TIER
from ..engine import fresh_bits, elems, SymTensor
from ..harness import sym_paths, differs, all_zero, decide, model_bits, real_bits, concolic
from ..sym import NotEncodable

PID = "C04"


def layouts(k):
    out = [("1-D", (k,)), ("(2,k)", (2, k)), ("(2,2,k)", (2, 2, k))]
    for b in range(2, tier(3, 4) + 1):
        out.append((f"(2,{b}k)", (2, b * k)))
    out.append(("(3k,)", (3 * k,)))
    return out


def tall_layout(enc, config, rows, tl, obs):
    """a tall batch (chunked / sliced implementations): `rows` messages of which the last one is symbolic and the others a fixed
    pattern; every row must come back (the fixed rows are ground conjuncts of the same obligation)"""
    k = enc.code_dimension
    lname = f"({rows},k) tall, last row symbolic"
    for mname, meth in methods(enc)[:2]:
        def run(ctx):
            M = ((torch.arange(rows * k).reshape(rows, k) * 7) % 3 == 0).float()
            M[rows - 1] = fresh_bits("m", (k,))
            c = enc(M)
            try:
                r = meth(c)
            except (RuntimeError, ValueError, AssertionError, IndexError) as e:
                return dict(M=M, exc=f"{type(e).__name__}: {str(e)[:100]}")
            return dict(M=M, dec=r[0] if isinstance(r, tuple) else r)
        paths = sym_paths(run, (), tl, max_paths=16)
        status, viol = "holds", None
        for ctx, R in paths:
            if "exc" in R:
                status, viol = "violated", dict(what=f"{mname} raises on a batch of {rows} codewords: {R['exc']}", witness={"rows": rows, "raises": True}, replay={"reproduced": True})
                break
            if tuple(R["dec"].shape) != (rows, k):
                status, viol = "violated", dict(what=f"{mname} returns shape {tuple(R['dec'].shape)} for {rows} codewords", witness={"rows": rows}, replay={"reproduced": True})
                break
            st, model = decide(ctx, differs(elems(R["dec"]), elems(R["M"])))
            if st == "violated":
                mb = model_bits(model, "m", k)
                with _disable_current_modes():
                    M = ((torch.arange(rows * k).reshape(rows, k) * 7) % 3 == 0).float()
                    M[rows - 1] = real_bits(mb, (k,))
                    r = meth(enc(M))
                    got = r[0] if isinstance(r, tuple) else r
                    bad_rows = [i for i in range(rows) if not torch.equal(got[i].float(), M[i])]
                status, viol = "violated", dict(what=f"{mname}(enc(M)) != M on rows {bad_rows[:10]} of a batch of {rows} (last row {mb})", witness={"m": mb, "rows": rows}, replay={"reproduced": bool(bad_rows)})
                break
            if st == "inconclusive":
                status = st
        if viol:
            obs.append(ob(f"{mname}:roundtrip[{lname}]", config, "violated", **viol, **tl.take()))
        else:
            obs.append(ob(f"{mname}:roundtrip[{lname}]", config, status, sample=dict(query=f"exists last-row message: {mname}(enc(M)) != M for a batch of {rows} rows", rows=rows), **tl.take()))


def methods(enc):
    ms = [("inverse_encode", lambda c: enc.inverse_encode(c)), ("extract_message", lambda c: enc.extract_message(c))]
    if hasattr(enc, "project_word"):
        ms.append(("project_word", lambda c: enc.project_word(c)))
    return ms


def one_layout(enc, config, lname, shape, tl, obs):
    k, n = enc.code_dimension, enc.code_length
    nbits = 1
    for s in shape:
        nbits *= s
    b = shape[-1] // k

    def rec(clause, status, **kw):
        obs.append(ob(f"{clause}[{lname}]", config, status, **kw, **tl.take()))

    for mname, meth in methods(enc):
        if type(enc).__name__ == "ReedMullerCodeEncoder" and k > tier(5, 7) and mname != "project_word":
            continue  # nearest-codeword search over 2^k codewords: bounded (stated)

        def run(ctx):
            M = fresh_bits("m", shape)
            c = enc(M)
            try:
                r = meth(c)
            except (RuntimeError, ValueError, AssertionError, IndexError) as e:
                return dict(M=M, c=c, exc=f"{type(e).__name__}: {str(e)[:100]}")
            if isinstance(r, tuple):
                return dict(M=M, c=c, dec=r[0], syn=r[1])
            return dict(M=M, c=c, dec=r, syn=None)
        try:
            paths = sym_paths(run, (), tl, max_paths=64)
        except (RuntimeError, ValueError, AssertionError, IndexError) as e:
            # the encoder itself refused a documented layout
            with _disable_current_modes():
                try:
                    enc(torch.zeros(shape))
                    rep = False
                except Exception:
                    rep = True
            rec(f"{mname}:roundtrip", "violated", what=f"encoder raises on layout {shape}: {type(e).__name__}: {str(e)[:80]}",
                witness={"layout": list(shape)}, replay={"reproduced": rep})
            return
        for ctx, R in paths:
            if "exc" in R:
                with _disable_current_modes():
                    try:
                        meth(enc(torch.zeros(shape)))
                        rep = False
                    except Exception:
                        rep = True
                rec(f"{mname}:roundtrip", "violated", what=f"{mname} raises on the encoder's own output for layout {shape}: {R['exc']}",
                    witness={"layout": list(shape), "raises": True}, replay={"reproduced": rep})
                continue
            c, dec = R["c"], R["dec"]
            if tuple(c.shape) != tuple(shape[:-1]) + (b * n,):
                rec(f"{mname}:shape", "violated", what=f"encoder output shape {tuple(c.shape)} for input {shape} (expected last dim {b * n})",
                    witness={"layout": list(shape)}, replay={"reproduced": True})
                continue
            if tuple(dec.shape) != tuple(shape):
                with _disable_current_modes():
                    r = meth(enc(torch.zeros(shape)))
                    r = r[0] if isinstance(r, tuple) else r
                    rep = tuple(r.shape) != tuple(shape)
                rec(f"{mname}:shape", "violated", what=f"{mname}(enc(M)) has shape {tuple(dec.shape)} for message layout {shape}",
                    witness={"layout": list(shape), "out_shape": list(dec.shape)}, replay={"reproduced": rep})
                continue

            def realfn(m):
                r = meth(enc(m))
                return r[0] if isinstance(r, tuple) else r
            okc, detail = concolic(ctx, {"m": R["M"]}, realfn, [dec], tl)
            if not okc:
                rec("harness", "error", what=f"concolic disagreement ({mname}, {lname}): {detail}")
                continue
            st, model = decide(ctx, differs(elems(dec), elems(R["M"])))
            if st == "violated":
                mb = model_bits(model, "m", nbits)
                with _disable_current_modes():
                    mt = real_bits(mb, shape)
                    rep = not torch.equal(realfn(mt).to(mt.dtype), mt)
                rec(f"{mname}:roundtrip", st, what=f"{mname}(enc(M)) != M for M={mb} layout {shape}", witness={"m": mb, "layout": list(shape)}, replay={"reproduced": rep})
            else:
                rec(f"{mname}:roundtrip", st, sample=dict(query=f"exists M in {{0,1}}^{list(shape)}: {mname}(enc(M)) != M", result=st))
            if R["syn"] is not None:
                st, model = decide(ctx, z3.Not(all_zero(elems(R["syn"]))))
                if st == "violated":
                    mb = model_bits(model, "m", nbits)
                    with _disable_current_modes():
                        mt = real_bits(mb, shape)
                        rep = bool(meth(enc(mt))[1].any())
                    rec(f"{mname}:zero-syndrome", st, what=f"{mname}(enc(M)) reports a non-zero syndrome for M={mb} layout {shape}", witness={"m": mb, "layout": list(shape)}, replay={"reproduced": rep})
                else:
                    rec(f"{mname}:zero-syndrome", st)


def rejection(enc, config, tl, obs):
    """ground clause (shapes are concrete): a last dimension that is not a multiple of the block size is refused"""
    k, n = enc.code_dimension, enc.code_length
    bad = []
    with _disable_current_modes():
        if k > 1:
            for L in (k + 1, 2 * k - 1):
                if L % k:
                    try:
                        r = enc(torch.zeros(2, L))
                        bad.append(("forward", L, tuple(r.shape)))
                    except Exception:
                        pass
        if n > 1:
            for L in (n + 1, 2 * n - 1):
                if L % n:
                    for mname, meth in methods(enc):
                        if type(enc).__name__ == "ReedMullerCodeEncoder" and k > 10:
                            continue
                        try:
                            r = meth(torch.zeros(2, L))
                            r = r[0] if isinstance(r, tuple) else r
                            bad.append((mname, L, tuple(r.shape)))
                        except Exception:
                            pass
    if bad:
        obs.append(ob("rejection", config, "violated", what=f"input whose last dimension is not a multiple of the block size is answered instead of rejected: {bad[:3]}",
                      witness={"accepted": [list(map(str, b)) for b in bad[:4]]}, replay={"reproduced": True}, **tl.take()))
    else:
        obs.append(ob("rejection", config, "holds", **tl.take()))


def work(item):
    from .. import ops as O
    O.AUTO_TABLE = True   # the Reed-Muller nearest-codeword inverse (argmin over a codebook) is far cheaper on finite tables
    tl = Tally()
    s = item["spec"]
    config = cfg(s)
    try:
        enc = build_code(s)
    except (ValueError, AssertionError, RuntimeError, IndexError):
        return []
    obs = []
    if item.get("selftest") == "inv-identity":
        # mutant: right inverse that assumes the information bits sit in the first k columns
        k, n = enc.code_dimension, enc.code_length
        R = torch.zeros(n, k)
        R[:k, :] = torch.eye(k)
        enc.generator_right_inverse = R
        one_layout(enc, config, "(2,k)", (2, k), tl, obs)
        hit = any(o["status"] == "violated" and o["replay"]["reproduced"] and "roundtrip" in o["clause"] for o in obs)
        return [ob("selftest:right-inverse=[I;0]", config, "holds" if hit else "error", what="" if hit else "mutant not flagged")]
    try:
        for lname, shape in layouts(enc.code_dimension):
            if enc.code_length * shape[-1] // enc.code_dimension * (1 if len(shape) == 1 else 2 * (2 if len(shape) == 3 else 1)) > 400:
                continue  # keep term sizes bounded for the largest codes (stated bound: <= 400 coded bits per run)
            one_layout(enc, config, lname, shape, tl, obs)
        rejection(enc, config, tl, obs)
        if type(enc).__name__ == "ReedMullerCodeEncoder" and enc.code_dimension <= 11:
            tall_layout(enc, config, 10, tl, obs)
            if TIER == "thorough" and enc.code_dimension <= 7:
                tall_layout(enc, config, 300, tl, obs)
        elif TIER == "thorough" and enc.code_length <= 8 and enc.code_dimension <= 4:
            tall_layout(enc, config, 300, tl, obs)
    except NotEncodable as e:
        obs.append(ob("harness", config, "error", what=f"NotEncodable: {e}"))
    return obs


def replay(body):
    for s in code_specs():
        if cfg(s) == body["config"]:
            obs = work({"spec": s})
            return any(o["clause"] == body["clause"] and o["status"] == "violated" and o["replay"]["reproduced"] for o in obs)
    return False


def main():
    replay_main(__name__)
    ck = Check(PID)
    specs = code_specs()
    items = [{"spec": s, "config": cfg(s), "stretch": bool(s.get("stretch"))} for s in specs]
    items.append({"spec": spec("LinearBlockCodeEncoder", generator_matrix={"__tensor__": [[1, 1, 0, 1, 0], [1, 0, 1, 0, 0], [0, 1, 0, 0, 1]], "dtype": "float32"}),
                  "config": "selftest", "selftest": "inv-identity"})
    from kaira.models.fec.encoders import linear_block_code as L, systematic_linear_block_code as SL, hamming_code, reed_muller_code, base
    from kaira.models.fec import utils as U
    ck.encoded(L.LinearBlockCodeEncoder.forward, L.LinearBlockCodeEncoder.inverse_encode, L.compute_right_pseudo_inverse, SL.SystematicLinearBlockCodeEncoder.project_word,
               SL.SystematicLinearBlockCodeEncoder.forward, base.BaseBlockCodeEncoder.extract_message, hamming_code.HammingCodeEncoder.inverse_encode,
               reed_muller_code.ReedMullerCodeEncoder.inverse_encode, U.apply_blockwise)
    ck.bound("layouts", "1-D (k,), (2,k), (2,2,k), (2,b*k) for b=2..3 (quick) / 2..4 (thorough), (3k,); all messages of each layout in one query; Reed-Muller codes also on a tall batch of 10 (thorough: 300) rows whose last row is symbolic")
    ck.bound("sizes", "<= 400 coded bits per symbolic run; Reed-Muller nearest-codeword inverse bounded to k <= 5 (quick) / 7 (thorough)")
    ck.assume("rejection of non-multiple lengths is a ground check per shape (shapes are concrete in this technique)")
    ck.run_items(__name__, "work", items)
    ck.finish(min_obligations=50)


if __name__ == "__main__":
    main()
