"""C06 — demodulators decide for the nearest point and emit correctly signed, scaled max-log LLRs."""
from __future__ import annotations

import torch
import z3
from torch.utils._python_dispatch import _disable_current_modes

from .. import sym as S
from ..catalog import modem_specs, build_modem
from ..common import Check, Tally, ob, tier, replay_main, TIER
from ..engine import fresh_reals, elems, from_arr
from ..harness import decide_any, sym_paths, decide_nra, decide, zor, zand
from ..sym import NotEncodable

PID = "C06"
YMAX = 4.0


def table(mod):
    with _disable_current_modes():
        c = mod.constellation.detach()
        pts = [complex(v) for v in c.tolist()] if c.is_complex() else [complex(float(v), 0.0) for v in c.tolist()]
        if hasattr(mod, "bit_patterns"):
            labels = [[int(round(float(b))) for b in row] for row in mod.bit_patterns.tolist()]
        else:
            labels = [[i] for i in range(len(pts))]      # BPSK publishes its two points in label order 0, 1
    return pts, labels


def d2(y, c):
    """|y - c|^2 as a polynomial in (a, b)"""
    dr, di = S.sub(y.re, c.real), S.sub(y.im, c.imag)
    return S.add(S.mul(dr, dr), S.mul(di, di))


def hard_item(m, tl, mutate=None):
    config = m["name"]
    mod, demod = build_modem(m)
    if mutate:
        mutate(mod, demod)
    pts, labels = table(demod.modulator if hasattr(demod, "modulator") and hasattr(demod.modulator, "constellation") else mod)
    bps = m["bps"]
    dmin2 = min(abs(p - q) ** 2 for i, p in enumerate(pts) for q in pts[i + 1:])
    margin = 1e-4 * dmin2

    def run(ctx):
        demod.eval()
        if hasattr(demod, "reset_state"):
            demod.reset_state()
        y = fresh_reals("y", (2, 1), torch.complex64)      # two independent received points (exercises broadcasting)
        return dict(y=y, bits=demod(y))
    names = ["y0r", "y0i", "y1r", "y1i"]
    assume = [z3.And(z3.Real(nm) >= -YMAX, z3.Real(nm) <= YMAX) for nm in names]
    paths = sym_paths(run, assume, tl, max_paths=400, state=(demod,))
    status, viol = "holds", None
    for ctx, R in paths:
        ys = [S.tocx(v) for v in elems(R["y"])]
        bits = elems(R["bits"])
        if len(bits) != 2 * bps:
            viol = dict(what=f"{len(bits)} bits for 2 received symbols of {bps} bits", witness={"len": len(bits)}, replay={"reproduced": True})
            status = "violated"
            break
        for r in range(2):
            beta = bits[r * bps:(r + 1) * bps]
            y = ys[r]
            dist = [d2(y, c) for c in pts]
            terms = []
            any_label = []
            for i, lab in enumerate(labels):
                is_i = zand([S.zbool(S.eq(bv, bool(lb))) for bv, lb in zip(beta, lab)])
                any_label.append(is_i)
                farther = zor([S.zbool(S.gt(S.sub(dist[i], dist[j]), margin)) for j in range(len(pts)) if j != i])
                terms.append(z3.And(is_i, farther))
            st, model = decide(ctx, z3.Or(zor(terms), z3.Not(zor(any_label))))
            if st == "violated" and viol is None:
                yv = [float(S.zval(model, z3.Real(nm))) for nm in names]
                rep, detail = replay_hard(m, yv, pts, labels, margin)
                viol = dict(what=f"received point {complex(yv[2 * r], yv[2 * r + 1]):.4f}: {detail}", witness={"y": yv}, replay={"reproduced": rep})
                status = "violated"
            elif st == "inconclusive" and status == "holds":
                status = st
    if viol:
        return [ob("hard decision = label of a nearest point", config, "violated", **viol, **tl.take())]
    return [ob("hard decision = label of a nearest point", config, status, sample=dict(query="exists y in C: label(demod(y)) is not the label of a point within margin of the minimum distance", points=len(pts), paths=len(paths), margin=margin), **tl.take())]


def replay_hard(m, yv, pts, labels, margin):
    with _disable_current_modes():
        mod, demod = build_modem(m)
        demod.eval()
        y = torch.tensor([[complex(yv[0], yv[1])], [complex(yv[2], yv[3])]], dtype=torch.complex64)
        out = demod(y).reshape(2, -1)
        bad = False
        detail = ""
        for r in range(2):
            beta = [int(round(float(v))) for v in out[r].tolist()]
            yy = complex(yv[2 * r], yv[2 * r + 1])
            ds = [abs(yy - c) ** 2 for c in pts]
            if beta not in labels:
                bad, detail = True, f"decided bits {beta} are not a label"
                continue
            i = labels.index(beta)
            if ds[i] > min(ds) + margin:
                j = ds.index(min(ds))
                bad, detail = True, f"decided {beta} (distance^2 {ds[i]:.5f}) although the point labelled {labels[j]} is nearer (distance^2 {ds[j]:.5f})"
        return bad, detail


def soft_item(m, tl, mutate=None):
    config = m["name"]
    mod, demod = build_modem(m)
    if mutate:
        mutate(mod, demod)
    pts, labels = table(demod.modulator if hasattr(demod, "modulator") and hasattr(demod.modulator, "constellation") else mod)
    bps = m["bps"]
    V = z3.Real("V")
    # kappa from one concrete evaluation of the real code
    with _disable_current_modes():
        demod.eval()
        y0 = torch.tensor([[0.3 + 0.2j]], dtype=torch.complex64)
        l0 = demod(y0, 0.7).flatten().tolist()
    yy = complex(0.3, 0.2)
    kappas = []
    for p in range(bps):
        m1 = min(abs(yy - c) ** 2 for c, lab in zip(pts, labels) if lab[p] == 1)
        m0 = min(abs(yy - c) ** 2 for c, lab in zip(pts, labels) if lab[p] == 0)
        if abs(m1 - m0) > 1e-6:
            kappas.append(l0[p] * 0.7 / (m1 - m0))
    kappa = round(sum(kappas) / len(kappas), 3) if kappas else 1.0
    if kappa <= 0:
        return [ob("soft output = kappa (min d1^2 - min d0^2) / noise_var", config, "violated", what=f"LLR scale factor is not positive (kappa = {kappa:.4f} at y = 0.3+0.2j, noise_var 0.7): sign convention inverted",
                   witness={"kappa": kappa, "llr": l0}, replay={"reproduced": True}, **tl.take())]

    def run(ctx):
        demod.eval()
        if hasattr(demod, "reset_state"):
            demod.reset_state()
        y = fresh_reals("y", (1, 1), torch.complex64)
        nv = from_arr([S.topoly(V)], torch.float32, ())
        return dict(y=y, llr=demod(y, nv))
    names = ["y0r", "y0i"]
    assume = [z3.And(z3.Real(nm) >= -YMAX, z3.Real(nm) <= YMAX) for nm in names] + [V >= z3.RealVal("1/1000"), V <= 1000]
    paths = sym_paths(run, assume, tl, max_paths=64, state=(demod,))
    status, viol = "holds", None
    for ctx, R in paths:
        y = S.tocx(elems(R["y"])[0])
        llr = elems(R["llr"])
        if len(llr) != bps:
            viol = dict(what=f"{len(llr)} LLRs for one symbol of {bps} bits", witness={"len": len(llr)}, replay={"reproduced": True})
            status = "violated"
            break
        S.ENV.side, S.ENV.defined = ctx.side, ctx.defined
        try:
            bad = []
            for p in range(bps):
                m1 = None
                m0 = None
                for c, lab in zip(pts, labels):
                    d = d2(y, c)
                    if lab[p] == 1:
                        m1 = d if m1 is None else S.minimum(m1, d)
                    else:
                        m0 = d if m0 is None else S.minimum(m0, d)
                lhs = S.mul(llr[p], S.topoly(V))
                rhs = S.mul(S.sub(m1, m0), kappa)
                diff = S.sub(lhs, rhs)
                tol = 1e-3 * kappa
                bad += [S.zbool(S.gt(diff, tol)), S.zbool(S.lt(diff, -tol))]
        finally:
            S.ENV.side = S.ENV.defined = None
        st, model = decide_nra(ctx, zor(bad), budget_s=60)
        if st == "violated" and viol is None:
            yv = [float(S.zval(model, z3.Real(nm))) for nm in names]
            vv = float(S.zval(model, V))
            rep, detail = replay_soft(m, yv, vv, pts, labels, kappa)
            viol = dict(what=f"y = {complex(yv[0], yv[1]):.4f}, noise_var = {vv:.4g}: {detail}", witness={"y": yv, "noise_var": vv}, replay={"reproduced": rep})
            status = "violated"
        elif st == "inconclusive" and status == "holds":
            status = st
    if viol:
        return [ob("soft output = kappa (min d1^2 - min d0^2) / noise_var", config, "violated", **viol, **tl.take())]
    return [ob("soft output = kappa (min d1^2 - min d0^2) / noise_var", config, status,
               sample=dict(query="exists y, noise_var: LLR_p * noise_var != kappa (min_{label_p=1}|y-c|^2 - min_{label_p=0}|y-c|^2)", kappa=kappa, points=len(pts), paths=len(paths)), **tl.take())]


def frame_inputs(Lf, window):
    """fixed pseudo-random received points and per-symbol noise variances for a frame (LCG, independent of torch's RNG)"""
    ys, nvs, x = [], [], 4711
    for i in range(Lf):
        x = (1103515245 * x + 12345) % (1 << 31)
        a = ((x >> 8) % 2001 - 1000) / 700.0
        x = (1103515245 * x + 12345) % (1 << 31)
        b = ((x >> 8) % 2001 - 1000) / 700.0
        ys.append(complex(a, b))
        nvs.append(0.25 + 0.001 * ((i * 37) % 997))       # all different within any 997 consecutive symbols
    return ys, nvs


def soft_frame_item(m, tl, Lf, window, mutate=None):
    """soft output on a FRAME with a per-symbol noise_var tensor: the symbols at `window` are symbolic (y and noise_var),
    the others are fixed; every symbol's LLRs must be the max-log value for ITS OWN y and ITS OWN noise_var"""
    config = f"{m['name']} frame of {Lf} symbols, per-symbol noise_var, symbolic symbols {tuple(window)}"
    clause = "soft output per symbol = kappa (min d1^2 - min d0^2) / noise_var[symbol]"
    mod, demod = build_modem(m)
    if mutate:
        mutate(mod, demod)
    pts, labels = table(demod.modulator if hasattr(demod, "modulator") and hasattr(demod.modulator, "constellation") else mod)
    bps = m["bps"]
    with _disable_current_modes():
        demod.eval()
        l0 = demod(torch.tensor([[0.3 + 0.2j]], dtype=torch.complex64), 0.7).flatten().tolist()
    yy = complex(0.3, 0.2)
    ks = []
    for p in range(bps):
        m1 = min(abs(yy - c) ** 2 for c, lab in zip(pts, labels) if lab[p] == 1)
        m0 = min(abs(yy - c) ** 2 for c, lab in zip(pts, labels) if lab[p] == 0)
        if abs(m1 - m0) > 1e-6:
            ks.append(l0[p] * 0.7 / (m1 - m0))
    kappa = round(sum(ks) / len(ks), 3) if ks else 1.0
    ys0, nv0 = frame_inputs(Lf, window)
    W = list(window)

    def run(ctx):
        demod.eval()
        if hasattr(demod, "reset_state"):
            demod.reset_state()
        y = torch.tensor(ys0, dtype=torch.complex64).reshape(1, Lf)
        nv = torch.tensor(nv0, dtype=torch.float32).reshape(1, Lf)
        ysym = fresh_reals("y", (len(W),), torch.complex64)
        vsym = fresh_reals("v", (len(W),), torch.float32)
        idx = torch.tensor(W)
        y[0, idx] = ysym
        nv[0, idx] = vsym
        return dict(y=y, nv=nv, llr=demod(y, nv))
    names = [f"y{i}{c}" for i in range(len(W)) for c in "ri"]
    assume = [z3.And(z3.Real(nm) >= -YMAX, z3.Real(nm) <= YMAX) for nm in names] + [z3.And(z3.Real(f"v{i}") >= z3.RealVal("1/100"), z3.Real(f"v{i}") <= 100) for i in range(len(W))]
    try:
        paths = sym_paths(run, assume, tl, max_paths=64, state=(demod,))
    except (RuntimeError, ValueError, IndexError, TypeError) as e:
        if isinstance(e, NotEncodable):
            raise
        return [ob(clause, config, "violated", what=f"raises on a per-symbol noise_var tensor: {type(e).__name__}: {str(e)[:100]}", witness={"raises": True}, replay={"reproduced": replay_soft_frame(m, Lf, W, None, pts, labels, kappa)[0]}, **tl.take())]
    status, viol = "holds", None
    for ctx, R in paths:
        yv, nvv, llr = elems(R["y"]), elems(R["nv"]), elems(R["llr"])
        if len(llr) != Lf * bps:
            return [ob(clause, config, "violated", what=f"{len(llr)} LLRs for {Lf} symbols of {bps} bits", witness={"len": len(llr)}, replay={"reproduced": True}, **tl.take())]
        S.ENV.side, S.ENV.defined = ctx.side, ctx.defined
        try:
            bad = []
            # every symbolic symbol, and a spread of fixed ones (their obligations are ground: decided by evaluation inside the solver query)
            for k in sorted(set(W) | set(range(0, Lf, max(1, Lf // 24))) | {Lf - 1}):
                y = S.tocx(yv[k])
                for p in range(bps):
                    m1 = m0 = None
                    for c, lab in zip(pts, labels):
                        d = d2(y, c)
                        if lab[p] == 1:
                            m1 = d if m1 is None else S.minimum(m1, d)
                        else:
                            m0 = d if m0 is None else S.minimum(m0, d)
                    diff = S.sub(S.mul(llr[k * bps + p], nvv[k]), S.mul(S.sub(m1, m0), kappa))
                    tol = 2e-3 * kappa
                    bad += [S.zbool(S.gt(diff, tol)), S.zbool(S.lt(diff, -tol))]
        finally:
            S.ENV.side = S.ENV.defined = None
        st, model = decide_any(ctx, bad, budget_s=30)
        if st == "violated" and viol is None:
            w = dict(y=[float(S.zval(model, z3.Real(nm))) for nm in names], v=[float(S.zval(model, z3.Real(f"v{i}"))) for i in range(len(W))])
            rep, detail = replay_soft_frame(m, Lf, W, w, pts, labels, kappa)
            viol = dict(what=detail, witness=w, replay={"reproduced": rep})
            status = "violated"
        elif st == "inconclusive" and status == "holds":
            status = st
    if viol:
        return [ob(clause, config, "violated", **viol, **tl.take())]
    return [ob(clause, config, status, sample=dict(query="exists y_w, v_w (window symbols): LLR[k,p] * noise_var[k] != kappa (min d1^2 - min d0^2) for some symbol k", frame=Lf, window=W, kappa=kappa), **tl.take())]


def replay_soft_frame(m, Lf, W, w, pts, labels, kappa):
    with _disable_current_modes():
        mod, demod = build_modem(m)
        demod.eval()
        ys0, nv0 = frame_inputs(Lf, W)
        if w is not None:
            for i, k in enumerate(W):
                ys0[k] = complex(w["y"][2 * i], w["y"][2 * i + 1])
                nv0[k] = w["v"][i]
        y = torch.tensor(ys0, dtype=torch.complex64).reshape(1, Lf)
        nv = torch.tensor(nv0, dtype=torch.float32).reshape(1, Lf)
        try:
            llr = demod(y, nv).flatten().tolist()
        except Exception as e:  # noqa: BLE001
            return True, f"raises {type(e).__name__}: {str(e)[:80]}"
        bps = m["bps"]
        for k in range(Lf):
            yy = complex(y[0, k])
            for p in range(bps):
                m1 = min(abs(yy - c) ** 2 for c, lab in zip(pts, labels) if lab[p] == 1)
                m0 = min(abs(yy - c) ** 2 for c, lab in zip(pts, labels) if lab[p] == 0)
                if abs(llr[k * bps + p] * nv0[k] - kappa * (m1 - m0)) > 1e-3 * kappa:
                    return True, f"symbol {k} (y = {yy:.4f}, its noise_var = {nv0[k]:.4g}): LLR[{p}] = {llr[k * bps + p]:.5g}, max-log value {kappa * (m1 - m0) / nv0[k]:.5g}"
        return False, ""


def replay_soft(m, yv, vv, pts, labels, kappa):
    with _disable_current_modes():
        mod, demod = build_modem(m)
        demod.eval()
        y = torch.tensor([[complex(yv[0], yv[1])]], dtype=torch.complex64)
        llr = demod(y, float(vv)).flatten().tolist()
        yy = complex(yv[0], yv[1])
        bad, detail = False, ""
        for p in range(len(llr)):
            m1 = min(abs(yy - c) ** 2 for c, lab in zip(pts, labels) if lab[p] == 1)
            m0 = min(abs(yy - c) ** 2 for c, lab in zip(pts, labels) if lab[p] == 0)
            e = kappa * (m1 - m0) / vv
            if abs(llr[p] * vv - kappa * (m1 - m0)) > 5e-4 * kappa:
                bad, detail = True, f"LLR[{p}] = {llr[p]:.5g}, max-log value {e:.5g} (kappa = {kappa})"
        return bad, detail


def work(item):
    tl = Tally()
    try:
        if item.get("selftest"):
            def mutate(mod, demod):
                c = demod.modulator.constellation
                c[0] = c[0] * 1.6       # the demodulator's copy of one point drifts away from the modulator's table
            m = [x for x in modem_specs() if x["name"] == "PSK8(gray=True)"][0]
            mod, demod = build_modem(m)
            pts, labels = table(mod)
            obs = hard_item_with_tables(m, tl, mutate, pts, labels)
            hit = any(o["status"] == "violated" for o in obs)
            return [ob("selftest:demodulator-table-drift", "selftest", "holds" if hit else "error", what="" if hit else "mutant not flagged")]
        if item["type"] == "hard":
            return hard_item(item["modem"], tl)
        if item["type"] == "soft-frame":
            return soft_frame_item(item["modem"], tl, item["frame"], item["window"])
        return soft_item(item["modem"], tl)
    except NotEncodable as e:
        return [ob("harness", item["config"], "error", what=f"NotEncodable: {e}", stretch=bool(item.get("stretch")))]


def hard_item_with_tables(m, tl, mutate, pts, labels):
    """selftest helper: decide against the MODULATOR's published tables while the demodulator is mutated"""
    global table
    orig = table
    table = lambda mod: (pts, labels)   # noqa
    try:
        return hard_item(m, tl, mutate)
    finally:
        table = orig


def all_items():
    items = []
    maxo = 64
    for m in modem_specs(max_order=maxo):
        if TIER == "quick" and (m["order"] or 2) > 16 and not m["name"].startswith("QAM64(gray=True,normalize=True"):
            continue
        if m["memory"] in ("dpsk", "pi4") or m["name"] in ("Identity", "BPSK(real)"):
            continue   # differential / alternating schemes: decision variable needs atan2 or per-phase tables (outside, DESIGN §6)
        stretch = (m["order"] or 2) > 16
        items.append(dict(type="hard", modem=m, config=m["name"] + " hard", stretch=stretch and not m["name"].startswith("QAM64(gray=True,normalize=True")))
        items.append(dict(type="soft", modem=m, config=m["name"] + " soft", stretch=stretch))
    # frames with a per-symbol noise_var tensor: short (all symbols symbolic) and long (block boundaries of vectorised code)
    for m in modem_specs(max_order=16):
        if m["name"] in FRAME_MODEMS and (TIER == "thorough" or m["name"] in FRAME_QUICK):
            items.append(dict(type="soft-frame", modem=m, frame=3, window=[0, 1, 2], config=f"{m['name']} soft frame 3"))
            if TIER == "thorough" or m["name"] in FRAME_QUICK[:3]:
                items.append(dict(type="soft-frame", modem=m, frame=1030, window=[0, 1024, 1029], config=f"{m['name']} soft frame 1030"))
    items.append(dict(selftest=True, config="selftest"))
    return items


FRAME_QUICK = ("PSK4(gray=True)", "QAM16(gray=True,normalize=True)", "BPSK", "QPSK(normalize=True)", "PAM4(gray=True,normalize=True)")
FRAME_MODEMS = FRAME_QUICK + ("QPSK(normalize=False)", "PSK8(gray=True)", "PSK8(gray=False)", "QAM4(gray=True,normalize=True)", "PSK16(gray=True)", "QAM16(gray=False,normalize=False)", "PAM8(gray=True,normalize=True)")


def replay(body):
    if "frame of" in body["config"]:
        for it in all_items():
            if it["type"] == "soft-frame" and body["config"].startswith(it["modem"]["name"] + " frame of " + str(it["frame"]) + " "):
                mod, demod = build_modem(it["modem"])
                pts, labels = table(demod.modulator if hasattr(demod, "modulator") and hasattr(demod.modulator, "constellation") else mod)
                return replay_soft_frame(it["modem"], it["frame"], it["window"], body["witness"] if "y" in body["witness"] else None, pts, labels, 1.0)[0]
        return False
    for it in all_items():
        if it.get("config", "").startswith(body["config"] + " "):
            w = body["witness"]
            mod, demod = build_modem(it["modem"])
            pts, labels = table(demod.modulator if hasattr(demod, "modulator") and hasattr(demod.modulator, "constellation") else mod)
            if "noise_var" in w and it["type"] == "soft":
                return replay_soft(it["modem"], w["y"], w["noise_var"], pts, labels, 1.0)[0]
            if "noise_var" not in w and it["type"] == "hard":
                dmin2 = min(abs(p - q) ** 2 for i, p in enumerate(pts) for q in pts[i + 1:])
                return replay_hard(it["modem"], w["y"], pts, labels, 1e-4 * dmin2)[0]
    return False


def main():
    replay_main(__name__)
    ck = Check(PID)
    items = all_items()
    import kaira.modulations as MM
    ck.encoded(MM.BPSKDemodulator.forward, MM.QPSKDemodulator.forward, MM.QPSKDemodulator._min_distance_to_points, MM.PSKDemodulator.forward, MM.QAMDemodulator.forward,
               MM.PAMDemodulator.forward, MM.OQPSKDemodulator.forward)
    ck.bound("inputs", f"received point y = a + jb with a, b symbolic reals in [-{YMAX}, {YMAX}] (two independent points for the hard clause), noise variance symbolic in [1e-3, 1e3]; memoryless schemes of order <= {tier(16, 64)}")
    ck.assume("floats of symbolic quantities are reals: the nearest-point clause carries a margin of 1e-4 d_min^2, the LLR identity a tolerance of 1e-3 kappa; kappa (the fixed positive multiple) is read off one concrete evaluation and then proved for all y and noise variances")
    ck.assume("DPSK and pi/4-QPSK on a continuous received point are outside the claim (atan2 / alternating tables); covered for noise-free inputs by C05 and C15")
    ck.run_items(__name__, "work", items)
    ck.finish(min_obligations=15)


if __name__ == "__main__":
    main()
