"""C17 - pipeline order and thread-timing independence (DESIGN 2.4 / section 4 "C17").

The REAL kaira container classes (SequentialModel, ConfigurableModel, DeepJSCCModel, ChannelCodeModel,
ParallelModel, BranchingModel, FeedbackChannelModel, MultipleAccessChannelModel, WynerZivModel) are
executed on uninterpreted stage stubs (kverif.euf); the container's output is a term and every
obligation is the z3-decided validity of `output == specification term` (negation unsat) under the
path condition.  Thread timing is environment: `as_completed` inside kaira.models.generic.parallel is
replaced (in this process only) by a stub yielding the futures in a solver-enumerated permutation.
A `sat` answer is replayed on the real code with ordinary concrete recording stages (real threads with
a forced completion order for the parallel model) before it is reported.
"""
from __future__ import annotations

import inspect
import itertools
import json
import sys
import textwrap
import threading
import time

import z3

from kverif import euf
from kverif.common import Check, Tally, ob, replay_main, tier
from kverif.euf import Tok, TokTensor, app, show, tsum, var

MOD = "kverif.checks.c17"
_T = Tally()
_S = None


def S():
    global _S
    if _S is None:
        _S = euf.Solver(_T, timeout_ms=tier(20000, 60000))
    return _S


# ------------------------------------------------------------------------------------------------
# class lookup (mutant self-tests substitute patched copies; /repo is never edited)
# ------------------------------------------------------------------------------------------------
def real_classes():
    from kaira.models.base import ConfigurableModel
    from kaira.models.channel_code import ChannelCodeModel
    from kaira.models.deepjscc import DeepJSCCModel
    from kaira.models.feedback_channel import FeedbackChannelModel
    from kaira.models.generic.branching import BranchingModel
    from kaira.models.generic.parallel import ParallelModel
    from kaira.models.generic.sequential import SequentialModel
    from kaira.models.multiple_access_channel import MultipleAccessChannelModel
    from kaira.models.wyner_ziv import WynerZivModel
    return dict(ConfigurableModel=ConfigurableModel, SequentialModel=SequentialModel, DeepJSCCModel=DeepJSCCModel,
                ChannelCodeModel=ChannelCodeModel, ParallelModel=ParallelModel, BranchingModel=BranchingModel,
                FeedbackChannelModel=FeedbackChannelModel, MultipleAccessChannelModel=MultipleAccessChannelModel,
                WynerZivModel=WynerZivModel)


def C(name, classes):
    if classes and name in classes:
        return classes[name]
    return real_classes()[name]


def R(clause, config, verdict, witness=None, what="", sample=None, paths=1, validated=0):
    return dict(clause=clause, config=config, verdict=verdict, witness=witness, what=what, sample=sample, paths=paths, validated=validated)


def twisted(p, prop, wrong=None):
    """must-fail twins: the property is replaced by False, or by a deliberately wrong specification"""
    tw = p.get("twist")
    if tw == "false":
        return z3.BoolVal(False)
    if tw == "wrong":
        if wrong is None:
            return z3.BoolVal(False)
        return wrong
    return prop


def sexpr(e, limit=900):
    s = e.sexpr() if hasattr(e, "sexpr") else str(e)
    s = " ".join(s.split())
    return s if len(s) <= limit else s[:limit] + " ..."


def model_excerpt(m, limit=400):
    if m is None:
        return None
    s = " ".join(str(m).split())
    return s[:limit]


def sym_extras(ashape, tensor=False):
    """forwarded extra arguments: 0 none | 1 one positional | 2 two positional + two keywords | 3 one keyword"""
    mk = (lambda n: TokTensor(var(n))) if tensor else (lambda n: Tok(var(n)))
    args = [mk(f"a{i}") for i in range({0: 0, 1: 1, 2: 2, 3: 0}[ashape])]
    kwargs = {k: mk("v_" + k) for k in {0: [], 1: [], 2: ["snr", "csi"], 3: ["snr"]}[ashape]}
    return args, kwargs


def conc_extras(ashape):
    args = [f"a{i}" for i in range({0: 0, 1: 1, 2: 2, 3: 0}[ashape])]
    kwargs = {k: "v_" + k for k in {0: [], 1: [], 2: ["snr", "csi"], 3: ["snr"]}[ashape]}
    return args, kwargs


# concrete recording stages for replays (Herbrand interpretation: a stage returns the tuple naming its call)
class RecLog:
    def __init__(self):
        self.lock = threading.Lock()
        self.calls = []

    def note(self, name):
        with self.lock:
            self.calls.append(name)

    def count(self, name):
        return self.calls.count(name)


def herbrand(name, v, a, k):
    return (name, v, tuple(a), tuple(sorted(k.items())))


class RecStage:
    def __init__(self, name, log):
        self.name = name
        self.log = log

    def __call__(self, v, *a, **k):
        self.log.note(self.name)
        return herbrand(self.name, v, a, k)


def rec_module_class(kind):
    from torch import nn
    if kind == "module":
        base = nn.Module
    else:
        from kaira.channels import BaseChannel
        from kaira.constraints import BaseConstraint
        from kaira.models.base import BaseModel
        base = {"model": BaseModel, "channel": BaseChannel, "constraint": BaseConstraint}[kind]

    class RecModule(base):
        def __init__(self, name, log):
            super().__init__()
            self.rname = name
            self.log = log

        def forward(self, v, *a, **k):
            self.log.note(self.rname)
            return herbrand(self.rname, v, a, k)

    return RecModule


def rec_stage(name, log, kind):
    if kind == "plain":
        return RecStage(name, log)
    return rec_module_class(kind)(name, log)


# ================================================================================================
# family: sequential pipelines (Sequential / Configurable / DeepJSCC / ChannelCode / WynerZiv)
# ================================================================================================
SEQ_ROLES = {
    # declared order = the order of the public `steps` list the class builds (see report: the class
    # docstring of ChannelCodeModel words the workflow as constraint-before-modulator)
    "DeepJSCC": ["encoder", "constraint", "channel", "decoder"],
    "ChannelCode": ["encoder", "modulator", "constraint", "channel", "demodulator", "decoder"],
}
ROLE_KIND = {"encoder": "model", "decoder": "model", "constraint": "constraint", "channel": "channel",
             "modulator": "module", "demodulator": "module"}


def seq_names(p):
    kind = p["kind"]
    if kind in SEQ_ROLES:
        return list(SEQ_ROLES[kind])
    names = [f"f{i+1}" for i in range(p["n"])]
    if p.get("repeat") and p["n"] >= 3:
        names[2] = names[0]  # the same stage object twice in the pipeline
    return names


def build_seq(p, mk, classes):
    """mk(name, kind) -> stage. returns (declared stage names, model)"""
    kind = p["kind"]
    names = seq_names(p)
    if kind in SEQ_ROLES:
        st = {r: mk(r, ROLE_KIND[r]) for r in names}
        cls = C(kind + "Model", classes)
        return names, cls(**st)
    cache = {}
    stages = []
    for nm in names:
        if nm not in cache:
            cache[nm] = mk(nm, p["stage"])
        stages.append(cache[nm])
    if kind == "Sequential":
        return names, C("SequentialModel", classes)(stages)
    if kind == "Sequential.steps_kw":
        return names, C("SequentialModel", classes)(steps=tuple(stages))
    if kind == "Sequential.add_step":
        m = C("SequentialModel", classes)()
        for s in stages:
            r = m.add_step(s)
            assert r is m
        return names, m
    if kind == "Configurable.add_step":
        m = C("ConfigurableModel", classes)()
        for s in stages:
            m.add_step(s)
        return names, m
    raise ValueError(kind)


def seq_config(p):
    return f"{p['kind']} n={len(seq_names(p))} stages={p.get('stage', 'module')} extras={p['ashape']}" + (" repeated-stage" if p.get("repeat") else "")


def fam_seq(p, classes=None):
    rec = euf.Recorder()
    env = euf.Z3Env()
    names, model = build_seq(p, lambda nm, kind: euf.make_stage(nm, rec, kind), classes)
    x = Tok(var("x"))
    args, kwargs = sym_extras(p["ashape"])
    out = model(x, *args, **kwargs)
    spec = x.term
    for nm in names:
        spec = app(nm, spec, args, kwargs)
    zo = env.z(euf.term_of(out))
    cnt = [z3.IntVal(rec.count(nm)) == names.count(nm) for nm in sorted(set(names))]
    prop = z3.And(zo == env.z(spec), *cnt)
    wrong = None
    if len(names) >= 2:
        w = x.term
        for nm in names[:-2] + [names[-1], names[-2]]:
            w = app(nm, w, args, kwargs)
        wrong = zo == env.z(w)
        if names[-1] == names[-2]:
            wrong = None
    prop = twisted(p, prop, wrong)
    verdict, m = S().decide([], prop)
    wit = dict(family="seq", p={k: v for k, v in p.items() if k != "twist"}, observed=show(euf.term_of(out)), expected=show(spec),
               calls=rec.counts(), model=model_excerpt(m))
    return [R("sequential.order-once-forwarding", seq_config(p), verdict, wit,
              what=f"output term {show(euf.term_of(out))} differs from declared-order term {show(spec)} or a stage count is not 1 ({rec.counts()})",
              sample=sexpr(z3.Not(prop)))]


def replay_seq(w, classes=None):
    p = w["p"]
    log = RecLog()
    names, model = build_seq(p, lambda nm, kind: rec_stage(nm, log, kind), classes)
    args, kwargs = conc_extras(p["ashape"])
    out = model("x", *args, **kwargs)
    exp = "x"
    for nm in names:
        exp = herbrand(nm, exp, args, kwargs)
    counts = {nm: log.count(nm) for nm in set(names)}
    bad = out != exp or any(counts[nm] != names.count(nm) for nm in counts)
    return dict(reproduced=bool(bad), mode="real class, concrete recording stages", observed=repr(out)[:600], expected=repr(exp)[:600], calls=counts)


# --- Wyner-Ziv (optional stages present/absent; side information given or from the correlation model)
def wz_config(p):
    return f"WynerZiv quantizer={p['q']} syndrome={p['s']} constraint={p['c']} side={p['side']} extras={p['ashape']}"


def build_wz(p, mk, classes):
    st = dict(encoder=mk("encoder", "model"), channel=mk("channel", "channel"), decoder=mk("decoder", "model"))
    if p["q"]:
        st["quantizer"] = mk("quantizer", "model")
    if p["s"]:
        st["syndrome_generator"] = mk("syndrome", "model")
    if p["c"]:
        st["constraint"] = mk("constraint", "constraint")
    if p["side"] == "correlation":
        st["correlation_model"] = mk("correlation", "model")
    return C("WynerZivModel", classes)(**st)


def wz_order(p):
    return ["encoder"] + (["quantizer"] if p["q"] else []) + (["syndrome"] if p["s"] else []) + (["constraint"] if p["c"] else []) + ["channel"]


def fam_wz(p, classes=None):
    rec = euf.Recorder()
    env = euf.Z3Env()
    model = build_wz(p, lambda nm, kind: euf.make_stage(nm, rec, kind), classes)
    x = Tok(var("x"))
    side = Tok(var("side"))
    args, kwargs = sym_extras(p["ashape"])
    if p["side"] == "given":
        out = model(x, side, *args, **kwargs)
        sd = side.term
    else:
        assert not args
        out = model(x, **kwargs)
        sd = app("correlation", x)
    spec = x.term
    for nm in wz_order(p):
        spec = app(nm, spec) if nm == "constraint" else app(nm, spec, args, kwargs)
    spec = app("decoder", spec, [sd] + list(args), kwargs)
    names = wz_order(p) + ["decoder"] + (["correlation"] if p["side"] == "correlation" else [])
    zo = env.z(euf.term_of(out))
    prop = z3.And(zo == env.z(spec), *[z3.IntVal(rec.count(nm)) == 1 for nm in names])
    prop = twisted(p, prop)
    verdict, m = S().decide([], prop)
    wit = dict(family="wz", p={k: v for k, v in p.items() if k != "twist"}, observed=show(euf.term_of(out)), expected=show(spec), calls=rec.counts())
    return [R("wyner-ziv.order-once-forwarding", wz_config(p), verdict, wit,
              what=f"output term {show(euf.term_of(out))} differs from {show(spec)} or a stage count is not 1 ({rec.counts()})",
              sample=sexpr(z3.Not(prop)))]


def replay_wz(w, classes=None):
    p = w["p"]
    log = RecLog()
    model = build_wz(p, lambda nm, kind: rec_stage(nm, log, kind), classes)
    args, kwargs = conc_extras(p["ashape"])
    if p["side"] == "given":
        out = model("x", "side", *args, **kwargs)
        sd = "side"
    else:
        out = model("x", **kwargs)
        sd = herbrand("correlation", "x", (), {})
    exp = "x"
    for nm in wz_order(p):
        exp = herbrand(nm, exp, (), {}) if nm == "constraint" else herbrand(nm, exp, args, kwargs)
    exp = herbrand("decoder", exp, [sd] + list(args), kwargs)
    names = wz_order(p) + ["decoder"]
    bad = out != exp or any(log.count(nm) != 1 for nm in names)
    return dict(reproduced=bool(bad), mode="real class, concrete recording stages", observed=repr(out)[:600], expected=repr(exp)[:600])


# ================================================================================================
# family: ParallelModel - completion order is environment (symbolic permutation, solver-enumerated)
# ================================================================================================
_PI = {"order": None}
_REAL_AC = {}


def as_completed_stub(fs, timeout=None):
    """stand-in for concurrent.futures.as_completed inside kaira.models.generic.parallel: waits for all
    futures, then yields them in the order chosen by the permutation pi (pi[k] = declared index of the
    k-th future to be reported). `fs` is the dict future->name built in submission = declared order."""
    import concurrent.futures as cf
    lst = list(fs)
    cf.wait(lst)
    order = _PI["order"]
    assert sorted(order) == list(range(len(lst))), (order, len(lst))
    for k in order:
        yield lst[k]


def patch_as_completed(on=True):
    import kaira.models.generic.parallel as pm
    if "f" not in _REAL_AC:
        _REAL_AC["f"] = pm.as_completed
    pm.as_completed = as_completed_stub if on else _REAL_AC["f"]


def par_names(p):
    n = p["n"]
    return {"steps": [f"name{i}" for i in range(n)], "branches": [f"branch_{i}" for i in range(n)],
            "add_step": [f"step_{i}" for i in range(n)], "add_step_named": [f"nm{i}" for i in range(n)]}[p["construct"]]


def build_par(p, stages, aggregator, classes):
    cls = C("ParallelModel", classes)
    names = par_names(p)
    kw = {} if p["workers"] is None else {"max_workers": p["workers"]}
    c = p["construct"]
    if c == "steps":
        return cls(steps=list(zip(names, stages)), aggregator=aggregator, **kw)
    if c == "branches":
        return cls(branches=list(stages), aggregator=aggregator, **kw)
    m = cls(aggregator=aggregator, **kw)
    for nm, s in zip(names, stages):
        r = m.add_step(s) if c == "add_step" else m.add_step(s, nm)
        assert r is m
    return m


def par_cfg_names(p):
    return f"ParallelModel n={p['n']} max_workers={p['workers']} construct={p['construct']} extras={p['ashape']}"


def par_cfg_agg(p):
    return f"ParallelModel n={p['n']} order-sensitive aggregator"


class SymAggregator:
    """order-sensitive aggregator: an uninterpreted n-ary function of the list it is handed"""

    def __init__(self, rec):
        self.rec = rec
        self.received = []

    def __call__(self, results):
        self.rec.note("AGG")
        self.received.append(list(results))
        return Tok(euf.Term("app", "AGG", tuple(euf.term_of(r) for r in results), "T"))


def fam_par(p, classes=None):
    """one work item = (n, max_workers, construction, extras, first finisher q0): enumerates with the
    solver every completion permutation with pi[0] == q0, runs the real forward for each and decides both clauses"""
    patch_as_completed(True)
    n = p["n"]
    env = euf.Z3Env()
    q = [z3.Int(f"pi{k}") for k in range(n)]
    base = [z3.And(0 <= v, v < n) for v in q] + ([z3.Distinct(*q)] if n > 1 else [])
    if p.get("first") is not None:
        base.append(q[0] == p["first"])
    names = par_names(p)
    x = Tok(var("x"))
    args, kwargs = sym_extras(p["ashape"])
    spec = [app(f"g{i}", x, args, kwargs) for i in range(n)]
    zspec = [env.z(t) for t in spec]
    out_res = []
    holds = {"names": 0, "agg": 0}
    samples = {}
    blocked = []
    perms = []
    held_names = []
    while True:
        r, m = S().check(*base, *blocked)
        if r == "unknown":
            return [R("parallel.permutation-enumeration", par_cfg_names(p), "inconclusive", what="permutation enumeration undecided")]
        if r == "unsat":
            break  # final query: no other permutation exists
        pi = [m.eval(v, model_completion=True).as_long() for v in q]
        perms.append(pi)
        blocked.append(z3.Or(*[v != c for v, c in zip(q, pi)]))
        assume = [v == c for v, c in zip(q, pi)] + base
        ident = pi == list(range(n))
        # ---- clause 1: dict result, each branch's value under its own name -------------------------
        rec = euf.Recorder()
        stages = [euf.make_stage(f"g{i}", rec, "plain") for i in range(n)]
        model = build_par(p, stages, None, classes)
        _PI["order"] = pi
        out = model(x, *args, **kwargs)
        conj = []
        if not isinstance(out, dict) or set(out.keys()) != set(names):
            conj.append(z3.BoolVal(False))
        else:
            for i, nm in enumerate(names):
                v = out[nm]
                conj.append(env.z(euf.term_of(v)) == zspec[i] if isinstance(v, (Tok, TokTensor)) else z3.BoolVal(False))
        conj += [z3.IntVal(rec.count(f"g{i}")) == 1 for i in range(n)]
        prop = z3.And(*conj)
        wrong = None
        if n >= 2 and isinstance(out, dict) and set(out.keys()) == set(names):
            wrong = env.z(euf.term_of(out[names[0]])) == zspec[1]
        prop = twisted(p, prop, wrong)
        verdict, mdl = S().decide(assume, prop)
        samples.setdefault("names", sexpr(z3.And(*assume, z3.Not(prop))))
        obs_d = {k: show(euf.term_of(v)) for k, v in out.items()} if isinstance(out, dict) else repr(out)
        if verdict == "holds":
            holds["names"] += 1
            held_names.append(pi)
        else:
            wit = dict(family="par", clause="names", p=_pp(p), pi=pi, pi_is_identity=ident, observed=obs_d, calls=rec.counts())
            out_res.append(R("parallel.result-under-own-name", par_cfg_names(p), verdict, wit,
                             what=f"completion order {pi}: result dict {obs_d} does not map every name to its own branch's value"))
        # ---- clause 2: aggregator receives the results in DECLARED order --------------------------------
        rec = euf.Recorder()
        stages = [euf.make_stage(f"g{i}", rec, "plain") for i in range(n)]
        agg = SymAggregator(rec)
        model = build_par(p, stages, agg, classes)
        _PI["order"] = pi
        out = model(x, *args, **kwargs)
        got = agg.received[0] if agg.received else None
        zdecl = env.func("AGG", ["T"] * n, "T")(*zspec)
        if isinstance(out, Tok) and len(agg.received) == 1:
            prop = z3.And(env.z(out.term) == zdecl, *[z3.IntVal(rec.count(f"g{i}")) == 1 for i in range(n)])
        else:
            prop = z3.BoolVal(False)
        wrong = env.func("AGG", ["T"] * n, "T")(*reversed(zspec)) == (env.z(out.term) if isinstance(out, Tok) else zdecl) if n >= 2 else None
        prop = twisted(p, prop, wrong)
        verdict, mdl = S().decide(assume, prop)
        samples.setdefault("agg", sexpr(z3.And(*assume, z3.Not(prop))))
        if verdict == "holds":
            holds["agg"] += 1
        else:
            got_t = [euf.term_of(g) for g in got] if got is not None else None
            if got_t == [spec[k] for k in pi]:
                kind = "completion"
            elif got_t == spec:
                kind = "declared"
            else:
                kind = "other"
            wit = dict(family="par", clause="agg", p=_pp(p), n=n, max_workers=p["workers"], pi=pi, pi_is_identity=ident,
                       aggregator_input_order=kind, aggregator_calls=len(agg.received),
                       received=[show(g) for g in got_t] if got_t else None, declared=[show(s) for s in spec])
            out_res.append(R("parallel.aggregator-declared-order", par_cfg_agg(p), verdict, wit,
                             what=f"completion order {pi} (max_workers={p['workers']}, {p['construct']}): aggregator received "
                                  f"{[show(g) for g in got_t] if got_t else got} in {kind} order instead of declared order {[show(s) for s in spec]}"))
    exp_count = 1
    for k in range(2, n + 1):
        exp_count *= k
    if p.get("first") is not None:
        exp_count //= max(n, 1)
    if len(perms) != exp_count or len({tuple(x_) for x_ in perms}) != exp_count:
        out_res.append(R("parallel.permutation-enumeration", par_cfg_names(p), "inconclusive",
                         what=f"enumerated {len(perms)} permutations, expected {exp_count}"))
    note = f"{len(perms)} completion permutations (pi[0]={p.get('first')}), final 'no other permutation' query unsat"
    nvalid = 0
    if held_names and classes is None and p.get("twist") is None:
        # concolic agreement: first and last enumerated permutation (among the holding ones) on real threads with concrete recording branches
        for pi in ([held_names[0]] if len(held_names) == 1 else [held_names[0], held_names[-1]]):
            rp = replay_par(dict(p=_pp(p), pi=pi, clause="names"), None)
            if rp["reproduced"] or "note" in rp:
                out_res.append(R("parallel.result-under-own-name", par_cfg_names(p), "mismatch", what=f"symbolic verdict holds for completion order {pi} but the real-thread run says {rp}"))
            else:
                nvalid += 1
    if holds["names"]:
        out_res.append(R("parallel.result-under-own-name", par_cfg_names(p), "holds", what=note, sample=samples.get("names"), paths=holds["names"], validated=nvalid))
    if holds["agg"]:
        out_res.append(R("parallel.aggregator-declared-order", par_cfg_agg(p), "holds",
                         what=note + f"; max_workers={p['workers']} {p['construct']} extras={p['ashape']}; holding permutations: {holds['agg']}",
                         sample=samples.get("agg"), paths=holds["agg"]))
    return out_res


class SymRaiser:
    """branch stub that raises: ParallelModel documents the entry "Error: <exc>" under the branch's own name"""

    def __init__(self, i, rec):
        self.i = i
        self.rec = rec

    def __call__(self, x, *args, **kwargs):
        self.rec.note(f"g{self.i}")
        raise RuntimeError(f"boom{self.i}")


def parf_cfg(p):
    return f"ParallelModel n={p['n']} max_workers={p['workers']} construct={p['construct']} extras={p['ashape']} failing-subsets=all"


def fam_parf(p, classes=None):
    """branches that may raise: the solver enumerates every (completion permutation, failing subset) pair
    (Int permutation variables + one Bool per branch, blocking clauses, closing unsat query). For each pair the
    real forward runs twice (dict result / order-sensitive aggregator) and z3 decides
      dict:       every name maps to its own branch's value, a failing branch to the constant "Error: boom<i>",
                  and the KEY ORDER of the returned dict is the declared branch order;
      aggregator: input list == [v_0, ..., v_{n-1}] in declared order with v_i the value or the error string."""
    patch_as_completed(True)
    n = p["n"]
    env = euf.Z3Env()
    q = [z3.Int(f"pi{k}") for k in range(n)]
    fb = [z3.Bool(f"raises{i}") for i in range(n)]
    pos = [z3.Int(f"keypos{i}") for i in range(n)]   # observed position of name_i among the keys of the returned dict
    base = [z3.And(0 <= v, v < n) for v in q] + ([z3.Distinct(*q)] if n > 1 else [])
    names = par_names(p)
    x = Tok(var("x"))
    args, kwargs = sym_extras(p["ashape"])
    ok_terms = [app(f"g{i}", x, args, kwargs) for i in range(n)]
    err_terms = [euf.term_of(f"Error: boom{i}") for i in range(n)]
    zspec = [z3.If(fb[i], env.z(err_terms[i]), env.z(ok_terms[i])) for i in range(n)]   # specification, symbolic in `raises`
    AGG = env.func("AGG", ["T"] * n, "T")
    out_res = []
    holds = {"dict": 0, "agg": 0}
    samples = {}
    blocked = []
    pairs = []
    held = []
    while True:
        r, m = S().check(*base, *blocked)
        if r == "unknown":
            return [R("parallel.failing-branch-enumeration", parf_cfg(p), "inconclusive", what="enumeration undecided")]
        if r == "unsat":
            break   # closing query: no other (permutation, failing subset) pair
        pi = [m.eval(v, model_completion=True).as_long() for v in q]
        fv = [bool(z3.is_true(m.eval(b, model_completion=True))) for b in fb]
        fails = [i for i in range(n) if fv[i]]
        pairs.append((tuple(pi), tuple(fails)))
        blocked.append(z3.Or(*[v != c for v, c in zip(q, pi)], *[b != c for b, c in zip(fb, fv)]))
        assume = base + [v == c for v, c in zip(q, pi)] + [b == c for b, c in zip(fb, fv)]
        ident = pi == list(range(n))

        def stages(rec):
            return [SymRaiser(i, rec) if fv[i] else euf.make_stage(f"g{i}", rec, "plain") for i in range(n)]
        # ---- dict result ----------------------------------------------------------------------------------
        rec = euf.Recorder()
        model = build_par(p, stages(rec), None, classes)
        _PI["order"] = pi
        try:
            out = model(x, *args, **kwargs)
        except RuntimeError as e:
            out = f"<forward raised {type(e).__name__}: {e}>"
        conj = []
        keys = list(out.keys()) if isinstance(out, dict) else None
        if keys is None or sorted(keys) != sorted(names):
            conj.append(z3.BoolVal(False))
            obs_pos = None
        else:
            obs_pos = [keys.index(nm) for nm in names]
            for i, nm in enumerate(names):
                conj.append(env.z(euf.term_of(out[nm])) == zspec[i])
                conj.append(pos[i] == i)                      # declared key order
            assume_d = [pos[i] == obs_pos[i] for i in range(n)]
        conj += [z3.IntVal(rec.count(f"g{i}")) == 1 for i in range(n)]
        prop = twisted(p, z3.And(*conj))
        verdict, _m = S().decide(assume + (assume_d if obs_pos is not None else []), prop)
        samples.setdefault("dict", sexpr(z3.And(*assume, z3.Not(prop)), 1200))
        obs_d = {k: show(euf.term_of(v)) for k, v in out.items()} if isinstance(out, dict) else repr(out)
        if verdict == "holds":
            holds["dict"] += 1
            held.append((tuple(pi), tuple(fails)))
        else:
            order_kind = "declared" if keys == names else ("failed-branches-last" if keys == [nm for i, nm in enumerate(names) if not fv[i]] + [names[k] for k in pi if fv[k]] else "other")
            wit = dict(family="parf", clause="names", key_order=True, p=_pp(p), pi=pi, fails=fails, pi_is_identity=ident, observed=obs_d,
                       observed_key_order=keys, declared_key_order=names, key_order_kind=order_kind)
            out_res.append(R("parallel.failing-branch-keeps-name-and-position", parf_cfg(p), verdict, wit,
                             what=f"failing branches {fails}, completion order {pi}: returned dict {obs_d} (key order {keys}) is not "
                                  f"{{name_i: value_i or 'Error: boom<i>'}} in declared key order {names}"))
        # ---- aggregator input ---------------------------------------------------------------------------------------------
        rec = euf.Recorder()
        agg = SymAggregator(rec)
        model = build_par(p, stages(rec), agg, classes)
        _PI["order"] = pi
        try:
            out = model(x, *args, **kwargs)
        except RuntimeError as e:
            out = f"<forward raised {type(e).__name__}: {e}>"
        got = agg.received[0] if agg.received else None
        if isinstance(out, Tok) and len(agg.received) == 1:
            prop = z3.And(env.z(out.term) == AGG(*zspec), *[z3.IntVal(rec.count(f"g{i}")) == 1 for i in range(n)])
        else:
            prop = z3.BoolVal(False)
        prop = twisted(p, prop)
        verdict, _m = S().decide(assume, prop)
        samples.setdefault("agg", sexpr(z3.And(*assume, z3.Not(prop)), 1200))
        if verdict == "holds":
            holds["agg"] += 1
        else:
            got_s = [show(euf.term_of(g)) for g in got] if got is not None else None
            decl = [show(err_terms[i] if fv[i] else ok_terms[i]) for i in range(n)]
            wit = dict(family="parf", clause="agg", p=_pp(p), pi=pi, fails=fails, pi_is_identity=ident, received=got_s, declared=decl,
                       aggregator_calls=len(agg.received))
            out_res.append(R("parallel.failing-branch-aggregator-declared-order", parf_cfg(p), verdict, wit,
                             what=f"failing branches {fails}, completion order {pi}: aggregator received {got_s} instead of declared order {decl}"))
    fact = 1
    for k in range(2, n + 1):
        fact *= k
    if len(set(pairs)) != fact * 2 ** n or len(pairs) != len(set(pairs)):
        out_res.append(R("parallel.failing-branch-enumeration", parf_cfg(p), "inconclusive", what=f"enumerated {len(pairs)} pairs, expected {fact * 2 ** n}"))
    note = f"{len(pairs)} (completion permutation, failing subset) pairs = {fact} x 2^{n}, closing 'no other pair' query unsat"
    nvalid = 0
    if held and classes is None and p.get("twist") is None:
        # concolic agreement on real threads: first / last enumerated pair among those whose obligation holds
        for pi, fails in ([held[0]] if len(held) == 1 else [held[0], held[-1]]):
            rp = replay_par(dict(p=_pp(p), pi=list(pi), fails=list(fails), clause="names", key_order=True), None)
            if rp["reproduced"] or "note" in rp:
                out_res.append(R("parallel.failing-branch-keeps-name-and-position", parf_cfg(p), "mismatch",
                                 what=f"symbolic verdict holds for order {pi} / failing {fails} but the real-thread run says {rp}"))
            else:
                nvalid += 1
    if holds["dict"]:
        out_res.append(R("parallel.failing-branch-keeps-name-and-position", parf_cfg(p), "holds", what=note, sample=samples.get("dict"), paths=holds["dict"], validated=nvalid))
    if holds["agg"]:
        out_res.append(R("parallel.failing-branch-aggregator-declared-order", parf_cfg(p), "holds", what=note, sample=samples.get("agg"), paths=holds["agg"]))
    return out_res


def _pp(p):
    return {k: v for k, v in p.items() if k not in ("twist", "stretch", "config")}


def gate_realizable(pi, workers):
    """a FIFO pool with w workers can produce completion order pi with every future still pending when
    as_completed starts iff branch j is reported no earlier than position j+1-w"""
    if workers is None:
        return True
    pos = {b: k for k, b in enumerate(pi)}
    return all(pos[j] >= j + 1 - workers for j in range(len(pi)))


def replay_par(w, classes=None):
    """forcing a completion order with gates depends on thread scheduling: if the order could not be forced
    (or nothing reproduced) the run is repeated with slower pacing before the answer is final"""
    rp = None
    for pace in (0.02, 0.08, 0.3):
        rp = _replay_par_once(w, classes, pace)
        if rp["reproduced"] or ("note" not in rp and not w.get("expect_violation")):
            break
    return rp


def _replay_par_once(w, classes=None, pace=0.02):
    """real ParallelModel, real ThreadPoolExecutor and (when the order can be forced by blocking) the REAL
    as_completed: every branch blocks on its own gate; a controller thread opens the gates in the order pi."""
    p = w["p"]
    n = p["n"]
    pi = list(w["pi"])
    names = par_names(p)
    args, kwargs = conc_extras(p["ashape"])
    log = RecLog()
    real = gate_realizable(pi, p["workers"])
    started = [threading.Event() for _ in range(n)]
    gate = [threading.Event() for _ in range(n)]
    done = [threading.Event() for _ in range(n)]
    state = {"forced": True}
    fails = set(w.get("fails") or [])   # branches that raise RuntimeError("boom<i>") when they finish

    def mk(i):
        def branch(v, *a, **k):
            started[i].set()
            if real:
                gate[i].wait(20)
            log.note(f"g{i}")
            r = herbrand(f"g{i}", v, a, k)
            done[i].set()
            if i in fails:
                raise RuntimeError(f"boom{i}")
            return r
        return branch

    received = []

    def aggregator(lst):
        received.append(list(lst))
        return ("AGG", tuple(lst))

    model = build_par(p, [mk(i) for i in range(n)], aggregator if w["clause"] == "agg" else None, classes)

    def controller():
        try:
            time.sleep(pace + 0.01)
            for i in pi:
                if not started[i].wait(5):
                    state["forced"] = False
                    return
                gate[i].set()
                done[i].wait(5)
                time.sleep(pace)
        finally:
            for g in gate:
                g.set()

    if real:
        patch_as_completed(False)
        th = threading.Thread(target=controller, daemon=True)
        th.start()
        try:
            out = model("x", *args, **kwargs)
        except RuntimeError as e:
            out = f"<forward raised {type(e).__name__}: {e}>"
        finally:
            th.join(10)
            patch_as_completed(True)
        mode = "real threads + real as_completed, completion order forced by gates"
    else:
        patch_as_completed(True)
        _PI["order"] = pi
        try:
            out = model("x", *args, **kwargs)
        except RuntimeError as e:
            out = f"<forward raised {type(e).__name__}: {e}>"
        mode = "real thread pool; report order forced at as_completed (order not forcible by blocking with this max_workers; allowed by the documented as_completed contract)"
    exp = [f"Error: boom{i}" if i in fails else herbrand(f"g{i}", "x", args, kwargs) for i in range(n)]
    completion = [int(c[1:]) for c in log.calls]
    if real and (not state["forced"] or completion != pi):
        return dict(reproduced=False, mode=mode, note=f"could not force completion order {pi}, observed {completion}")
    if w["clause"] == "agg":
        bad = len(received) != 1 or received[0] != exp or out != ("AGG", tuple(exp))
        return dict(reproduced=bool(bad), mode=mode, completion_order=completion, aggregator_received=repr(received[:1])[:500], declared=repr(exp)[:500])
    bad = not isinstance(out, dict) or out != dict(zip(names, exp)) or any(log.count(f"g{i}") != 1 for i in range(n))
    if w.get("key_order") and isinstance(out, dict):
        bad = bad or list(out.keys()) != names
    return dict(reproduced=bool(bad), mode=mode, completion_order=completion, observed=repr(out)[:500], expected=repr(dict(zip(names, exp)))[:500],
                key_order=list(out.keys()) if isinstance(out, dict) else None, declared_key_order=names)


# ================================================================================================
# family: BranchingModel - conditions are uninterpreted predicates; bool() forks
# ================================================================================================
def br_config(p):
    if p.get("ctor") == "binary":
        return f"BranchingModel(condition, true_branch={p['tb']}, false_branch={p['fb']}) return_branch={p['ret']} item={p['item']} extras={p['ashape']}"
    return (f"BranchingModel n={p['n']} conditions={p['conds']} default={p['default']} return_branch={p['ret']} "
            f"item={p['item']} models={p['stage']} extras={p['ashape']}" + (f" default set before branch {p['default_at']}" if p.get("default_at") is not None else ""))


def br_names(p):
    return ["true_branch"] if p.get("ctor") == "binary" else [f"br{i}" for i in range(p["n"])]


def br_conditions_z3(p, env, x):
    """z3 conditions c_0..c_{n-1} over the input token; overlapping by construction"""
    n = 1 if p.get("ctor") == "binary" else p["n"]
    kind = p.get("conds", "independent")
    zx = env.z(x.term)
    P = [env.func(f"p{i}", ["T"], "B")(zx) for i in range(n)]
    h = env.func("h", ["T"], "T")(zx)
    if kind == "independent":
        return P
    if kind == "threshold_inc":   # c_i = h(x) < i+1 : c_0 => c_1 => ...
        return [h < (i + 1) for i in range(n)]
    if kind == "threshold_dec":   # c_i = h(x) < n-i : c_{i+1} => c_i, later branches are shadowed
        return [h < (n - i) for i in range(n)]
    if kind == "dup":             # c_1 is the same predicate as c_0
        return [P[0] if i == 1 else P[i] for i in range(n)]
    if kind == "complement":      # c_1 = not c_0 : the default is unreachable
        return [z3.Not(P[0]) if i == 1 else P[i] for i in range(n)]
    raise ValueError(kind)


def br_expected_paths(p):
    n = 1 if p.get("ctor") == "binary" else p["n"]
    kind = p.get("conds", "independent")
    if kind in ("independent", "threshold_inc"):
        return n + 1
    if kind == "threshold_dec":
        return 2
    if kind == "dup":
        return n + 1 if n < 2 else n
    if kind == "complement":
        return 2
    raise ValueError(kind)


def build_br(p, conds, mk, classes):
    """conds: list of callables; mk(name, kind) -> branch model"""
    cls = C("BranchingModel", classes)
    if p.get("ctor") == "binary":
        kw = {}
        if p["tb"]:
            kw["true_branch"] = mk("m0", p["stage"])
        if p["fb"]:
            kw["false_branch"] = mk("md", p["stage"])
        return cls(condition=conds[0], **kw)
    m = cls()
    pos = p.get("default_at")          # configuration history: the default may be set before some / all add_branch calls
    names = br_names(p)
    for i, nm in enumerate(names):
        if p["default"] and pos == i:
            m.set_default_branch(mk("md", p["stage"]))
        m.add_branch(nm, condition=conds[i], model=mk(f"m{i}", p["stage"]))
    if p["default"] and (pos is None or pos >= len(names)):
        m.set_default_branch(mk("md", p["stage"]))
    return m


def br_call(p, model, x, args, kwargs):
    if p["ashape"] == 2:
        return model(x, p["ret"], *args, **kwargs)   # return_branch given positionally, extra positionals follow
    if p["ret"]:
        return model(x, return_branch=True, **kwargs)
    return model(x, **kwargs)


def fam_br(p, classes=None):
    env = euf.Z3Env()
    x = Tok(var("x"))
    args, kwargs = sym_extras(p["ashape"])
    zc = br_conditions_z3(p, env, x)
    n = len(zc)
    names = br_names(p)
    binary = p.get("ctor") == "binary"
    has_default = True if binary else p["default"]
    # specification inside the formula: index of the first true condition, else n (default / error)
    idx = z3.IntVal(n)
    for i in reversed(range(n)):
        idx = z3.If(zc[i], i, idx)

    def branch_term(i):
        if binary and ((i == 0 and not p["tb"]) or (i == n and not p["fb"])):
            return x.term  # IdentityModel
        return app("md" if i == n else f"m{i}", x, args, kwargs)

    zterm = env.z(branch_term(n))
    for i in reversed(range(n)):
        zterm = z3.If(zc[i], env.z(branch_term(i)), zterm)
    zlast = env.z(branch_term(n))  # wrong twin: LAST matching branch
    for i in range(n):
        zlast = z3.If(zc[i], env.z(branch_term(i)), zlast)

    def run(engine):
        rec = euf.Recorder()

        def cond(i):
            def c(v):
                rec.note(f"p{i}")
                assert v is x
                sb = euf.SymBool(zc[i], engine, env)
                return euf.ItemBool(sb) if p["item"] else sb
            return c
        model = build_br(p, [cond(i) for i in range(n)], lambda nm, kind: euf.make_stage(nm, rec, kind), classes)
        try:
            out = br_call(p, model, x, args, kwargs)
            return dict(out=out, exc=None, rec=rec)
        except RuntimeError as e:
            return dict(out=None, exc=f"RuntimeError: {e}", rec=rec)

    engine = euf.PathEngine(S())
    res = []
    npaths = 0
    nholds = 0
    nvalid = 0
    sample = None
    for pc, decisions, r in engine.explore(run):
        npaths += 1
        rec = r["rec"]
        cnt = rec.counts()
        stage_syms = [f"m{i}" for i in range(n)] + ["md"]
        called = [s for s in stage_syms if cnt.get(s, 0) > 0]
        conj = []
        out = r["out"]
        name = None
        if out is not None and p["ret"]:
            if isinstance(out, tuple) and len(out) == 2:
                out, name = out
            else:
                conj.append(z3.BoolVal(False))
        if r["exc"] is not None:
            # documented error: only when nothing matches and there is no default; nothing may have run
            conj.append(z3.BoolVal(not has_default))
            conj.append(idx == n)
            conj.append(z3.BoolVal(not called))
            obs_i = None
        else:
            conj.append(env.z(euf.term_of(out)) == zterm)
            ident_ok = binary and ((not p["tb"]) or (not p["fb"]))
            if len(called) == 1 and cnt[called[0]] == 1:
                obs_i = n if called[0] == "md" else int(called[0][1:])
                conj.append(idx == obs_i)
                if obs_i == n:
                    conj.append(z3.BoolVal(has_default))
            elif not called and ident_ok:
                obs_i = None  # an IdentityModel branch ran (no stub); the term equality decides
            else:
                obs_i = None
                conj.append(z3.BoolVal(False))  # not exactly one branch model, exactly once
            if p["ret"]:
                want = z3.IntVal(n)
                if name in names:
                    want = z3.IntVal(names.index(name))
                elif name != "default":
                    conj.append(z3.BoolVal(False))
                conj.append(idx == want)
        prop = z3.And(*conj)
        wrong = (env.z(euf.term_of(out)) == zlast) if (r["exc"] is None and n >= 2 and not p["ret"]) else None
        prop_t = twisted(p, prop, wrong)
        verdict, m = S().decide(pc, prop_t)
        if sample is None:
            sample = sexpr(z3.And(*pc, z3.Not(prop_t)))
        if p.get("twist") == "wrong" and wrong is not None and verdict == "holds":
            continue  # a path on which first == last matching branch: the wrong spec coincides there
        if verdict == "holds":
            nholds += 1
            if p.get("twist") is None and classes is None:
                agree = concolic_br(p, pc, zc, classes)
                if agree is False:
                    res.append(R("branching.first-match-else-default", br_config(p), "mismatch", what=f"symbolic path {decisions} holds but the concrete run of the same path violates"))
                nvalid += 1 if agree else 0
            continue
        tv = [bool(z3.is_true(m.eval(c, model_completion=True))) for c in zc] if m is not None else None
        wit = dict(family="br", p=_pp(p), truth=tv, decisions=[bool(d) for d in decisions], executed=called, returned_name=name,
                   error=r["exc"], observed=show(euf.term_of(out)) if out is not None else None, model=model_excerpt(m))
        first = next((i for i, t in enumerate(tv) if t), None) if tv else None
        res.append(R("branching.first-match-else-default", br_config(p), verdict, wit,
                     what=f"conditions {tv}: executed {called or r['exc']} (returned name {name}), specification: "
                          f"{'branch ' + str(first) if first is not None else ('default' if has_default else 'RuntimeError')}"))
    if p.get("twist") is None and npaths != br_expected_paths(p):
        res.append(R("branching.first-match-else-default", br_config(p), "inconclusive",
                     what=f"{npaths} feasible paths explored, {br_expected_paths(p)} expected for this condition structure"))
    if nholds and not res:
        res.append(R("branching.first-match-else-default", br_config(p), "holds", what=f"{npaths} feasible paths", sample=sample, paths=npaths, validated=nvalid))
    elif nholds:
        res.append(R("branching.first-match-else-default", br_config(p), "holds", what=f"{nholds} of {npaths} paths hold", sample=sample, paths=nholds, validated=nvalid))
    return res


def replay_br(w, classes=None):
    import torch
    p = w["p"]
    tv = w["truth"]
    n = len(tv)
    log = RecLog()
    binary = p.get("ctor") == "binary"
    has_default = True if binary else p["default"]
    names = br_names(p)

    def cond(i):
        def c(v):
            log.note(f"p{i}")
            return torch.tensor(tv[i]) if p["item"] else tv[i]
        return c
    model = build_br(p, [cond(i) for i in range(n)], lambda nm, kind: rec_stage(nm, log, kind), classes)
    args, kwargs = conc_extras(p["ashape"])
    first = next((i for i, t in enumerate(tv) if t), None)

    def val(i):
        if binary and ((i == 0 and not p["tb"]) or (i == n and not p["fb"])):
            return "x"
        return herbrand("md" if i == n else f"m{i}", "x", args, kwargs)
    try:
        out = br_call(p, model, "x", args, kwargs)
        exc = None
    except RuntimeError as e:
        out, exc = None, f"RuntimeError: {e}"
    ran = [c for c in log.calls if c.startswith("m")]
    if first is None and not has_default:
        bad = exc is None or bool(ran)
        exp = "RuntimeError"
    else:
        k = n if first is None else first
        exp = val(k)
        exp_name = "default" if first is None else names[first]
        exp_ran = [] if exp == "x" else [("md" if k == n else f"m{k}")]
        if p["ret"]:
            exp = (exp, exp_name)
        bad = exc is not None or out != exp or ran != exp_ran
    return dict(reproduced=bool(bad), mode="real class, concrete conditions and recording branch models", truth=tv,
                observed=repr(out if exc is None else exc)[:400], expected=repr(exp)[:400], models_run=ran)


# ================================================================================================
# family: FeedbackChannelModel - exactly max_iterations rounds with the right data flow
# ================================================================================================
FB_ROLES = [("encoder", "E", "model"), ("forward_channel", "C", "channel"), ("decoder", "D", "model"),
            ("feedback_generator", "G", "model"), ("feedback_channel", "F", "channel"), ("feedback_processor", "P", "model")]


def fb_config(p):
    return f"FeedbackChannelModel max_iterations={p['T']} extras={p['ashape']}"


def build_fb(p, mk, classes):
    st = {role: mk(sym, kind) for role, sym, kind in FB_ROLES}
    return C("FeedbackChannelModel", classes)(max_iterations=p["T"], **st)


def fb_spec(T, x, args, kwargs, ap):
    """data flow of T rounds; ap(sym, value, args, kwargs) builds an application"""
    its = []
    fb = None
    for i in range(T):
        if i > 0:
            state = ap("P", fb, args, kwargs)
            enc = ap("E", x, args, dict(kwargs, state=state))
        else:
            enc = ap("E", x, args, kwargs)
        recv = ap("C", enc, args, kwargs)
        dec = ap("D", recv, args, kwargs)
        fb = ap("F", ap("G", dec, [x] + list(args), kwargs), args, kwargs)
        its.append(dict(encoded=enc, received=recv, decoded=dec, feedback=fb))
    return its


def fam_fb(p, classes=None):
    rec = euf.Recorder()
    env = euf.Z3Env()
    T = p["T"]
    model = build_fb(p, lambda nm, kind: euf.make_stage(nm, rec, kind), classes)
    x = Tok(var("x"))
    args, kwargs = sym_extras(p["ashape"])
    out = model(x, *args, **kwargs)
    Ts = T + 1 if p.get("twist") == "wrong" else T
    its = fb_spec(Ts, x, args, kwargs, app)
    conj = []
    ok_shape = isinstance(out, dict) and isinstance(out.get("iterations"), list) and isinstance(out.get("feedback_history"), list)
    if not ok_shape or len(out["iterations"]) != Ts or len(out["feedback_history"]) != Ts or (("final_output" in out) != (Ts > 0)):
        conj.append(z3.BoolVal(False))
    else:
        for got, want in zip(out["iterations"], its):
            for key in ("encoded", "received", "decoded", "feedback"):
                conj.append(env.z(euf.term_of(got[key])) == env.z(want[key]))
        for got, want in zip(out["feedback_history"], its):
            conj.append(env.z(euf.term_of(got)) == env.z(want["feedback"]))
        if Ts > 0:
            conj.append(env.z(euf.term_of(out["final_output"])) == env.z(its[-1]["decoded"]))
    cnt = rec.counts()
    # symbols carry their keyword names: E and E{state}; count by role letter
    by = {}
    for s, c in cnt.items():
        by[s[0]] = by.get(s[0], 0) + c
    for _, sym, _k in FB_ROLES:
        conj.append(z3.IntVal(by.get(sym, 0)) == (max(Ts - 1, 0) if sym == "P" else Ts))
    prop = z3.And(*conj) if conj else z3.BoolVal(True)
    if p.get("twist") == "false":
        prop = z3.BoolVal(False)
    verdict, m = S().decide([], prop)
    n_it = len(out["iterations"]) if ok_shape else None
    fin = show(euf.term_of(out["final_output"])) if ok_shape and "final_output" in out else None
    wit = dict(family="fb", p=_pp(p), iterations_observed=n_it, calls=by, final_output=fin,
               expected_final=show(its[-1]["decoded"]) if its else None)
    return [R("feedback.exact-rounds-dataflow", fb_config(p), verdict, wit,
              what=f"max_iterations={T}: observed {n_it} rounds, calls {by}, final_output {fin} vs specification {wit['expected_final']}",
              sample=sexpr(z3.Not(prop)))]


def replay_fb(w, classes=None):
    p = w["p"]
    T = p["T"]
    log = RecLog()
    model = build_fb(p, lambda nm, kind: rec_stage(nm, log, kind), classes)
    args, kwargs = conc_extras(p["ashape"])
    out = model("x", *args, **kwargs)
    its = fb_spec(T, "x", args, kwargs, lambda s, v, a, k: herbrand(s, v, a, k))
    exp = dict(iterations=its, feedback_history=[i["feedback"] for i in its])
    if T > 0:
        exp["final_output"] = its[-1]["decoded"]
    counts = {sym: log.count(sym) for _, sym, _k in FB_ROLES}
    want = {sym: (max(T - 1, 0) if sym == "P" else T) for _, sym, _k in FB_ROLES}
    bad = out != exp or counts != want
    return dict(reproduced=bool(bad), mode="real class, concrete recording stages", rounds_observed=len(out.get("iterations", [])),
                calls=counts, expected_calls=want, final_output=repr(out.get("final_output"))[:300], expected_final=repr(exp.get("final_output"))[:300])


# ================================================================================================
# family: MultipleAccessChannelModel - superposition of all users, one constraint, one channel use
# ================================================================================================
def mac_config(p):
    return f"MultipleAccessChannelModel users={p['n']} encoders={p['enc']} decoders={p['dec']} extras={p['ashape']}"


def mac_layout(p):
    """(per-user encoder symbol list, decoder symbol list, joint?)"""
    n = p["n"]
    if p["enc"] == "shared":
        es = ["E0"] * n
    elif p["enc"] == "list_dup01":
        es = ["E0", "E0"] + [f"E{i}" for i in range(2, n)]
    elif p["enc"] == "list_dup_ends":
        es = ["E0"] + [f"E{i}" for i in range(1, n - 1)] + ["E0"]      # first and last user share an instance, the middle ones differ
    elif p["enc"] == "list_dup_last2":
        es = [f"E{i}" for i in range(n - 2)] + [f"E{n - 2}", f"E{n - 2}"]
    else:
        es = [f"E{i}" for i in range(n)]
    if p["dec"] == "list" and n > 1:
        return es, [f"D{i}" for i in range(n)], False
    return es, ["D0"], True


def build_mac(p, mk, mk_class, classes):
    n = p["n"]
    es, ds, joint = mac_layout(p)
    kw = {}
    if p["enc"] == "shared":
        enc = mk("E0", "model")
        kw["num_devices"] = n
    elif p["enc"] == "class":
        enc = mk_class("E")
        kw["num_devices"] = n
    else:
        cache = {}
        enc = [cache.setdefault(s, mk(s, "model")) if s not in cache else cache[s] for s in es]
    if p["dec"] == "shared":
        dec = mk("D0", "model")
        kw.setdefault("num_devices", n)
    elif p["dec"] == "class":
        dec = mk_class("D")
        kw.setdefault("num_devices", n)
    elif p["dec"] == "list1":
        dec = [mk("D0", "model")]
        kw.setdefault("num_devices", n)
    else:
        dec = [mk(f"D{i}", "model") for i in range(n)]
    return C("MultipleAccessChannelModel", classes)(enc, dec, mk("CH", "channel"), mk("PC", "constraint"), **kw)


def fam_mac(p, classes=None):
    rec = euf.Recorder()
    env = euf.Z3Env()
    n = p["n"]

    def mk_class(prefix):
        base = euf.stage_class("model")
        counter = itertools.count()

        class K(base):
            def __init__(self, *a, **k):
                super().__init__(f"{prefix}{next(counter)}", rec)
        return K
    model = build_mac(p, lambda nm, kind: euf.make_stage(nm, rec, kind), mk_class, classes)
    xs = [TokTensor(var(f"x{i}")) for i in range(n)]
    args, kwargs = sym_extras(p["ashape"])
    out = model(xs, *args, **kwargs)
    es, ds, joint = mac_layout(p)
    users = range(n - 1) if (p.get("twist") == "wrong" and n > 1) else range(n)
    sup = tsum([app(es[i], xs[i], args, kwargs) for i in users])
    r = app("CH", app("PC", sup), args, kwargs)
    if joint:
        spec = app(ds[0], r, args, kwargs)
    else:
        spec = euf.Term("app", "CAT@dim1", tuple(app(d, r, args, kwargs) for d in ds), "T")
    cnt = rec.counts()
    by = {}
    for s, c in cnt.items():
        key = s.split("{")[0]
        by[key] = by.get(key, 0) + c
    conj = [env.z(euf.term_of(out)) == env.z(spec), z3.IntVal(by.get("PC", 0)) == 1, z3.IntVal(by.get("CH", 0)) == 1]
    for s in set(es):
        conj.append(z3.IntVal(by.get(s, 0)) == es.count(s))
    for d in ds:
        conj.append(z3.IntVal(by.get(d, 0)) == 1)
    prop = z3.And(*conj)
    if p.get("twist") == "false" or (p.get("twist") == "wrong" and n == 1):
        prop = z3.BoolVal(False)
    # non-vacuity side condition: the users' inputs can be pairwise different
    assume = [z3.Distinct(*[env.z(t.term) for t in xs])] if n > 1 else []
    verdict, m = S().decide(assume, prop)
    sup0 = tsum([app(es[0], xs[i], args, kwargs) for i in range(n)])
    r0 = app("CH", app("PC", sup0), args, kwargs)
    alt = app(ds[0], r0, args, kwargs) if joint else euf.Term("app", "CAT@dim1", tuple(app(d, r0, args, kwargs) for d in ds), "T")
    wit = dict(family="mac", p=_pp(p), observed=show(euf.term_of(out)), expected=show(spec), calls=by, model=model_excerpt(m),
               all_users_encoded_by_first_encoder=bool(euf.term_of(out) == alt and alt != spec))
    return [R("multiple-access.superposition-one-constraint-one-channel", mac_config(p), verdict, wit,
              what=f"output {show(euf.term_of(out))} differs from dec(ch(constraint(sum_i enc_i(x_i)))) = {show(spec)} or call counts {by} are off",
              sample=sexpr(z3.And(*assume, z3.Not(prop))))]


def replay_mac(w, classes=None):
    """real torch tensors, affine numeric stages with distinct coefficients, every call recorded"""
    import torch
    p = w["p"]
    n = p["n"]
    calls = []
    coef = {}

    def coeffs(name):
        if name not in coef:
            k = len(coef)
            coef[name] = (1.0 + 0.5 * (k + 1), 0.25 * (k + 1) * (-1) ** k)
        return coef[name]

    def num_class(kind):
        base = rec_module_class(kind).__mro__[1]

        class Num(base):
            def __init__(self, name):
                super().__init__()
                self.rname = name

            def forward(self, v, *a, **k):
                mul, add = coeffs(self.rname)
                o = v * mul + add
                calls.append((self.rname, v, a, k, o))
                return o
        return Num

    def mk(name, kind):
        return num_class(kind)(name)

    def mk_class(prefix):
        base = num_class("model")
        counter = itertools.count()

        class K(base):
            def __init__(self, *a, **k):
                super().__init__(f"{prefix}{next(counter)}")
        return K
    model = build_mac(p, mk, mk_class, classes)
    g = torch.Generator().manual_seed(17)
    xs = [torch.randn(2, 3, dtype=torch.float64, generator=g) for _ in range(n)]
    args, kwargs = conc_extras(p["ashape"])
    out = model(xs, *args, **kwargs)
    es, ds, joint = mac_layout(p)

    def f(name, v):
        mul, add = coeffs(name)
        return v * mul + add
    sup = sum(f(es[i], xs[i]) for i in range(n))
    r = f("CH", f("PC", sup))
    exp = f(ds[0], r) if joint else torch.cat([f(d, r) for d in ds], dim=1)
    cnt = {}
    extras_ok = True
    for name, v, a, k, o in calls:
        cnt[name] = cnt.get(name, 0) + 1
        if name == "PC":
            extras_ok &= (a == () and k == {})
        else:
            extras_ok &= (list(a) == list(args) and k == kwargs)
    counts_ok = cnt.get("PC", 0) == 1 and cnt.get("CH", 0) == 1 and all(cnt.get(s, 0) == es.count(s) for s in set(es)) and all(cnt.get(d, 0) == 1 for d in ds)
    same = out.shape == exp.shape and torch.allclose(out, exp, rtol=1e-9, atol=1e-9)
    bad = not (same and counts_ok and extras_ok)
    return dict(reproduced=bool(bad), mode="real class, real float64 tensors, affine recording stages", calls=cnt,
                max_abs_diff=float((out - exp).abs().max()) if out.shape == exp.shape else "shape mismatch", extras_forwarded=bool(extras_ok))


# ================================================================================================
# family: add_step / remove_step histories followed by a run, compared with a list model in the formula
# ================================================================================================
def zapp(env, sym, zx, args, kwargs):
    """same symbol that euf.app(sym, x, args, kwargs) translates to, applied to a z3 expression"""
    kw = sorted(kwargs.items())
    name = sym if not kw else sym + "{" + ",".join(k for k, _ in kw) + "}"
    zs = [zx] + [env.z(euf.term_of(a)) for a in args] + [env.z(euf.term_of(v)) for _, v in kw]
    return env.func(name, ["T"] * len(zs), "T")(*zs)


def hist_config(p):
    return f"history {p['kind']} initial={p['init']} operations={p['L']}" + (f" prefix={p['prefix']}" if p.get("prefix") else "") + (" with duplicate stage objects" if p.get("dups") else "")


def hist_structures(p):
    pre = p.get("prefix", "")
    rest = p["L"] - len(pre)
    if p.get("dups"):
        # 'D' adds the SAME stage object as the stage with identity 1 once more (duplicate object in the pipeline)
        return [pre + "".join(t) for t in itertools.product("ADR", repeat=rest) if "D" in t and "R" in t]
    return [pre + "".join(t) for t in itertools.product("AR", repeat=rest)]


def hist_build(kind, init, mk, classes):
    """returns (model, add(stage, id), names dict id->name for the parallel container)"""
    names = {}
    if kind == "Parallel":
        steps = []
        for j in range(init):
            names[j + 1] = f"init{j}"
            steps.append((f"init{j}", mk(j + 1)))
        m = C("ParallelModel", classes)(steps=steps)
        state = {"auto": 0}

        def add(ident):
            names[ident] = f"step_{state['auto']}"   # documented auto-naming: step_<counter>
            state["auto"] += 1
            r = m.add_step(mk(ident))
            assert r is m
        return m, add, names
    if kind == "Sequential":
        m = C("SequentialModel", classes)([mk(j + 1) for j in range(init)])
    else:
        m = C("ConfigurableModel", classes)()
        for j in range(init):
            m.add_step(mk(j + 1))

    def add(ident):
        r = m.add_step(mk(ident))
        assert r is m
    return m, add, names


def list_model(init, ops, idx, cap, off=0):
    """z3 list model: cells M[0..cap-1] + length; remove(i) is valid iff 0 <= i < len"""
    M = [z3.IntVal(j + 1 if j < init else 0) for j in range(cap)]
    ln = z3.IntVal(init)
    nxt = init + 1
    valid = []
    r = 0
    for o in ops:
        if o == "A":
            M = [z3.If(ln == j, nxt, M[j]) for j in range(cap)]
            ln = ln + 1
            nxt += 1
        elif o == "D":
            M = [z3.If(ln == j, 1, M[j]) for j in range(cap)]
            ln = ln + 1
        else:
            i = idx[r] + off
            r += 1
            v = z3.And(0 <= idx[r - 1], idx[r - 1] < ln)
            valid.append(v)
            Mx = M + [z3.IntVal(0)]
            M = [z3.If(z3.And(v, i <= j), Mx[j + 1], M[j]) for j in range(cap)]
            ln = z3.If(v, ln - 1, ln)
    return M, ln, valid


def fam_hist_one(p, ops, classes=None):
    patch_as_completed(True)
    kind, init = p["kind"], p["init"]
    env = euf.Z3Env()
    x = Tok(var("x"))
    args, kwargs = sym_extras(p["ashape"])
    nrem = ops.count("R")
    nadd = ops.count("A") + ops.count("D")
    cap = init + nadd
    ids = list(range(1, cap + 1))
    zi = [z3.Int(f"i{r}") for r in range(nrem)]
    M, ln, valid = list_model(init, ops, zi, max(cap, 1))
    zx = env.z(x.term)

    def apply_id(ident_expr, r):
        e = r
        for ident in reversed(ids):
            e = z3.If(ident_expr == ident, zapp(env, f"f{ident}", r, args, kwargs), e)
        return e

    def spec_seq(Mv, lnv):
        r = zx
        for j in range(cap):
            r = z3.If(j < lnv, apply_id(Mv[j], r), r)
        return r

    def run(engine):
        rec = euf.Recorder()
        objs = {}
        model, add, names = hist_build(kind, init, lambda ident: objs.setdefault(ident, euf.make_stage(f"f{ident}", rec, "plain")), classes)
        nxt = init + 1
        r = 0
        errs = []
        for o in ops:
            if o == "A":
                add(nxt)
                nxt += 1
            elif o == "D":
                add(1)          # the same object as stage 1 (objs caches it)
            else:
                si = euf.SymInt(f"i{r}", engine, env)
                r += 1
                try:
                    ret = model.remove_step(si)
                    assert ret is model
                    errs.append(False)
                except IndexError:
                    errs.append(True)
        if kind == "Parallel":
            _PI["order"] = list(reversed(range(len(model.step_configs))))
        out = model(x, *args, **kwargs)
        return dict(out=out, errs=errs, rec=rec, names=names)

    # path-independent part of the specification (built once per operation structure)
    present = {ident: z3.Or(*[z3.And(j < ln, M[j] == ident) for j in range(cap)]) if cap else z3.BoolVal(False) for ident in ids}
    occurs = {ident: z3.Sum([z3.If(z3.And(j < ln, M[j] == ident), 1, 0) for j in range(cap)]) if cap else z3.IntVal(0) for ident in ids}
    zspec_seq = spec_seq(M, ln) if kind != "Parallel" else None
    zbranch = {ident: zapp(env, f"f{ident}", zx, args, kwargs) for ident in ids}
    engine = euf.PathEngine(S())
    res = []
    npaths = nholds = nvalid = 0
    sample = None
    for pc, decisions, r in engine.explore(run):
        npaths += 1
        out, rec = r["out"], r["rec"]
        conj = [z3.Not(v) if e else v for e, v in zip(r["errs"], valid)]
        if kind == "Parallel":
            if not isinstance(out, dict):
                conj.append(z3.BoolVal(False))
            else:
                known = set(r["names"].values())
                conj.append(z3.BoolVal(set(out.keys()) <= known))
                for ident in ids:
                    nm = r["names"].get(ident)
                    conj.append(present[ident] if nm in out else z3.Not(present[ident]))
                    if nm in out:
                        conj.append(env.z(euf.term_of(out[nm])) == zbranch[ident])
            obs = {k: show(euf.term_of(v)) for k, v in out.items()} if isinstance(out, dict) else repr(out)
        else:
            conj.append(env.z(euf.term_of(out)) == zspec_seq)
            obs = show(euf.term_of(out))
        for ident in ids:
            conj.append(occurs[ident] == rec.count(f"f{ident}"))
        prop = z3.And(*conj)
        wrong = None
        if p.get("twist") == "wrong":
            M2, ln2, _v2 = list_model(init, ops, zi, max(cap, 1), off=1)
            wrong = z3.And(*[z3.IntVal(rec.count(f"f{ident}")) == z3.Sum([z3.If(z3.And(j < ln2, M2[j] == ident), 1, 0) for j in range(cap)]) for ident in ids]) if cap else None
        prop_t = twisted(p, prop, wrong)
        verdict, m = S().decide(pc, prop_t)
        if sample is None and nrem:
            sample = sexpr(z3.And(*pc, z3.Not(prop_t)), 1200)
        if verdict == "holds":
            nholds += 1
            if p.get("twist") is None and classes is None and (len(ops) <= 3 or npaths % 7 == 1):
                agree = concolic_hist(p, ops, pc, zi, classes)
                if agree is False:
                    res.append(R("history.list-model", hist_config(p), "mismatch", what=f"{ops} path {decisions}: symbolic verdict holds but the concrete run violates"))
                nvalid += 1 if agree else 0
            continue
        iv = [m.eval(v, model_completion=True).as_long() for v in zi] if m is not None else None
        wit = dict(family="hist", p=_pp(p), ops=ops, indices=iv, decisions=[d if isinstance(d, bool) else int(d) for d in decisions],
                   index_errors=r["errs"], observed=obs)
        res.append(R("history.list-model", hist_config(p), verdict, wit,
                     what=f"{kind} initial={init} operations={ops} remove indices={iv}: result {obs} (IndexError flags {r['errs']}) disagrees with the list model"))
    return res, npaths, nholds, sample, nvalid


def fam_hist(p, classes=None):
    res = []
    tot_paths = tot_holds = tot_valid = 0
    sample = None
    structs = p["only"] if p.get("only") else hist_structures(p)
    for ops in structs:
        r, npaths, nholds, smp, nv = fam_hist_one(p, ops, classes)
        res += r
        tot_paths += npaths
        tot_holds += nholds
        tot_valid += nv
        sample = sample or smp
    if tot_holds:
        res.append(R("history.list-model", hist_config(p), "holds",
                     what=f"{len(structs)} operation structures, {tot_holds} of {tot_paths} feasible paths hold", sample=sample, paths=tot_holds, validated=tot_valid))
    return res


def replay_hist(w, classes=None):
    p = w["p"]
    kind, init, ops = p["kind"], p["init"], w["ops"]
    idx = list(w["indices"])
    log = RecLog()
    args, kwargs = conc_extras(p["ashape"])
    objs = {}
    model, add, names = hist_build(kind, init, lambda ident: objs.setdefault(ident, RecStage(f"f{ident}", log)), classes)
    ref = list(range(1, init + 1))
    nxt = init + 1
    errs, ref_errs = [], []
    r = 0
    for o in ops:
        if o == "A":
            add(nxt)
            ref.append(nxt)
            nxt += 1
        elif o == "D":
            add(1)
            ref.append(1)
        else:
            i = idx[r]
            r += 1
            try:
                model.remove_step(i)
                errs.append(False)
            except IndexError:
                errs.append(True)
            if 0 <= i < len(ref):
                ref.pop(i)
                ref_errs.append(False)
            else:
                ref_errs.append(True)
    patch_as_completed(False)
    try:
        out = model("x", *args, **kwargs)
    finally:
        patch_as_completed(True)
    if kind == "Parallel":
        exp = {names[i]: herbrand(f"f{i}", "x", args, kwargs) for i in ref}
    else:
        exp = "x"
        for i in ref:
            exp = herbrand(f"f{i}", exp, args, kwargs)
    counts_ok = all(log.count(f"f{i}") == ref.count(i) for i in range(1, nxt))
    bad = out != exp or errs != ref_errs or not counts_ok
    return dict(reproduced=bool(bad), mode="real class, concrete indices and recording stages", observed=repr(out)[:400], expected=repr(exp)[:400],
                index_errors=errs, expected_index_errors=ref_errs)


# ================================================================================================
# concolic agreement: a model of the path condition is run through the real class with concrete stages
# ================================================================================================
def concolic_br(p, pc, zc, classes):
    r, m = S().check(*pc)
    if r != "sat":
        return None
    tv = [bool(z3.is_true(m.eval(c, model_completion=True))) for c in zc]
    rp = replay_br(dict(p=_pp(p), truth=tv), classes)
    return not rp["reproduced"]


def concolic_hist(p, ops, pc, zi, classes):
    r, m = S().check(*pc)
    if r != "sat":
        return None
    iv = [m.eval(v, model_completion=True).as_long() for v in zi]
    rp = replay_hist(dict(p=_pp(p), ops=ops, indices=iv), classes)
    return not rp["reproduced"]


# ================================================================================================
# in-memory mutants (patched copies of the real methods; /repo is never edited)
# ================================================================================================
def mutate_method(cls, method, old, new, count=1):
    """subclass of `cls` whose `method` is the real source with `old` replaced by `new`, compiled in the
    globals of the defining module (so the as_completed stub etc. stay in effect)"""
    fn = getattr(cls, method)
    raw = inspect.getsource(fn)
    if raw.count(old) < 1:
        raise LookupError(f"mutation pattern {old!r} not found in {cls.__name__}.{method}")
    src = textwrap.dedent(raw.replace(old, new, count))
    g = fn.__globals__
    key = "_kverif_mutbase_" + cls.__name__
    g[key] = cls
    src = src.replace("super().", f"super({key}, self).")
    ns = {}
    exec(compile(src, f"<mutant of {cls.__name__}.{method}>", "exec"), g, ns)
    return type(cls.__name__ + "_mutant", (cls,), {method: ns[method]})


def _par_forward_completion_order(self, input_data, *args, **kwargs):
    """pinned copy of the forward that hands the aggregator the results in completion order"""
    import kaira.models.generic.parallel as pm
    if not self.step_configs:
        return {}
    results = {}
    with pm.ThreadPoolExecutor(max_workers=self.max_workers) as executor:
        future_to_step = {executor.submit(step_func, input_data, *args, **kwargs): name for name, step_func in self.step_configs}
        for future in pm.as_completed(future_to_step):
            try:
                results[future_to_step[future]] = future.result()
            except Exception as exc:
                results[future_to_step[future]] = f"Error: {exc}"
    if self.aggregator:
        return self.aggregator(list(results.values()))
    return results


def _par_forward_name_by_arrival(self, input_data, *args, **kwargs):
    import kaira.models.generic.parallel as pm
    if not self.step_configs:
        return {}
    results = {}
    with pm.ThreadPoolExecutor(max_workers=self.max_workers) as executor:
        futs = [executor.submit(step_func, input_data, *args, **kwargs) for _name, step_func in self.step_configs]
        for future in pm.as_completed({f: None for f in futs}):
            results[self.step_configs[len(results)][0]] = future.result()
    if self.aggregator:
        return self.aggregator([results[name] for name, _ in self.step_configs])
    return results


def _par_forward_failures_last(self, input_data, *args, **kwargs):
    """failed branches are collected separately and appended AFTER the successful ones (lose their declared position)"""
    import kaira.models.generic.parallel as pm
    if not self.step_configs:
        return {}
    results, failures = {}, {}
    with pm.ThreadPoolExecutor(max_workers=self.max_workers) as executor:
        future_to_step = {executor.submit(step_func, input_data, *args, **kwargs): name for name, step_func in self.step_configs}
        for future in pm.as_completed(future_to_step):
            try:
                results[future_to_step[future]] = future.result()
            except Exception as exc:
                failures[future_to_step[future]] = f"Error: {exc}"
    results = {name: results[name] for name, _ in self.step_configs if name in results}
    results.update(failures)
    if self.aggregator:
        return self.aggregator(list(results.values()))
    return results


def _par_forward_failure_dropped(self, input_data, *args, **kwargs):
    """a failing branch is silently left out"""
    import kaira.models.generic.parallel as pm
    if not self.step_configs:
        return {}
    results = {}
    with pm.ThreadPoolExecutor(max_workers=self.max_workers) as executor:
        future_to_step = {executor.submit(step_func, input_data, *args, **kwargs): name for name, step_func in self.step_configs}
        for future in pm.as_completed(future_to_step):
            try:
                results[future_to_step[future]] = future.result()
            except Exception:
                pass
    results = {name: results[name] for name, _ in self.step_configs if name in results}
    if self.aggregator:
        return self.aggregator(list(results.values()))
    return results


def _br_forward_last_match(self, x, return_branch=False, *args, **kwargs):
    """the LAST matching branch wins (instead of the first)"""
    chosen = None
    for name, (condition, model) in self.branches.items():
        r = condition(x)
        r = bool(r.item()) if hasattr(r, "item") else bool(r)
        if r:
            chosen = (name, model)
    if chosen is not None:
        out = chosen[1](x, *args, **kwargs)
        return (out, chosen[0]) if return_branch else out
    if self.default_branch is not None:
        out = self.default_branch(x, *args, **kwargs)
        return (out, "default") if return_branch else out
    raise RuntimeError("No matching branch conditions and no default branch set")


def _sub(cls, **methods):
    return type(cls.__name__ + "_mutant", (cls,), methods)


def mutant_classes(name):
    rc = real_classes()
    Seq, Conf, Par, Br = rc["SequentialModel"], rc["ConfigurableModel"], rc["ParallelModel"], rc["BranchingModel"]
    Fb, Mac, Wz = rc["FeedbackChannelModel"], rc["MultipleAccessChannelModel"], rc["WynerZivModel"]
    call = "result = step(result, *args, **kwargs)"
    if name == "seq.stage-skipped":
        return dict(SequentialModel=mutate_method(Seq, "forward", "for step in self.steps:", "for step in self.steps[:-1]:"))
    if name == "seq.stage-run-twice":
        return dict(SequentialModel=mutate_method(Seq, "forward", call, "result = step(step(result, *args, **kwargs), *args, **kwargs)"))
    if name == "seq.kwargs-dropped":
        return dict(SequentialModel=mutate_method(Seq, "forward", call, "result = step(result, *args)"))
    if name == "seq.extra-discarded-call":
        return dict(SequentialModel=mutate_method(Seq, "forward", call, "step(result, *args, **kwargs); " + call))
    if name == "seq.reversed":
        return dict(SequentialModel=mutate_method(Seq, "forward", "for step in self.steps:", "for step in reversed(self.steps):"))
    if name == "configurable.args-dropped":
        return dict(ConfigurableModel=mutate_method(Conf, "forward", "result = step(result, *args, **kwargs)", "result = step(result, **kwargs)"))
    if name == "deepjscc.constraint-channel-swapped":
        return dict(DeepJSCCModel=mutate_method(rc["DeepJSCCModel"], "__init__", "[encoder, constraint, channel, decoder]", "[encoder, channel, constraint, decoder]"))
    if name == "channelcode.demodulator-dropped":
        return dict(ChannelCodeModel=mutate_method(rc["ChannelCodeModel"], "__init__", "            demodulator,\n            decoder,\n        ]", "            decoder,\n        ]"))
    if name == "wz.constraint-skipped":
        return dict(WynerZivModel=mutate_method(Wz, "forward", "if self.constraint is not None:", "if False:"))
    if name == "par.aggregator-completion-order":
        return dict(ParallelModel=_sub(Par, forward=_par_forward_completion_order))
    if name == "par.name-by-arrival":
        try:
            return dict(ParallelModel=mutate_method(Par, "forward", "step_name = future_to_step[future]", "step_name = self.step_configs[len(results)][0]"))
        except LookupError:
            return dict(ParallelModel=_sub(Par, forward=_par_forward_name_by_arrival))
    if name == "par.kwargs-dropped":
        return dict(ParallelModel=mutate_method(Par, "forward", "executor.submit(step_func, input_data, *args, **kwargs)", "executor.submit(step_func, input_data, *args)"))
    if name == "parf.failures-appended-last":
        return dict(ParallelModel=_sub(Par, forward=_par_forward_failures_last))
    if name == "parf.failure-dropped":
        return dict(ParallelModel=_sub(Par, forward=_par_forward_failure_dropped))
    if name == "parf.dict-in-completion-order":
        return dict(ParallelModel=_sub(Par, forward=_par_forward_completion_order))
    if name == "br.last-match-wins":
        return dict(BranchingModel=_sub(Br, forward=_br_forward_last_match))
    if name == "br.default-ignored":
        return dict(BranchingModel=mutate_method(Br, "forward", "if self.default_branch is not None:", "if False:"))
    if name == "br.condition-negated":
        return dict(BranchingModel=mutate_method(Br, "forward", "if condition_result:", "if not condition_result:"))
    if name == "fb.one-iteration-too-many":
        return dict(FeedbackChannelModel=mutate_method(Fb, "forward", "range(self.max_iterations)", "range(self.max_iterations + 1)"))
    if name == "fb.feedback-processed-late":
        return dict(FeedbackChannelModel=mutate_method(Fb, "forward", "if i > 0 else None", "if i > 1 else None"))
    if name == "fb.generator-without-original":
        return dict(FeedbackChannelModel=mutate_method(Fb, "forward", "self.feedback_generator(decoded, input_data, *args, **kwargs)", "self.feedback_generator(decoded, *args, **kwargs)"))
    if name == "mac.user-dropped":
        return dict(MultipleAccessChannelModel=mutate_method(Mac, "forward", "for i in range(self.num_users):", "for i in range(self.num_users - 1):"))
    if name == "mac.constraint-twice":
        return dict(MultipleAccessChannelModel=mutate_method(Mac, "forward", "self.power_constraint(combined_signal)", "self.power_constraint(self.power_constraint(combined_signal))"))
    if name == "mac.no-superposition":
        return dict(MultipleAccessChannelModel=mutate_method(Mac, "forward", "torch.sum(torch.stack(encoded_signals), dim=0)", "encoded_signals[0]"))
    if name == "hist.remove-always-first":
        return dict(ConfigurableModel=mutate_method(Conf, "remove_step", "self.steps.pop(index)", "self.steps.pop(0)"))
    if name == "hist.add-at-front":
        return dict(SequentialModel=mutate_method(Seq, "add_step", "self.steps.append(step)", "self.steps.insert(0, step)"))
    if name == "hist.parallel-remove-noop":
        return dict(ParallelModel=mutate_method(Par, "remove_step", "self.step_configs.pop(index)", "pass"))
    raise KeyError(name)


MUTANTS = [
    # (mutant, family, parameters of the harness run that has to flag it)
    ("seq.stage-skipped", "seq", dict(kind="Sequential", n=3, stage="plain", ashape=1)),
    ("seq.stage-run-twice", "seq", dict(kind="Sequential", n=3, stage="module", ashape=0)),
    ("seq.kwargs-dropped", "seq", dict(kind="Sequential.add_step", n=2, stage="plain", ashape=2)),
    ("seq.extra-discarded-call", "seq", dict(kind="Sequential", n=2, stage="plain", ashape=0)),
    ("seq.reversed", "seq", dict(kind="Sequential.steps_kw", n=4, stage="plain", ashape=3)),
    ("configurable.args-dropped", "seq", dict(kind="Configurable.add_step", n=3, stage="plain", ashape=2)),
    ("deepjscc.constraint-channel-swapped", "seq", dict(kind="DeepJSCC", n=4, ashape=3)),
    ("channelcode.demodulator-dropped", "seq", dict(kind="ChannelCode", n=6, ashape=0)),
    ("wz.constraint-skipped", "wz", dict(q=1, s=1, c=1, side="given", ashape=2)),
    ("par.aggregator-completion-order", "par", dict(n=3, workers=None, construct="steps", ashape=2, first=None)),
    ("par.name-by-arrival", "par", dict(n=3, workers=3, construct="branches", ashape=0, first=None)),
    ("par.kwargs-dropped", "par", dict(n=2, workers=1, construct="add_step", ashape=2, first=None)),
    ("parf.failures-appended-last", "parf", dict(n=3, workers=None, construct="steps", ashape=0)),
    ("parf.failure-dropped", "parf", dict(n=2, workers=1, construct="branches", ashape=2)),
    ("parf.dict-in-completion-order", "parf", dict(n=3, workers=2, construct="add_step", ashape=0)),
    ("br.last-match-wins", "br", dict(n=3, conds="threshold_inc", default=True, ret=True, item=False, stage="plain", ashape=0)),
    ("br.default-ignored", "br", dict(n=2, conds="independent", default=True, ret=False, item=True, stage="model", ashape=3)),
    ("br.condition-negated", "br", dict(n=2, conds="independent", default=False, ret=False, item=False, stage="plain", ashape=0)),
    ("fb.one-iteration-too-many", "fb", dict(T=2, ashape=0)),
    ("fb.feedback-processed-late", "fb", dict(T=3, ashape=2)),
    ("fb.generator-without-original", "fb", dict(T=1, ashape=1)),
    ("mac.user-dropped", "mac", dict(n=3, enc="list", dec="shared", ashape=0)),
    ("mac.constraint-twice", "mac", dict(n=2, enc="shared", dec="list", ashape=2)),
    ("mac.no-superposition", "mac", dict(n=3, enc="class", dec="class", ashape=0)),
    ("hist.remove-always-first", "hist", dict(kind="Configurable", init=2, L=2, ashape=0, only=["AR", "RA"])),
    ("hist.add-at-front", "hist", dict(kind="Sequential", init=1, L=2, ashape=1, only=["AA", "AR"])),
    ("hist.parallel-remove-noop", "hist", dict(kind="Parallel", init=2, L=2, ashape=0, only=["RA"])),
]


# ================================================================================================
# work items
# ================================================================================================
FAM = {"parf": (fam_parf, replay_par), "seq": (fam_seq, replay_seq), "wz": (fam_wz, replay_wz), "par": (fam_par, replay_par), "br": (fam_br, replay_br),
       "fb": (fam_fb, replay_fb), "mac": (fam_mac, replay_mac), "hist": (fam_hist, replay_hist)}


def _stats(first):
    st = _T.take()
    return dict(queries=st["queries"], solver_s=st["solver_s"]) if first else dict(queries={}, solver_s=0.0)


def work(item):
    real_classes()
    fam, rep = FAM[item["family"]]
    out = []
    mode = item.get("mode", "ob")
    for p in item["plist"]:
        if mode == "ob":
            try:
                raws = fam(dict(p), None)
            except euf.Inconclusive as e:
                out.append(ob(item["family"] + ".exploration", str(p), "inconclusive", what=str(e), **_stats(True)))
                continue
            first = True
            for r in raws:
                st = _stats(first)
                first = False
                v = r["verdict"]
                if v == "holds":
                    val = r["validated"]
                    if item["family"] in ("seq", "wz", "fb", "mac") and r["witness"] is not None:
                        # concolic agreement: the same configuration on concrete recording stages
                        rp = rep(r["witness"], None)
                        if rp["reproduced"]:
                            out.append(ob(r["clause"], r["config"], "error", what="symbolic verdict holds but the concrete run of the real class violates", note=json.dumps(rp, default=str)[:800], **st))
                            continue
                        val += 1
                    out.append(ob(r["clause"], r["config"], "holds", what=r["what"] if item["family"] in ("par", "parf", "br", "hist") else "", sample=r["sample"], paths=r["paths"], validated=val, **st))
                elif v == "violated":
                    rp = rep(dict(r["witness"], expect_violation=True), None)
                    out.append(ob(r["clause"], r["config"], "violated", what=r["what"], witness=r["witness"], replay=rp, sample=r["sample"], paths=r["paths"], validated=1, **st))
                elif v == "inconclusive":
                    out.append(ob(r["clause"], r["config"], "inconclusive", what=r["what"] or "solver returned unknown", **st))
                else:  # vacuous / mismatch
                    out.append(ob(r["clause"], r["config"], "error", what=f"{v}: {r['what']}", **st))
        elif mode == "twin":
            raws = fam(dict(p), None)
            flagged = [r for r in raws if r["verdict"] == "violated"]
            ok = bool(flagged) and not any(r["verdict"] in ("inconclusive", "vacuous", "mismatch") for r in raws)
            out.append(ob(f"selftest.must-fail-twin:{item['family']}", f"twist={p['twist']} {json.dumps({k: v for k, v in p.items() if k != 'twist'}, sort_keys=True)}",
                          "holds" if ok else "error",
                          what="" if ok else f"must-fail twin was not refuted by the solver (verdicts {[r['verdict'] for r in raws]})", paths=len(raws), **_stats(True)))
        elif mode == "mutant":
            name = item["mutant"]
            try:
                classes = mutant_classes(name)
                raws = fam(dict(p), classes)
                flagged = [r for r in raws if r["verdict"] == "violated"]
                rp = rep(dict(flagged[0]["witness"], expect_violation=True), classes) if flagged else None
                ok = bool(flagged) and bool(rp and rp["reproduced"])
                what = "" if ok else ("SILENT MUTANT: the check did not flag it" if not flagged else f"mutant flagged by the solver but the replay on the mutated class does not reproduce: {rp}")
            except LookupError as e:
                # the source line the in-memory mutant rewrites is not there (the method was edited): the self-test cannot be
                # built on this tree; that says nothing about the property, so it is reported as an open stretch item
                out.append(ob(f"selftest.mutant:{item['family']}", name, "inconclusive", what=f"self-test mutant not applicable to this source: {e}", stretch=True, **_stats(True)))
                return out
            except Exception as e:  # noqa
                ok, what, flagged = False, f"mutant self-test crashed: {type(e).__name__}: {e}", []
            out.append(ob(f"selftest.mutant:{item['family']}", name, "holds" if ok else "error", what=what,
                          sample=(flagged[0]["what"][:500] if flagged else None), paths=len(flagged), validated=1 if ok else 0, **_stats(True)))
    return out


def _chunks(lst, k):
    return [lst[i:i + k] for i in range(0, len(lst), k)]


def build_items():
    items = []

    def add(family, plist, mode="ob", **kw):
        if plist:
            items.append(dict(family=family, plist=plist, mode=mode, config=f"{family}:{mode}:{kw.get('mutant', '')}{json.dumps(plist[0], sort_keys=True)[:90]}", **kw))
    # ---- sequential pipelines ---------------------------------------------------------------------
    nmax = tier(6, 8)
    for kind in ("Sequential", "Sequential.steps_kw", "Sequential.add_step", "Configurable.add_step"):
        for stage in ("plain", "module"):
            add("seq", [dict(kind=kind, n=n, stage=stage, ashape=a) for n in range(0, nmax + 1) for a in (0, 1, 2, 3)])
    add("seq", [dict(kind="Sequential", n=n, stage="plain", ashape=2, repeat=True) for n in range(3, nmax + 1)]
        + [dict(kind=k, n=len(SEQ_ROLES[k]), ashape=a) for k in ("DeepJSCC", "ChannelCode") for a in (0, 1, 2, 3)])
    wz = []
    for q, s, c in itertools.product((0, 1), repeat=3):
        for a in (0, 2, 3):
            wz.append(dict(q=q, s=s, c=c, side="given", ashape=a))
        for a in (0, 3):
            wz.append(dict(q=q, s=s, c=c, side="correlation", ashape=a))
    add("wz", wz)
    # ---- parallel ---------------------------------------------------------------------------------------
    for n in range(1, tier(4, 6) + 1):
        wks = list(range(1, n + 1)) + [None]
        if n == 6:
            wks = [1, 3, 6, None]
        firsts = list(range(n)) if n >= 4 else [None]
        for w in wks:
            for f in firsts:
                add("par", [dict(n=n, workers=w, construct="steps", ashape=2, first=f)])
        if n <= 5:
            for c, a in (("branches", 0), ("add_step", 3), ("add_step_named", 1)):
                for f in firsts:
                    add("par", [dict(n=n, workers=None, construct=c, ashape=a, first=f)])
    # ---- parallel with failing branches: every failing subset x every completion permutation x worker counts ----
    for n in range(1, tier(3, 4) + 1):
        for w in list(range(1, n + 1)) + [None]:
            add("parf", [dict(n=n, workers=w, construct="steps", ashape=2)])
        for c, a in (("branches", 0), ("add_step", 3)):
            add("parf", [dict(n=n, workers=None, construct=c, ashape=a)])
    # ---- branching ----------------------------------------------------------------------------------------
    br = []
    for n in range(1, tier(4, 6) + 1):
        for conds in ("independent", "threshold_inc", "threshold_dec", "dup", "complement"):
            if conds in ("dup", "complement") and n < 2:
                continue
            for default, ret, item in itertools.product((True, False), repeat=3):
                for stage, a in (("plain", 0), ("plain", 2), ("model", 3)):
                    br.append(dict(n=n, conds=conds, default=default, ret=ret, item=item, stage=stage, ashape=a))
    for tb, fb_, ret, item in itertools.product((True, False), repeat=4):
        for a in (0, 3):
            br.append(dict(ctor="binary", n=1, tb=tb, fb=fb_, ret=ret, item=item, stage="model", ashape=a))
    # the default branch configured before (some of) the conditional branches
    for n in (2, 3):
        for pos in range(n):
            for conds in ("independent", "threshold_inc"):
                br.append(dict(n=n, conds=conds, default=True, default_at=pos, ret=True, item=False, stage="plain", ashape=0))
    for ch in _chunks(br, 40):
        add("br", ch)
    # ---- feedback -----------------------------------------------------------------------------------------
    add("fb", [dict(T=T, ashape=a) for T in range(0, tier(5, 8) + 1) for a in (0, 1, 2, 3)])
    # ---- multiple access ----------------------------------------------------------------------------------
    mac = []
    umax = tier(4, 6)
    for n in range(1, umax + 1):
        for enc in ("shared", "list", "class"):
            for dec in ("shared", "list1", "list", "class"):
                for a in (0, 2):
                    mac.append(dict(n=n, enc=enc, dec=dec, ashape=a))
        if n >= 2:
            mac.append(dict(n=n, enc="list_dup01", dec="list", ashape=0))
        if n >= 3:
            mac.append(dict(n=n, enc="list_dup_ends", dec="list", ashape=0))
            mac.append(dict(n=n, enc="list_dup_ends", dec="shared", ashape=2))
            mac.append(dict(n=n, enc="list_dup_last2", dec="list", ashape=0))
    for ch in _chunks(mac, 40):
        add("mac", ch)
    # ---- add/remove histories -------------------------------------------------------------------------------
    plan = tier(
        # (initial sizes, max length with all structures in one item, lengths split by 2-operation prefix)
        dict(inits=(0, 2), whole=(0, 1, 2, 3, 4), split={0: (5,), 2: ()}),
        dict(inits=(0, 1, 3), whole=(0, 1, 2, 3, 4), split={0: (5, 6, 7), 1: (5, 6, 7), 3: (5, 6)}),
    )
    for kind in ("Configurable", "Sequential", "Parallel"):
        for init in plan["inits"]:
            small = [L for L in plan["whole"] if L <= 3]
            add("hist", [dict(kind=kind, init=init, L=L, ashape=(L + init) % 4) for L in small])
            for L in plan["whole"]:
                if L > 3:
                    add("hist", [dict(kind=kind, init=init, L=L, ashape=(L + init) % 4)])
            for L in plan["split"].get(init, ()):
                plen = 2 if L <= 5 else 3
                for pre in itertools.product("AR", repeat=plen):
                    add("hist", [dict(kind=kind, init=init, L=L, ashape=(L + init) % 4, prefix="".join(pre))])
    # histories in which the same stage object sits at several positions (remove by position, not by value)
    for kind in ("Configurable", "Sequential"):
        for init in (1, 2):
            for L in tier((2, 3), (2, 3, 4)):
                add("hist", [dict(kind=kind, init=init, L=L, ashape=(L + init) % 4, dups=True)])
    # ---- must-fail twins -----------------------------------------------------------------------------------------
    twins = {
        "seq": dict(kind="Sequential", n=4, stage="plain", ashape=2),
        "wz": dict(q=1, s=0, c=1, side="given", ashape=0),
        "par": dict(n=3, workers=2, construct="steps", ashape=0, first=None),
        "parf": dict(n=2, workers=None, construct="steps", ashape=0),
        "br": dict(n=3, conds="independent", default=True, ret=False, item=False, stage="plain", ashape=0),
        "fb": dict(T=3, ashape=1),
        "mac": dict(n=3, enc="list", dec="list", ashape=0),
        "hist": dict(kind="Configurable", init=2, L=2, ashape=0, only=["RR", "AR"]),
    }
    for famname, p in twins.items():
        add(famname, [dict(p, twist="false")], mode="twin")
        if famname not in ("wz", "parf"):
            add(famname, [dict(p, twist="wrong")], mode="twin")
    # ---- mutants ---------------------------------------------------------------------------------------------------
    for name, famname, p in MUTANTS:
        add(famname, [p], mode="mutant", mutant=name)
    return items


def replay(body):
    """./check C17 --replay <file>: re-run the recorded witness on the real classes"""
    real_classes()
    w = body["witness"]
    rp = FAM[w["family"]][1](w, None)
    print(json.dumps(rp, indent=1, default=str)[:3000])
    return bool(rp["reproduced"])


def main():
    chk = Check("C17", level="model_checking")
    rc = real_classes()
    import kaira.models.generic.parallel as pm
    chk.encoded(rc["SequentialModel"].forward, rc["ConfigurableModel"].forward, rc["ConfigurableModel"].add_step, rc["ConfigurableModel"].remove_step,
                rc["DeepJSCCModel"].__init__, rc["ChannelCodeModel"].__init__, rc["WynerZivModel"].forward,
                rc["ParallelModel"].__init__, rc["ParallelModel"].forward, rc["ParallelModel"].add_step, rc["ParallelModel"].remove_step,
                rc["BranchingModel"].__init__, rc["BranchingModel"].forward, rc["BranchingModel"].add_branch, rc["BranchingModel"].set_default_branch,
                rc["FeedbackChannelModel"].forward, rc["MultipleAccessChannelModel"].__init__, rc["MultipleAccessChannelModel"]._initialize_modules,
                rc["MultipleAccessChannelModel"].forward)
    chk.bound("pipeline stages", f"0..{tier(6, 8)} (x stage kind plain/nn.Module x 4 shapes of forwarded extras x 4 construction paths); DeepJSCC 4 and ChannelCode 6 fixed roles; Wyner-Ziv 2^3 optional-stage subsets x side information given/generated")
    chk.bound("parallel branches", f"1..{tier(4, 6)}; every one of the n! completion permutations (solver-enumerated, closed by an unsat 'no other permutation' query) x max_workers 1..n and default (n=6: 1,3,6,default) x 4 construction paths")
    chk.bound("parallel failing branches", f"1..{tier(3, 4)} branches x EVERY subset of raising branches x every completion permutation (pairs solver-enumerated, closed by an unsat query) x max_workers 1..n and default x 3 construction paths; obligations: entry 'Error: <exc>' under the branch's own name, returned dict key order and aggregator input in declared order")
    chk.bound("branching", f"1..{tier(4, 6)} branches x condition structures independent / nested thresholds (increasing, decreasing) / duplicated predicate / complementary predicates x default present/absent x return_branch x tensor-like (.item()) or plain conditions; binary constructor with/without explicit branches")
    chk.bound("feedback iterations", f"0..{tier(5, 8)} x 4 shapes of forwarded extras")
    chk.bound("multiple access users", f"1..{tier(4, 6)} x encoders shared/list/class/list-with-repeated-instance x decoders shared/[joint]/list/class x 2 shapes of extras")
    chk.bound("histories", "every add/remove operation STRUCTURE (enumerated, not symbolic) of length " + tier("0..4 for initial sizes 0,2 and 5 for initial size 0", "0..5 for initial sizes 0,1,3; 6 for 0,1,3; 7 for 0,1") + "; every remove index is a symbolic integer (all feasible range-check/index paths); containers ConfigurableModel, SequentialModel, ParallelModel")
    chk.stub("concurrent.futures.as_completed inside kaira.models.generic.parallel -> waits for all futures, then yields them in the order of a permutation pi enumerated by the solver (the documented contract allows any order; the real ThreadPoolExecutor still runs the branch stubs)")
    chk.stub("stages / branch models / encoders / decoders / channels / constraints / conditions / aggregator -> uninterpreted functions and predicates over a token (Real sort), indexed by arity and keyword names; every stub counts its calls")
    chk.stub("tensor-typed tokens (torch.Tensor subclass): torch.stack+torch.sum(dim=0) -> real addition of the tokens, torch.cat(dim=1) -> uninterpreted order-sensitive CAT; any other tensor operation raises NotEncodable")
    chk.assume("superposition is modelled as exact real addition (commutative, associative); floating-point rounding of the sum order is outside the claim")
    chk.assume("stages are total and side-effect free except for the call counter; raising stages are covered for ParallelModel only (RuntimeError -> documented 'Error: <exc>' entry); duplicate branch names are outside the claim")
    chk.assume("declared order of ChannelCodeModel = order of its public `steps` list (encoder, modulator, constraint, channel, demodulator, decoder); the class docstring words the workflow as constraint-before-modulator")
    chk.assume("remove_step index validity is 0 <= i < len (negative indices are rejected by the classes and by the list model alike)")
    items = build_items()
    chk.extra["work_items"] = len(items)
    chk.extra["mutants"] = [m[0] for m in MUTANTS]
    chk.run_items(MOD, "work", items, budget_s=tier(900, 3600))
    modes = {}
    for o in chk.obs:
        if o["status"] == "violated" and o.get("replay"):
            k = (o["clause"], str(o["replay"].get("mode"))[:70], bool(o["replay"].get("reproduced")))
            modes[k] = modes.get(k, 0) + 1
    chk.extra["replays_by_mode"] = [dict(clause=k[0], mode=k[1], reproduced=k[2], count=v) for k, v in sorted(modes.items())]
    chk.finish(min_obligations=50)


if __name__ == "__main__":
    replay_main(MOD)
    main()
