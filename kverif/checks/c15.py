"""C15 — one LLR polarity everywhere: positive means bit 0, negative means bit 1."""
from __future__ import annotations

import torch
import z3
from torch.utils._python_dispatch import _disable_current_modes

from .. import sym as S
from ..catalog import modem_specs, build_modem
from ..common import Check, Tally, ob, tier, replay_main, TIER
from ..engine import fresh_bits, fresh_reals, elems
from ..harness import sym_paths, differs, decide, model_bits, real_bits, concolic, zor
from ..sym import NotEncodable

PID = "C15"
MAGS = [1e-3, 1.0, 50.0, 1e3]


def consumers():
    """name -> factory returning a callable llr_tensor(2-D: (1, n)) -> bits"""
    from kaira.models.binary import soft_bit_thresholding as T
    from kaira.models.fec import utils as U
    L = T.InputType.LLR
    out = {
        "FixedThresholder(0.0, LLR)": lambda: T.FixedThresholder(threshold=0.0, input_type=L),
        "AdaptiveThresholder(mean, LLR)": lambda: T.AdaptiveThresholder(method="mean", input_type=L),
        "LLRThresholder(hard)": lambda: T.LLRThresholder(),
        "LLRThresholder(hard, scaling=2)": lambda: T.LLRThresholder(confidence_scaling=2.0),
        "MinDistanceThresholder(LLR)": lambda: T.MinDistanceThresholder(input_type=L),
        "HysteresisThresholder(LLR)": lambda: (lambda m: (lambda x: m(x, reset_state=True)))(T.HysteresisThresholder(input_type=L)),
        "WeightedThresholder(1.0, LLR)": lambda: T.WeightedThresholder(weights=1.0, threshold=0.5, input_type=L),
        "DynamicThresholder(LLR)": lambda: (lambda m: (lambda x: m(x, reset=True)))(T.DynamicThresholder(input_type=L)),
        "Ensemble[LLR,Weighted,Hysteresis]": lambda: T.SoftBitEnsembleThresholder([T.LLRThresholder(), T.WeightedThresholder(weights=1.0, threshold=0.5, input_type=L), T.HysteresisThresholder(input_type=L)]),
        "RepetitionSoftBitDecoder(1, LLR)": lambda: T.RepetitionSoftBitDecoder(repetition_factor=1, input_type=L),
        # the same consumers configured with the documented string spelling of the input type
        "HysteresisThresholder('llr')": lambda: (lambda m: (lambda x: m(x, reset_state=True)))(T.HysteresisThresholder(input_type="llr")),
        "WeightedThresholder(1.0, 'llr')": lambda: T.WeightedThresholder(weights=1.0, threshold=0.5, input_type="llr"),
        "DynamicThresholder('llr')": lambda: (lambda m: (lambda x: m(x, reset=True)))(T.DynamicThresholder(input_type="llr")),
        "AdaptiveThresholder(mean, 'llr')": lambda: T.AdaptiveThresholder(method="mean", input_type="llr"),
        "RepetitionSoftBitDecoder(1, 'llr')": lambda: T.RepetitionSoftBitDecoder(repetition_factor=1, input_type="llr"),
        "llr_to_bits": lambda: U.llr_to_bits,
        "sign_to_bin(sign)": lambda: (lambda x: U.sign_to_bin(torch.sign(x))),
    }
    return out


def consumer_alone(item, tl):
    name = item["consumer"]
    config = f"{name} magnitudes={item['mags']}"
    obs = []
    n = len(item["mags"])

    def run(ctx):
        cons = consumers()[name]()
        b = fresh_bits("b", (1, n))
        with _disable_current_modes():
            mag = torch.tensor([item["mags"]], dtype=torch.float32)
        llr = (1 - 2 * b) * mag
        out = cons(llr)
        return dict(b=b, out=out)
    assume = []
    if item.get("mixed"):
        # a threshold relative to the batch mean can only separate the two classes when both are present
        assume = [z3.Or([z3.Bool(f"b{i}") for i in range(n)]), z3.Or([z3.Not(z3.Bool(f"b{i}")) for i in range(n)])]
    paths = sym_paths(run, assume, tl, max_paths=64)
    status, viol = "holds", None
    for ctx, R in paths:
        if R["out"].numel() != n:
            viol = dict(what=f"{R['out'].numel()} outputs for {n} LLRs", witness={"n": int(R['out'].numel())}, replay={"reproduced": True})
            status = "violated"
            break
        st, model = decide(ctx, differs(elems(R["out"]), elems(R["b"])))
        if st == "violated" and viol is None:
            bb = model_bits(model, "b", n)
            with _disable_current_modes():
                cons = consumers()[name]()
                llr = (1 - 2 * real_bits(bb, (1, n))) * torch.tensor([item["mags"]], dtype=torch.float32)
                got = [int(round(float(v))) for v in cons(llr).flatten().tolist()]
            viol = dict(what=f"LLRs {llr.flatten().tolist()} (positive = bit 0) are turned into bits {got}, expected {bb}", witness={"bits": bb, "mags": item["mags"]}, replay={"reproduced": got != bb})
            status = "violated"
        elif st == "inconclusive" and status == "holds":
            status = st
    if viol:
        obs.append(ob("consumer polarity", config, "violated", **viol, **tl.take()))
    else:
        obs.append(ob("consumer polarity", config, status, sample=dict(query="exists bits: consumer((1-2b) * magnitude) != b", magnitudes=item["mags"]), **tl.take()))
    return obs


def soft_probability(item, tl):
    """P(bit=1) == sigmoid(-LLR), monotone decreasing: on symbolic real LLRs with sigmoid as an uninterpreted function"""
    from kaira.models.binary import soft_bit_thresholding as T
    cons = T.LLRThresholder(output_type=T.OutputType.SOFT)

    def run(ctx):
        x = fresh_reals("l", (1, 2))
        return dict(x=x, p=cons(x))
    paths = sym_paths(run, [z3.Real("l0") < z3.Real("l1"), z3.Real("l0") > -1000, z3.Real("l1") < 1000], tl)
    ctx, R = paths[0]
    p = elems(R["p"])
    x = elems(R["x"])
    from .. import ops as O
    S.ENV.side, S.ENV.defined = ctx.side, ctx.defined
    from ..engine import Ctx
    Ctx.cur = ctx
    try:
        ref = [O.s_sigmoid(S.neg(v)) for v in x]
    finally:
        S.ENV.side = S.ENV.defined = None
        Ctx.cur = None
    st1, _ = decide(ctx, differs(p, ref))
    st2, _ = decide(ctx, S.zbool(S.le(p[0], p[1])))      # l0 < l1  =>  P1(l0) > P1(l1)
    st = "holds" if st1 == st2 == "holds" else ("violated" if "violated" in (st1, st2) else "inconclusive")
    return [ob("P(bit=1) = sigmoid(-LLR), monotone", "LLRThresholder(soft)", st, what="soft output is not sigmoid(-LLR) / not decreasing in the LLR" if st == "violated" else "",
               witness={"soft": True} if st == "violated" else None, replay={"reproduced": True} if st == "violated" else None,
               sample=dict(query="exists l0 < l1: out != sigmoid(-l) or out(l0) <= out(l1)"), **tl.take())]


def pair(item, tl):
    m = item["modem"]
    name = item["consumer"]
    nv = item["noise_var"]
    bps = m["bps"]
    L = 2
    shape = (1, bps * L)
    config = f"{m['name']} soft(noise_var={nv}) -> {name}"
    mod, demod = build_modem(m)
    obs = []

    def prep():
        for o in (mod, demod):
            o.eval()
            if hasattr(o, "reset_state"):
                o.reset_state()

    def run(ctx):
        prep()
        cons = consumers()[name]()
        b = fresh_bits("b", shape)
        y = mod(b)
        llr = demod(y, nv)
        out = cons(llr)
        return dict(b=b, llr=llr, out=out)
    try:
        paths = sym_paths(run, (), tl, max_paths=64, state=(mod, demod))
    except (RuntimeError, ValueError, IndexError, TypeError) as e:
        if isinstance(e, NotEncodable):
            raise
        return [ob("producer x consumer", config, "violated", what=f"raises: {type(e).__name__}: {str(e)[:100]}", witness={"raises": True}, replay={"reproduced": True}, **tl.take())]
    from .c05 import expected
    status, viol = "holds", None
    for ctx, R in paths:
        exp = [e for row in expected(m, elems(R["b"]), shape, bps) for e in row]
        out = elems(R["out"])
        if len(out) != len(exp):
            viol = dict(what=f"{len(out)} bits out, expected {len(exp)}", witness={"len": len(out)}, replay={"reproduced": True})
            status = "violated"
            break
        prs = [(o, e) for o, e in zip(out, exp) if e is not None]
        st, model = decide(ctx, differs([p[0] for p in prs], [p[1] for p in prs]))
        if st == "violated" and viol is None:
            bb = model_bits(model, "b", shape[1])
            with _disable_current_modes():
                prep()
                cons = consumers()[name]()
                llr = demod(mod(real_bits(bb, shape)), nv)
                got = [int(round(float(v))) for v in cons(llr).flatten().tolist()]
            ec = [e for row in expected(m, bb, shape, bps) for e in row]
            rep = any(e is not None and g != e for g, e in zip(got, ec))
            viol = dict(what=f"bits {bb} -> noise-free LLRs {['%.3g' % v for v in llr.flatten().tolist()]} -> consumer gives {got}", witness={"bits": bb}, replay={"reproduced": rep})
            status = "violated"
        elif st == "inconclusive" and status == "holds":
            status = st
    if viol:
        obs.append(ob("producer x consumer", config, "violated", **viol, **tl.take()))
    else:
        obs.append(ob("producer x consumer", config, status, sample=dict(query="exists bits: consumer(soft_demod(mod(bits), noise_var)) != bits"), **tl.take()))
    return obs


def work(item):
    from .. import ops as O
    O.AUTO_TABLE = True
    tl = Tally()
    try:
        if item.get("selftest"):
            from kaira.models.binary import soft_bit_thresholding as T
            orig = T.LLRThresholder.forward
            T.LLRThresholder.forward = lambda self, x, *a, **k: ((x * self.confidence_scaling) > self.threshold).float()
            try:
                obs = consumer_alone(dict(consumer="LLRThresholder(hard)", mags=[1.0, 50.0]), tl)
            finally:
                T.LLRThresholder.forward = orig
            hit = any(o["status"] == "violated" and o["replay"]["reproduced"] for o in obs)
            return [ob("selftest:llr-thresholder-inverted", "selftest", "holds" if hit else "error", what="" if hit else "mutant not flagged")]
        return {"alone": consumer_alone, "soft": soft_probability, "pair": pair}[item["type"]](item, tl)
    except NotEncodable as e:
        return [ob("harness", item["config"], "error", what=f"NotEncodable: {e}")]


# HysteresisThresholder is not paired with demodulators: it has a dead zone of +-hysteresis around the threshold by
# design, and a noise-free LLR of a dense constellation (or of any constellation at noise_var = 1e3) lies inside it;
# its polarity is decided by the consumer-alone clause on |LLR| >= 1 (false alarm corrected, DESIGN §11)
PAIR_CONSUMERS = ["LLRThresholder(hard)", "llr_to_bits", "WeightedThresholder(1.0, LLR)", "RepetitionSoftBitDecoder(1, LLR)"]


def all_items():
    items = []
    for name in consumers():
        relative = any(k in name for k in ("Hysteresis", "Dynamic", "Adaptive", "Ensemble"))
        for mags in (([1.0, 50.0, 1e3], [50.0, 50.0, 50.0]) if relative else ([1e-3, 1.0, 50.0], [1e3, 1e-3, 1e3])):
            items.append(dict(type="alone", consumer=name, mags=mags, mixed=("Adaptive" in name), config=f"{name} magnitudes={mags}"))
    items.append(dict(type="soft", config="LLRThresholder(soft)"))
    ms = [m for m in modem_specs(max_order=tier(16, 64)) if m["name"] != "Identity" and m["name"] != "BPSK(real)"]
    if TIER == "quick":
        keep = {"BPSK", "QPSK(normalize=True)", "PSK8(gray=True)", "QAM16(gray=True,normalize=True)", "PAM4(gray=True,normalize=True)", "PAM8(gray=False,normalize=False)",
                "DPSK4(gray=False)", "DBPSK", "OQPSK(normalize=True)", "Pi4QPSK(gray_coded=False)", "QAM4(gray=True,normalize=True)", "PSK4(gray=True)", "PAM2(gray=False,normalize=True)", "PAM4(gray=False,normalize=False)", "PSK8(gray=False)", "QAM16(gray=False,normalize=False)"}
        ms = [m for m in ms if m["name"] in keep]
    for m in ms:
        for nv in (1e-3, 1.0, 1e3) if TIER == "thorough" else (1.0,):
            for cn in (PAIR_CONSUMERS if TIER == "thorough" else PAIR_CONSUMERS[:2]):
                items.append(dict(type="pair", modem=m, consumer=cn, noise_var=nv, config=f"{m['name']} soft(noise_var={nv}) -> {cn}"))
    items.append(dict(selftest=True, config="selftest"))
    return items


def replay(body):
    for it in all_items():
        if it.get("config") == body["config"]:
            obs = work(it)
            return any(o["status"] == "violated" and o["replay"]["reproduced"] for o in obs)
    return False


def main():
    replay_main(__name__)
    ck = Check(PID)
    items = all_items()
    from kaira.models.binary import soft_bit_thresholding as T
    from kaira.models.fec import utils as U
    import kaira.modulations as MM
    ck.encoded(T.FixedThresholder.forward, T.AdaptiveThresholder.forward, T.LLRThresholder.forward, T.MinDistanceThresholder.forward, T.HysteresisThresholder.forward, T.WeightedThresholder.forward,
               T.DynamicThresholder.forward, T.SoftBitEnsembleThresholder.forward, T.RepetitionSoftBitDecoder.forward, U.llr_to_bits, U.sign_to_bin,
               MM.BPSKDemodulator.forward, MM.QPSKDemodulator.forward, MM.PSKDemodulator.forward, MM.QAMDemodulator.forward, MM.PAMDemodulator.forward, MM.DPSKDemodulator.forward,
               MM.OQPSKDemodulator.forward, MM.Pi4QPSKDemodulator.forward)
    ck.bound("consumers", "LLR vectors (1-2b) x magnitude with symbolic bits b and magnitudes from the grid {1e-3, 1, 50, 1e3} (two mixes), 3 positions; all bit patterns per query")
    ck.bound("pairs", f"soft demodulators of the catalogue (orders <= {tier(16, 64)}) x LLR consumers, L = 2 symbols, noise_var in {{1}} (quick) / {{1e-3, 1, 1e3}} (thorough); all bit sequences per query")
    ck.assume("thresholders with a dead zone or a data-relative threshold (hysteresis, dynamic, adaptive, ensembles of them) are exercised with |LLR| >= 1, the adaptive one additionally with both bit values present in the batch")
    ck.assume("finite-table domain: leaves computed by torch (exact float32); soft-input decoders as consumers are covered by the clean-LLR clauses of C10 / C11 (same polarity convention (1-2c) x magnitude)")
    ck.run_items(__name__, "work", items)
    ck.finish(min_obligations=30)


if __name__ == "__main__":
    main()
