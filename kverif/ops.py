"""ATen op semantics over symbolic scalars (the value side of E1). Geometry always comes from running
the same op on meta tensors; an op without semantics raises NotEncodable (harness error, never a
silent concretisation)."""
from __future__ import annotations

import itertools
import math

import numpy as np
import torch
import z3
from torch.utils._python_dispatch import TorchDispatchMode, _disable_current_modes
from torch.utils._pytree import tree_map, tree_flatten

from . import sym as S
from .sym import NotEncodable
from . import gtab as GT
from .engine import (Ctx, SymTensor, Storage, mkmeta, from_arr, from_real, to_real, is_concrete,
                     norm_scalar, SymScalar, _CONC)

OPS_SEEN = {}

VIEW_OPS = {
    "aten.view.default", "aten._unsafe_view.default", "aten.select.int", "aten.transpose.int",
    "aten.expand.default", "aten.squeeze.dim", "aten.squeeze.default", "aten.squeeze.dims",
    "aten.unsqueeze.default", "aten.unbind.int", "aten.slice.Tensor", "aten.t.default",
    "aten.permute.default", "aten.detach.default", "aten.alias.default", "aten.as_strided.default",
    "aten.split.Tensor", "aten.split_with_sizes.default", "aten.diagonal.default", "aten.unfold.default",
    "aten.narrow.default", "aten.view_as.default", "aten.reshape.default", "aten.movedim.int",
    "aten.lift_fresh.default", "aten.chunk.default", "aten._reshape_alias.default",
}

RANDOM_OPS = {"aten.randn.default", "aten.randn_like.default", "aten.rand.default", "aten.rand_like.default",
              "aten.normal_.default", "aten.uniform_.default", "aten.randn.generator", "aten.rand.generator",
              "aten.bernoulli.default", "aten.bernoulli.p", "aten.poisson.default", "aten.randint.low",
              "aten.randint.default", "aten.randperm.default", "aten.normal.Tensor_Tensor",
              "aten.normal.float_float", "aten.exponential_.default"}


def _sc(x):
    """python scalar or SymScalar -> sym scalar"""
    return x.v if isinstance(x, SymScalar) else x


def vec(f, *arrs, otypes=None):
    bs = np.broadcast_arrays(*[a if isinstance(a, np.ndarray) else np.asarray(a, dtype=object) for a in arrs])
    out = np.empty(bs[0].shape, dtype=object)
    its = [b.reshape(-1) for b in bs]
    o = out.reshape(-1)
    for i in range(o.shape[0]):
        o[i] = f(*[it[i] for it in its])
    return out


def A(x):
    """SymTensor / scalar -> numpy object array (0-d for scalars); finite tables become case lists here,
    because this accessor is only used on the scalar (non-table) execution path"""
    if isinstance(x, SymTensor):
        a = x.arr()
        if x.storage_.sym and any(type(v) is GT.G for v in a.reshape(-1)):
            b = np.empty(a.shape, dtype=object)
            fb, fa = b.reshape(-1), a.reshape(-1)
            for i in range(fa.shape[0]):
                fb[i] = fa[i].cases() if type(fa[i]) is GT.G else fa[i]
            return b
        return a
    x = _sc(x)
    a = np.empty((), dtype=object)
    a[()] = x
    return a


def AK(x):
    """like A() but keeps finite-table elements as they are (for handlers that only move elements)"""
    if isinstance(x, SymTensor):
        return x.arr()
    return A(x)


def _wrapped_number(x):
    """true when x behaves like a python scalar in type promotion (0-dim handled by torch meta anyway)"""
    return not isinstance(x, SymTensor)


# ------------------------------------------------------------------------------------------------
# transcendental functions of symbolic reals: uninterpreted functions with sound axioms
# ------------------------------------------------------------------------------------------------
_UF = {}
_UF_TERMS = {}


def _uf(name):
    if name not in _UF:
        _UF[name] = z3.Function("uf_" + name, z3.RealSort(), z3.RealSort())
    return _UF[name]


def _torch1(fn, x, dtype=torch.float64):
    with _disable_current_modes():
        return fn(torch.tensor(x, dtype=dtype)).item()


def uf_apply(name, x, concrete_fn):
    """apply transcendental `name` to scalar x"""
    if not S._is_sym(x):
        return concrete_fn(x)
    if isinstance(x, S.Cases):
        return x.map(lambda v: uf_apply(name, v, concrete_fn))
    if isinstance(x, S.Cx):
        raise NotEncodable(f"{name} of a symbolic complex")
    p = S.topoly(x)
    xe = S.poly_z3(p, False)
    f = _uf(name)
    t = f(xe)
    ctx = Ctx.cur
    key = (name, S.ENV.serial)
    terms = _UF_TERMS.setdefault(key, [])
    if not any(xe.eq(u) for u, _ in terms):
        zero = z3.RealVal(0)
        ax = []
        if name in ("tanh", "atanh", "sinh", "tan_odd"):
            ax += [z3.Implies(xe > 0, t > 0), z3.Implies(xe < 0, t < 0), z3.Implies(xe == 0, t == 0)]
            ax += [f(-xe) == -t]
            if name == "tanh":
                ax += [t < 1, t > -1, z3.Implies(xe > 0, t < xe), z3.Implies(xe < 0, t > xe)]
            if name == "atanh":
                ax += [z3.Implies(xe > 0, t > xe), z3.Implies(xe < 0, t < xe)]
        elif name == "sigmoid":
            ax += [t > 0, t < 1, z3.Implies(xe > 0, t > z3.RealVal("1/2")), z3.Implies(xe < 0, t < z3.RealVal("1/2")),
                   z3.Implies(xe == 0, t == z3.RealVal("1/2")), f(-xe) == 1 - t]
        elif name in ("exp", "pow10", "pow2"):
            ax += [t > 0, z3.Implies(xe > 0, t > 1), z3.Implies(xe < 0, t < 1), z3.Implies(xe == 0, t == 1)]
        elif name in ("log", "log10", "log2"):
            ax += [z3.Implies(xe > 1, t > 0), z3.Implies(xe < 1, t < 0), z3.Implies(xe == 1, t == 0)]
            S.add_defined(xe > 0)
        # strict monotonicity against earlier terms of the same function (all listed functions are increasing)
        for u, tu in terms:
            ax.append(z3.And(z3.Implies(u < xe, tu < t), z3.Implies(u > xe, tu > t), z3.Implies(u == xe, tu == t)))
        # inverse pairs
        inv = {"pow10": "log10", "log10": "pow10", "exp": "log", "log": "exp", "pow2": "log2", "log2": "pow2",
               "tanh": "atanh", "atanh": "tanh"}.get(name)
        if inv:
            g = _uf(inv)
            if name in ("pow10", "exp", "pow2", "tanh"):
                ax.append(g(t) == xe)
            elif name in ("log10", "log", "log2"):
                ax.append(z3.Implies(xe > 0, g(t) == xe))
            else:
                ax.append(z3.Implies(z3.And(xe > -1, xe < 1), g(t) == xe))
        for a in ax:
            S.add_side(a)
        terms.append((xe, t))
    r = S.topoly(t)
    S._DEFS[S._single_atom(r)] = ("uf", name, p)
    return r


def _pyfloat(f):
    return lambda v: f(float(v))


def uf_cossin(x):
    """(cos x, sin x) of a real scalar; symbolic arguments give two uninterpreted terms tied by cos^2 + sin^2 = 1"""
    if not S._is_sym(x):
        return math.cos(float(x)), math.sin(float(x))
    if isinstance(x, S.Cases):
        return x.map(lambda v: uf_cossin(v)[0]), x.map(lambda v: uf_cossin(v)[1])
    p = S.topoly(x)
    key = ("cossin", S.ENV.serial, frozenset(p.t.items()))
    if key in S._PURE:
        return S._PURE[key]
    if len(p.t) == 1:
        (m, c), = p.t.items()
        if c == 1 and len(m) == 1 and m[0][1] == 1 and S._DEFS.get(m[0][0], ("",))[0] == "angle":
            # cos / sin of angle(z) are algebraic: re/|z| and im/|z|
            _, re, im = S._DEFS[m[0][0]]
            r = S.sqrt(S.add(S.mul(re, re), S.mul(im, im)))
            out = (S.topoly(S.div(re, r)), S.topoly(S.div(im, r)))
            S._PURE[key] = out
            return out
    # two fresh reals per syntactically distinct argument (an over-approximation of the two functions: sound for
    # 'holds'; a spurious model is filtered by the replay)
    c, sn = S.fresh_real("cos"), S.fresh_real("sin")
    xe = S.poly_z3(p, False)
    S.add_side(c * c + sn * sn == 1, defines=[c, sn])
    S.add_side(z3.Implies(xe == 0, z3.And(c == 1, sn == 0)), defines=[c, sn])
    pc, ps = S.topoly(c), S.topoly(sn)
    S._DEFS[S._single_atom(pc)] = ("cos", p, ps)
    S._DEFS[S._single_atom(ps)] = ("sin", p, pc)
    S._PURE[key] = (pc, ps)
    return pc, ps


def s_exp(x):
    if isinstance(x, (S.Cx, complex)):
        x = S.tocx(x)
        mag = s_exp(x.re) if S._is_sym(x.re) or x.re != 0 else 1.0
        c, sn = uf_cossin(x.im)
        return S.Cx(S.mul(mag, c), S.mul(mag, sn))
    return uf_apply("exp", x, _pyfloat(math.exp))


def s_log(x):
    return uf_apply("log", x, lambda v: math.log(v) if v > 0 else (-math.inf if v == 0 else math.nan))


def s_log10(x):
    return uf_apply("log10", x, lambda v: math.log10(v) if v > 0 else (-math.inf if v == 0 else math.nan))


def s_log2(x):
    return uf_apply("log2", x, lambda v: math.log2(v) if v > 0 else (-math.inf if v == 0 else math.nan))


def s_tanh(x):
    return uf_apply("tanh", x, _pyfloat(math.tanh))


def s_atanh(x):
    return uf_apply("atanh", x, lambda v: math.atanh(v) if -1 < v < 1 else (math.copysign(math.inf, v) if abs(v) == 1 else math.nan))


def s_sigmoid(x):
    return uf_apply("sigmoid", x, lambda v: _torch1(torch.sigmoid, v))


def s_pow_base(base, x):
    """base ** x for concrete base, symbolic exponent"""
    if not S._is_sym(x):
        return base ** x
    if base == 10:
        return uf_apply("pow10", x, lambda v: 10.0 ** v)
    if base == 2:
        return uf_apply("pow2", x, lambda v: 2.0 ** v)
    if base == math.e:
        return s_exp(x)
    raise NotEncodable(f"{base} ** symbolic")


def s_round(x):
    if isinstance(x, S.Poly):
        # round(sigmoid(t)) = [t > 0]  (sigmoid(0) = 1/2 rounds to even = 0, as torch does)
        if len(x.t) == 1:
            (m, c), = x.t.items()
            if c == 1 and len(m) == 1 and m[0][1] == 1:
                a = S._ATOM_BY_ID[m[0][0]]
                if a.kind == "num" and z3.is_app(a.p) and a.p.decl().name() == "uf_sigmoid":
                    return S.mkbx(a.p.arg(0) > 0)
    return S.round_(x)


UNARY = {
    "aten.neg.default": S.neg, "aten.abs.default": S.absv, "aten.sign.default": S.sign, "aten.sgn.default": S.sign,
    "aten.sqrt.default": S.sqrt, "aten.reciprocal.default": S.reciprocal,
    "aten.rsqrt.default": lambda x: S.div(1.0, S.sqrt(x)),
    "aten.log1p.default": (lambda x: s_log(S.add(1.0, x))), "aten.expm1.default": (lambda x: S.sub(s_exp(x), 1.0)),
    "aten.exp.default": s_exp, "aten.log.default": s_log, "aten.log10.default": s_log10, "aten.log2.default": s_log2,
    "aten.tanh.default": s_tanh, "aten.atanh.default": s_atanh, "aten.sigmoid.default": s_sigmoid,
    "aten.round.default": s_round, "aten.floor.default": S.round_, "aten.ceil.default": S.round_, "aten.trunc.default": S.round_,
    "aten.logical_not.default": lambda x: S.bnot(S.tobit(x)),
    "aten.square.default": S.square,
    "aten.relu.default": lambda x: S.maximum(x, 0.0),
    "aten.isnan.default": lambda x: False if S._is_sym(x) else (isinstance(x, float) and math.isnan(x)),
    "aten.isinf.default": lambda x: False if S._is_sym(x) else (isinstance(x, float) and math.isinf(x)),
    "aten.isfinite.default": lambda x: True if S._is_sym(x) else not (isinstance(x, float) and (math.isnan(x) or math.isinf(x))),
    "aten.positive.default": lambda x: x,
    "aten.conj_physical.default": lambda x: S.Cx(x.re, S.neg(x.im)) if isinstance(x, S.Cx) else x,
    "aten.nan_to_num.default": lambda x: x,
}


def _bitop(name):
    def f(a, b):
        ca, cb = not S._is_sym(a), not S._is_sym(b)
        if ca and cb:
            if isinstance(a, bool) and isinstance(b, bool):
                return {"and": a and b, "or": a or b, "xor": a != b}[name]
            return {"and": int(a) & int(b), "or": int(a) | int(b), "xor": int(a) ^ int(b)}[name]
        if S.is_bitlike(a) and S.is_bitlike(b):
            return {"and": S.band, "or": S.bor, "xor": S.bxor}[name](a, b)
        if name == "or" or name == "xor":
            # disjoint bit fields: a | b == a + b when no bit position is shared; decided syntactically
            fa, fb = _bitfield(a), _bitfield(b)
            if fa is not None and fb is not None and not (fa & fb):
                return S.add(a, b)
        if name == "and" and cb and isinstance(b, int) and not isinstance(b, bool):
            fa = _bitfield_terms(a)
            if fa is not None:
                acc = 0
                for pw, term in fa:
                    if (b >> pw) & 1:
                        acc = S.add(acc, term)
                return acc
        raise NotEncodable(f"bitwise_{name} on symbolic non-bit operands")
    return f


def _bitfield_terms(x):
    """x = sum_i 2^{p_i} * bit_i (+ const) with distinct powers -> [(p_i, term)] or None"""
    if not S._is_sym(x):
        if isinstance(x, (bool, int)):
            x = int(x)
            return [(i, 1 << i) for i in range(x.bit_length()) if (x >> i) & 1]
        return None
    if S.is_bitlike(x):
        return [(0, x)]
    if not isinstance(x, S.Poly):
        return None
    out = []
    seen = set()
    for m, c in x.t.items():
        if c.denominator != 1 or c.numerator <= 0:
            return None
        n = c.numerator
        if m == ():
            for i in range(n.bit_length()):
                if (n >> i) & 1:
                    if i in seen:
                        return None
                    seen.add(i)
                    out.append((i, 1 << i))
            continue
        if n & (n - 1):
            return None
        if len(m) != 1 or S._ATOM_BY_ID[m[0][0]].kind != "bit":
            return None
        i = n.bit_length() - 1
        if i in seen:
            return None
        seen.add(i)
        out.append((i, S._simp(S.Poly({m: c}))))
    return out


def _bitfield(x):
    t = _bitfield_terms(x)
    return None if t is None else {p for p, _ in t}


def _pow_ts(a, k):
    k = _sc(k)
    if S._is_sym(k):
        raise NotEncodable("symbolic exponent")
    return S.powi(a, k)


def _fmod(a, b):
    if not S._is_sym(a) and not S._is_sym(b):
        return math.fmod(a, b)
    return S.remainder(a, b)


def _floor_divide(a, b):
    if not S._is_sym(a) and not S._is_sym(b):
        return a // b
    if S._is_sym(b):
        raise NotEncodable("floor_divide by symbolic")
    return S.floordiv(a, b)


def _div_mode(a, b, rounding_mode=None):
    if rounding_mode is None:
        return S.div(a, b)
    if rounding_mode == "floor":
        return _floor_divide(a, b)
    if not S._is_sym(a) and not S._is_sym(b):
        return float(math.trunc(a / b)) if isinstance(a, float) or isinstance(b, float) else int(a / b)
    raise NotEncodable("div trunc on symbolic")


def _shift(a, k):
    if not S._is_sym(a) and not S._is_sym(k):
        return int(a) << int(k)
    if S._is_sym(k):
        raise NotEncodable("shift by symbolic")
    return S.mul(a, 1 << int(k))


def _rshift(a, k):
    if not S._is_sym(a) and not S._is_sym(k):
        return int(a) >> int(k)
    raise NotEncodable("right shift of symbolic")


BINARY = {
    "aten.mul.Tensor": S.mul, "aten.mul.Scalar": S.mul,
    "aten.div.Tensor": S.div, "aten.div.Scalar": S.div, "aten.true_divide.Tensor": S.div,
    "aten.eq.Scalar": S.eq, "aten.eq.Tensor": S.eq, "aten.ne.Scalar": S.ne, "aten.ne.Tensor": S.ne,
    "aten.lt.Scalar": S.lt, "aten.lt.Tensor": S.lt, "aten.le.Scalar": S.le, "aten.le.Tensor": S.le,
    "aten.gt.Scalar": S.gt, "aten.gt.Tensor": S.gt, "aten.ge.Scalar": S.ge, "aten.ge.Tensor": S.ge,
    "aten.minimum.default": S.minimum, "aten.maximum.default": S.maximum,
    "aten.fmin.default": S.minimum, "aten.fmax.default": S.maximum,
    "aten.bitwise_and.Tensor": _bitop("and"), "aten.bitwise_or.Tensor": _bitop("or"), "aten.bitwise_xor.Tensor": _bitop("xor"),
    "aten.bitwise_and.Scalar": _bitop("and"), "aten.bitwise_or.Scalar": _bitop("or"), "aten.bitwise_xor.Scalar": _bitop("xor"),
    "aten.logical_and.default": lambda a, b: S.band(S.tobit(a), S.tobit(b)),
    "aten.logical_or.default": lambda a, b: S.bor(S.tobit(a), S.tobit(b)),
    "aten.logical_xor.default": lambda a, b: S.bxor(S.tobit(a), S.tobit(b)),
    "aten.remainder.Scalar": S.remainder, "aten.remainder.Tensor": S.remainder,
    "aten.fmod.Scalar": _fmod, "aten.fmod.Tensor": _fmod,
    "aten.floor_divide.default": _floor_divide, "aten.floor_divide.Scalar": _floor_divide,
    "aten.pow.Tensor_Scalar": _pow_ts,
    "aten.pow.Tensor_Tensor": _pow_ts,
    "aten.__lshift__.Scalar": _shift, "aten.__lshift__.Tensor": _shift,
    "aten.__rshift__.Scalar": _rshift, "aten.__rshift__.Tensor": _rshift,
    "aten.complex.default": lambda a, b: S.Cx(a, b),
    "aten.clamp_min.default": lambda a, lo: S.maximum(a, lo), "aten.clamp_max.default": lambda a, hi: S.minimum(a, hi),
    "aten.clamp_min.Tensor": lambda a, lo: S.maximum(a, lo), "aten.clamp_max.Tensor": lambda a, hi: S.minimum(a, hi),
    "aten.xlogy.Tensor": None,
}


def _bool_add(a, b):
    return S.bor(a, b)


# ------------------------------------------------------------------------------------------------
# reductions
# ------------------------------------------------------------------------------------------------
def _fold(f, xs, init=None):
    it = iter(xs)
    acc = next(it) if init is None else init
    for x in it:
        acc = f(acc, x)
    return acc


def r_sum(xs):
    ps = [x for x in xs]
    if all(not S._is_sym(x) for x in ps):
        return math.fsum(ps) if any(isinstance(x, float) for x in ps) else sum(ps)
    if any(isinstance(x, (S.Cx, complex)) for x in ps):
        return _fold(S.add, ps)
    # one normal form instead of n incremental ones
    acc = {}
    rest = []
    for x in ps:
        if isinstance(x, S.Cases):
            rest.append(x)
            continue
        p = S.topoly(x)
        for m, c in p.t.items():
            v = acc.get(m, 0) + c
            if v == 0:
                acc.pop(m, None)
            else:
                acc[m] = v
    r = S._simp(S.Poly(acc))
    for x in rest:
        r = S.add(r, x)
    return r


def r_prod(xs):
    return _fold(S.mul, xs)


def r_any(xs):
    return _fold(S.bor, [S.tobit(x) for x in xs], False)


def r_all(xs):
    return _fold(S.band, [S.tobit(x) for x in xs], True)


def r_min(xs):
    return _fold(S.minimum, xs)


def r_max(xs):
    return _fold(S.maximum, xs)


def r_argbest(xs, better):
    """index of the first best element (torch returns the first occurrence for exact ties on CPU)"""
    n = len(xs)
    if all(not S._is_sym(x) for x in xs):
        best = 0
        for i in range(1, n):
            if better(xs[i], xs[best]) is True:
                best = i
        return best
    # pairwise strict comparisons computed once: lt[i][j] = better(xs[i], xs[j])
    cache = {}

    def b(i, j):
        if (i, j) not in cache:
            cache[(i, j)] = better(xs[i], xs[j])
        return cache[(i, j)]
    cases = []
    for i in range(n):
        conj = []
        dead = False
        for j in range(n):
            if j == i:
                continue
            # i wins against j: strictly better if j comes before i, at least as good otherwise
            c = b(i, j) if j < i else S.bnot(b(j, i))
            if type(c) in _CONC:
                if not c:
                    dead = True
                    break
                continue
            conj.append(S.zbool(c))
        if dead:
            continue
        g = True if not conj else S.BX(z3.And(conj) if len(conj) > 1 else conj[0])
        cases.append((g, i))
    return S.mkcases(cases)


def r_argmin(xs):
    return r_argbest(xs, S.lt)


def r_argmax(xs):
    return r_argbest(xs, S.gt)


def reduce_dims(a, dims, keepdim, f):
    """a: numpy object array; dims: list of axes or None (all)"""
    nd = a.ndim
    if dims is None or (isinstance(dims, (list, tuple)) and len(dims) == 0):
        dims = list(range(nd))
    if isinstance(dims, int):
        dims = [dims]
    dims = sorted({d % nd if nd else 0 for d in dims}) if nd else []
    if nd == 0:
        out = np.empty((), dtype=object)
        out[()] = f([a[()]])
        return out
    keep = [d for d in range(nd) if d not in dims]
    b = np.transpose(a, keep + dims)
    kshape = tuple(a.shape[d] for d in keep)
    b = b.reshape(kshape + (-1,)) if b.size or True else b
    out = np.empty(kshape, dtype=object)
    for idx in np.ndindex(*kshape):
        out[idx] = f(list(b[idx]))
    if keepdim:
        shp = [1 if d in dims else a.shape[d] for d in range(nd)]
        out = out.reshape(shp)
    return out


# ------------------------------------------------------------------------------------------------
# the mode
# ------------------------------------------------------------------------------------------------
class SymMode(TorchDispatchMode):
    def __torch_dispatch__(self, func, types, args=(), kwargs=None):
        kwargs = kwargs or {}
        name = str(func)
        OPS_SEEN[name] = OPS_SEEN.get(name, 0) + 1
        return dispatch(func, name, args, kwargs)


def _sub_dispatch(cls, func, types, args=(), kwargs=None):
    name = str(func)
    OPS_SEEN[name] = OPS_SEEN.get(name, 0) + 1
    return dispatch(func, name, args, kwargs or {})


SymTensor.__torch_dispatch__ = classmethod(_sub_dispatch)


def _to_sym(a):
    if isinstance(a, torch.Tensor) and not isinstance(a, SymTensor):
        return from_real(a)
    return a


def _to_meta(a):
    if isinstance(a, SymTensor):
        return a.meta
    if isinstance(a, SymScalar):
        return 1.0 if not S.is_bitlike(a.v) and not (isinstance(a.v, S.Poly) and a.v.is_int) else 1
    if isinstance(a, torch.device):
        return torch.device("meta")
    return a


def run_meta(func, args, kwargs):
    margs = tree_map(_to_meta, args)
    mkw = tree_map(_to_meta, kwargs)
    if "device" in mkw and mkw["device"] is not None:
        mkw = dict(mkw, device="meta")
    with _disable_current_modes():
        return func(*margs, **mkw)


def out_like(arr, mout):
    return from_arr(arr, mout.dtype, tuple(mout.shape))


def _stub_random(name, func, args, kwargs):
    ctx = Ctx.cur
    if name in ("aten.normal_.default", "aten.uniform_.default", "aten.exponential_.default"):
        t = args[0]
        kind = "normal" if "normal" in name else "uniform"
        if kind == "uniform" and len(args) > 1 and (args[1] != 0 or (len(args) > 2 and args[2] != 1)):
            raise NotEncodable("uniform_ with non-unit range")
        if name == "aten.exponential_.default":
            raise NotEncodable("exponential_")
        vals = _draw(ctx, kind, t.meta.numel(), t.dtype)
        a = t.arr()
        a[...] = np.asarray(vals, dtype=object).reshape(a.shape) if a.ndim else vals[0]
        t.storage_.sym = True
        return t
    mout = run_meta(func, args, kwargs)
    if name.startswith("aten.randn") or name.startswith("aten.normal"):
        kind = "normal"
    elif name.startswith("aten.rand.") or name.startswith("aten.rand_like"):
        kind = "uniform"
    else:
        raise NotEncodable(f"random op {name} has no stub")
    vals = _draw(ctx, kind, mout.numel(), mout.dtype)
    return out_like(np.asarray(vals + [None], dtype=object)[:-1].reshape(tuple(mout.shape)), mout)


def _draw(ctx, kind, n, dtype):
    if ctx is None:
        raise NotEncodable("random op outside a path context")
    out = []
    for _ in range(n):
        i = len(ctx.rng_log)
        if dtype.is_complex:
            # torch draws complex normals with variance 1/2 per component; expose unit draws g and scale
            if kind != "normal":
                raise NotEncodable("complex uniform draw")
            gr, gi = z3.Real(f"rng{i}r"), z3.Real(f"rng{i}i")
            ctx.rng_log.append((kind + "_complex", (gr, gi)))
            raise NotEncodable("complex randn (use real draws)")
        g = z3.Real(f"rng{i}")
        ctx.rng_log.append((kind, g))
        if kind == "uniform":
            ctx.side.append(g >= 0)
            ctx.side.append(g < 1)
        out.append(S.topoly(g))
    return out


def dispatch(func, name, args, kwargs):
    r = _dispatch(func, name, args, kwargs)
    if func._schema.is_mutable and args and isinstance(args[0], SymTensor) and getattr(args[0], "_cx_link", None) is not None:
        rv, cb = args[0]._cx_link
        ra, ca = rv.arr(), cb.arr()
        for idx in np.ndindex(*ca.shape):
            ca[idx] = S.Cx(ra[idx + (0,)], ra[idx + (1,)])
    return r


def _dispatch(func, name, args, kwargs):
    if name in RANDOM_OPS:
        args = tree_map(_to_sym, args)
        return _stub_random(name, func, args, kwargs)
    flat, _ = tree_flatten((args, kwargs))
    has_tensor = any(isinstance(a, torch.Tensor) for a in flat)
    has_symscalar = any(isinstance(a, SymScalar) for a in flat)
    if not has_tensor and not has_symscalar:
        # factory call with concrete arguments: run for real
        kw = dict(kwargs)
        with _disable_current_modes():
            r = func(*args, **kw)
        return tree_map(_to_sym, r)
    sch0 = func._schema
    if sch0.is_mutable and not has_symscalar and not any(isinstance(a, SymTensor) for a in flat):
        # in-place op on ordinary tensors with concrete operands (e.g. module state counters): run it for real
        with _disable_current_modes():
            return func(*args, **kwargs)
    if sch0.is_mutable and isinstance(args[0], torch.Tensor) and not isinstance(args[0], SymTensor):
        raise NotEncodable(f"{name}: symbolic value written in place into an ordinary tensor (wrap the module state first)")
    args = tree_map(_to_sym, args)
    kwargs = tree_map(_to_sym, kwargs)
    h = HANDLERS.get(name)
    if h is not None and getattr(h, "pre_meta", False):
        return h(func, args, kwargs)
    # fast path: functional op on fully concrete operands -> the real kernel
    sch = func._schema
    if not has_symscalar and not sch.is_mutable and name not in VIEW_OPS and name not in NO_FAST:
        syms = [a for a in tree_flatten((args, kwargs))[0] if isinstance(a, SymTensor)]
        if all(is_concrete(a) for a in syms) and not any(r.alias_info is not None for r in sch.returns):
            rargs = tree_map(lambda a: to_real(a) if isinstance(a, SymTensor) else a, args)
            rkw = tree_map(lambda a: to_real(a) if isinstance(a, SymTensor) else a, kwargs)
            with _disable_current_modes():
                r = func(*rargs, **rkw)
            return tree_map(_to_sym, r)
    if name in VIEW_OPS:
        mout = run_meta(func, args, kwargs)
        base = args[0]

        def mkview(m):
            v = SymTensor(base.storage_, m)
            if getattr(base, "_cx_link", None) is not None:
                v._cx_link = base._cx_link
            return v
        return tree_map(lambda m: mkview(m) if isinstance(m, torch.Tensor) else m, mout)
    if not sch.is_mutable and not has_symscalar and name not in STRUCTURAL:
        if GT.has_g(args, kwargs, SymTensor):
            if name in GT.POINTWISE:
                r = GT.gmode_pointwise(func, args, kwargs, SymTensor, from_arr, to_real_concrete, run_meta(func, args, kwargs))
                if r is not None:
                    return r
            if name in GT.REDUCE_DIM:
                r = GT.gmode_reduce(func, args, kwargs, SymTensor, from_arr, to_real_concrete)
                if r is not None:
                    return r
            r = GT.gmode(func, args, kwargs, SymTensor, from_arr, to_real_concrete)
            if r is not None:
                return r
        elif AUTO_TABLE and name not in SCALAR_DOMAIN_OPS:
            # non-linear op on values that depend on a few input bits only: switch to the finite-table domain
            r = None
            if name in GT.POINTWISE:
                r = GT.gmode_pointwise(func, args, kwargs, SymTensor, from_arr, to_real_concrete, run_meta(func, args, kwargs))
            if r is None and name in GT.REDUCE_DIM:
                r = GT.gmode_reduce(func, args, kwargs, SymTensor, from_arr, to_real_concrete)
            if r is None:
                r = GT.gmode(func, args, kwargs, SymTensor, from_arr, to_real_concrete, limit=AUTO_TABLE_VARS)
            if r is not None:
                return r
    if h is not None:
        return h(func, args, kwargs)
    if name in UNARY:
        mout = run_meta(func, args, kwargs)
        return out_like(vec(UNARY[name], A(args[0])), mout)
    if name in BINARY and BINARY[name] is not None:
        mout = run_meta(func, args[:2], {})
        f = BINARY[name]
        if kwargs:
            if name.startswith("aten.div") and "rounding_mode" in kwargs:
                rm = kwargs["rounding_mode"]
                f = lambda a, b: _div_mode(a, b, rm)  # noqa
            else:
                raise NotEncodable(f"{name} with kwargs {list(kwargs)}")
        return out_like(vec(f, A(args[0]), A(args[1])), mout)
    # in-place variants: compute functionally, then write back
    if sch.is_mutable and name.split(".")[1].endswith("_"):
        base, _, ov = name.partition(".")[2].partition(".")
        fname = f"aten.{base[:-1]}.{ov}"
        try:
            ffunc = getattr(getattr(torch.ops.aten, base[:-1]), ov)
        except AttributeError:
            ffunc = None
        if ffunc is not None:
            res = dispatch(ffunc, fname, args, kwargs)
            _write(args[0], AK(res))
            return args[0]
    raise NotEncodable(f"no semantics for {name}")


def _write(dst, src_arr):
    d = dst.arr()
    s = np.broadcast_to(src_arr, d.shape)
    dt = dst.dtype
    sym = dst.storage_.sym
    if d.ndim == 0:
        v = norm_scalar(s[()], dt)
        d[()] = v
        sym = sym or type(v) not in _CONC
    else:
        # copy through a temporary so that overlapping views behave like torch's copy_
        tmp = [norm_scalar(v, dt) for v in s.reshape(-1)]
        for idx, v in zip(np.ndindex(*d.shape), tmp):
            d[idx] = v
            if type(v) not in _CONC:
                sym = True
    dst.storage_.sym = sym


NO_FAST = set()
# ops that only move elements around: handled structurally so that table supports stay small
STRUCTURAL = {"aten.clone.default", "aten.cat.default", "aten.stack.default", "aten.flip.default", "aten.roll.default", "aten.repeat.default",
              "aten.constant_pad_nd.default", "aten.zeros_like.default", "aten.ones_like.default", "aten.empty_like.default", "aten.full_like.default",
              "aten.new_zeros.default", "aten.new_ones.default", "aten.new_empty.default", "aten.contiguous.default", "aten.resolve_conj.default",
              "aten.view_as_real.default", "aten.select_backward.default", "aten.slice_backward.default"}


AUTO_TABLE_VARS = 12
AUTO_TABLE = False   # set by checks whose inputs are short bit sequences through non-linear float code (modems)
# ops that keep GF(2)-affine / integer-linear normal forms: stay in the scalar domain
SCALAR_DOMAIN_OPS = {"aten.add.Tensor", "aten.add.Scalar", "aten.sub.Tensor", "aten.sub.Scalar", "aten.rsub.Scalar", "aten.rsub.Tensor",
                     "aten.mul.Tensor", "aten.mul.Scalar", "aten.neg.default", "aten.mm.default", "aten.bmm.default", "aten.mv.default", "aten.dot.default",
                     "aten.remainder.Scalar", "aten.bitwise_xor.Tensor", "aten.bitwise_xor.Scalar", "aten.sum.default", "aten.sum.dim_IntList",
                     "aten._to_copy.default", "aten.eq.Scalar", "aten.ne.Scalar", "aten.eq.Tensor", "aten.ne.Tensor", "aten.copy_.default",
                     "aten.logical_not.default", "aten.bitwise_not.default", "aten.div.Tensor", "aten.div.Scalar", "aten.mean.default", "aten.mean.dim",
                     "aten.__lshift__.Scalar", "aten.bitwise_or.Tensor", "aten.lt.Scalar", "aten.gt.Scalar", "aten.le.Scalar", "aten.ge.Scalar",
                     "aten.index.Tensor", "aten.index_put_.default", "aten.index_put.default", "aten._local_scalar_dense.default", "aten.equal.default",
                     "aten.nonzero.default", "aten.masked_select.default"}


def to_real_concrete(t):
    return to_real(t)
HANDLERS = {}


def handler(*names, pre_meta=False):
    def deco(f):
        f.pre_meta = pre_meta
        for n in names:
            HANDLERS[n] = f
        return f
    return deco


# ---- creation / copies -------------------------------------------------------------------------
@handler("aten.zeros_like.default", "aten.ones_like.default", "aten.empty_like.default", "aten.full_like.default",
         "aten.new_zeros.default", "aten.new_ones.default", "aten.new_empty.default", "aten.new_full.default")
def h_like(func, args, kwargs):
    mout = run_meta(func, args, kwargs)
    name = str(func)
    if "full" in name:
        v = _sc(args[2] if "new_full" in name else args[1])
    elif "ones" in name:
        v = 1
    else:
        v = 0
    a = np.empty(tuple(mout.shape), dtype=object)
    a[...] = v
    return out_like(a, mout)


@handler("aten.full.default", "aten.scalar_tensor.default")
def h_full(func, args, kwargs):
    # reached only with a SymScalar fill value
    name = str(func)
    v = _sc(args[1] if "full" in name else args[0])
    margs = (args[0], 1.0) if "full" in name else (1.0,)
    mout = run_meta(func, margs, kwargs)
    a = np.empty(tuple(mout.shape), dtype=object)
    a[...] = v
    return out_like(a, mout)


@handler("aten.clone.default", "aten._to_copy.default", "aten.contiguous.default", "aten.resolve_conj.default",
         "aten.resolve_neg.default", "aten.to.dtype", "aten.to.device", "aten.to.dtype_layout", "aten.to.other",
         "aten.type_as.default")
def h_copy(func, args, kwargs):
    mout = run_meta(func, args, kwargs)
    src = args[0]
    a = src.arr()
    if mout.dtype != src.dtype:
        a = vec(lambda v: _cast(v, src.dtype, mout.dtype), A(src))
    return out_like(a.copy(), mout)


def _cast(v, src, dst):
    if dst.is_complex:
        return v
    if src.is_complex:
        return v.re if isinstance(v, S.Cx) else v.real  # torch warns and drops the imaginary part
    if dst == torch.bool:
        return S.tobit(v)
    if not dst.is_floating_point and src.is_floating_point:
        return S.to_int_like(v)
    return v


@handler("aten.copy_.default")
def h_copy_(func, args, kwargs):
    dst, src = args[0], args[1]
    a = AK(src)
    if isinstance(src, SymTensor) and src.dtype != dst.dtype:
        a = vec(lambda v: _cast(v, src.dtype, dst.dtype), a)
    _write(dst, a)
    return dst


@handler("aten.fill_.Scalar", "aten.fill_.Tensor")
def h_fill_(func, args, kwargs):
    _write(args[0], AK(args[1]))
    return args[0]


@handler("aten.zero_.default")
def h_zero_(func, args, kwargs):
    _write(args[0], A(0))
    return args[0]


@handler("aten._local_scalar_dense.default", pre_meta=True)
def h_lsd(func, args, kwargs):
    from .engine import _item
    return _item(args[0])


# ---- arithmetic with alpha ---------------------------------------------------------------------
@handler("aten.add.Tensor", "aten.add.Scalar", "aten.sub.Tensor", "aten.sub.Scalar")
def h_addsub(func, args, kwargs):
    alpha = _sc(kwargs.get("alpha", 1))
    mout = run_meta(func, args[:2], {})
    issub = "sub" in str(func)
    a, b = A(args[0]), A(args[1])
    if alpha != 1:
        b = vec(lambda y: S.mul(y, alpha), b)
    if mout.dtype == torch.bool and not issub:
        return out_like(vec(_bool_add, a, b), mout)
    return out_like(vec(S.sub if issub else S.add, a, b), mout)


@handler("aten.rsub.Scalar", "aten.rsub.Tensor")
def h_rsub(func, args, kwargs):
    mout = run_meta(func, args[:2], {})
    return out_like(vec(lambda x, y: S.sub(y, x), A(args[0]), A(args[1])), mout)


@handler("aten.pow.Scalar")
def h_pow_scalar(func, args, kwargs):
    mout = run_meta(func, args, kwargs)
    base = _sc(args[0])
    return out_like(vec(lambda x: s_pow_base(base, x), A(args[1])), mout)


@handler("aten.clamp.default", "aten.clamp.Tensor", "aten.clip.default", "aten.hardtanh.default")
def h_clamp(func, args, kwargs):
    mout = run_meta(func, args, kwargs)
    lo = args[1] if len(args) > 1 else kwargs.get("min")
    hi = args[2] if len(args) > 2 else kwargs.get("max")
    arrs = [A(args[0])]
    lo_a = A(lo) if lo is not None else None
    hi_a = A(hi) if hi is not None else None
    if lo_a is not None and hi_a is not None:
        return out_like(vec(lambda x, l, h: S.clamp(x, l, h), arrs[0], lo_a, hi_a), mout)
    if lo_a is not None:
        return out_like(vec(lambda x, l: S.clamp(x, l, None), arrs[0], lo_a), mout)
    return out_like(vec(lambda x, h: S.clamp(x, None, h), arrs[0], hi_a), mout)


@handler("aten.where.self", "aten.where.ScalarOther", "aten.where.ScalarSelf", "aten.where.Scalar")
def h_where(func, args, kwargs):
    mout = run_meta(func, args, kwargs)
    return out_like(vec(lambda c, a, b: S.where(S.tobit(c), a, b), A(args[0]), A(args[1]), A(args[2])), mout)


@handler("aten.masked_fill.Scalar", "aten.masked_fill.Tensor")
def h_masked_fill(func, args, kwargs):
    mout = run_meta(func, args, kwargs)
    return out_like(vec(lambda x, m, v: S.where(S.tobit(m), v, x), A(args[0]), A(args[1]), A(args[2])), mout)


@handler("aten.bitwise_not.default")
def h_bitwise_not(func, args, kwargs):
    mout = run_meta(func, args, kwargs)
    if mout.dtype == torch.bool:
        return out_like(vec(S.bnot, A(args[0])), mout)
    return out_like(vec(lambda x: S.sub(-1, x), A(args[0])), mout)


# ---- complex -----------------------------------------------------------------------------------
@handler("aten.view_as_real.default")
def h_view_as_real(func, args, kwargs):
    a = args[0].arr()
    out = np.empty(a.shape + (2,), dtype=object)
    for idx in np.ndindex(*a.shape):
        if type(a[idx]) is GT.G:
            g = a[idx]
            with _disable_current_modes():
                parts = (g.leaves.real.clone(), g.leaves.imag.clone())
            for c in (0, 1):
                s2, l2 = GT.reduce_support(g.sel, parts[c])
                if s2:
                    out[idx + (c,)] = GT.G(s2, l2)
                else:
                    with _disable_current_modes():
                        out[idx + (c,)] = l2.reshape(-1)[0].item()
            continue
        v = S.tocx(a[idx])
        out[idx + (0,)] = v.re
        out[idx + (1,)] = v.im
    rd = {torch.complex64: torch.float32, torch.complex128: torch.float64}[args[0].dtype]
    r = from_arr(out, rd)
    r._cx_link = (r, args[0])      # torch.view_as_real ALIASES its argument: in-place writes are mirrored back (see dispatch)
    return r


@handler("aten.view_as_complex.default")
def h_view_as_complex(func, args, kwargs):
    a = args[0].arr()
    out = np.empty(a.shape[:-1], dtype=object)
    for idx in np.ndindex(*out.shape):
        out[idx] = S.Cx(a[idx + (0,)], a[idx + (1,)])
    cd = {torch.float32: torch.complex64, torch.float64: torch.complex128}[args[0].dtype]
    return from_arr(out, cd)


@handler("aten.real.default", "aten.imag.default")
def h_realimag(func, args, kwargs):
    t = args[0]
    if not t.dtype.is_complex:
        return t
    rd = {torch.complex64: torch.float32, torch.complex128: torch.float64}[t.dtype]
    im = "imag" in str(func)
    return from_arr(vec(lambda v: S.tocx(v).im if im else S.tocx(v).re, t.arr()), rd)


@handler("aten._conj.default", "aten.conj.default", "aten.conj_physical.default")
def h_conj(func, args, kwargs):
    t = args[0]
    if not t.dtype.is_complex:
        return t
    return from_arr(vec(lambda v: S.Cx(S.tocx(v).re, S.neg(S.tocx(v).im)), t.arr()), t.dtype)


def s_angle(v):
    """angle of a scalar: concrete values exactly; a symbolic complex z gives an opaque real theta(z) whose only
    algebraic content is exposed by uf_cossin: cos(theta) = re/|z|, sin(theta) = im/|z| (and d theta = (re d im -
    im d re)/|z|^2 in sym.deriv).  Used by the C19 gradient clause (polar mode of NonlinearChannel)."""
    if not S._is_sym(v):
        c = complex(v)
        return math.atan2(c.imag, c.real)
    if isinstance(v, S.Cases):
        return v.map(s_angle)
    if not isinstance(v, S.Cx):
        raise NotEncodable("angle of a symbolic real (0 or pi)")
    pre, pim = S.topoly(v.re), S.topoly(v.im)
    key = ("angle", S.ENV.serial, frozenset(pre.t.items()), frozenset(pim.t.items()))
    if key in S._PURE:
        return S._PURE[key]
    th = S.topoly(S.fresh_real("angle"))
    S.add_defined(S.zbool(S.gt(S.add(S.mul(v.re, v.re), S.mul(v.im, v.im)), S.ENV.kink_margin)))
    S._DEFS[S._single_atom(th)] = ("angle", v.re, v.im)
    S._PURE[key] = th
    return th


@handler("aten.angle.default")
def h_angle(func, args, kwargs):
    mout = run_meta(func, args, kwargs)
    return out_like(vec(s_angle, A(args[0])), mout)


@handler("aten.polar.default")
def h_polar(func, args, kwargs):
    raise NotEncodable("polar of symbolic values")


# ---- reductions --------------------------------------------------------------------------------
def _dims_keep(args, kwargs, pos=1):
    dims = args[pos] if len(args) > pos else kwargs.get("dim")
    keep = args[pos + 1] if len(args) > pos + 1 else kwargs.get("keepdim", False)
    return dims, keep


@handler("aten.sum.default", "aten.sum.dim_IntList")
def h_sum(func, args, kwargs):
    mout = run_meta(func, args, kwargs)
    dims, keep = _dims_keep(args, kwargs) if "dim_IntList" in str(func) else (None, False)
    a = A(args[0])
    if args[0].dtype == torch.bool:
        a = vec(lambda v: v, a)
    return out_like(reduce_dims(a, dims, keep, r_sum), mout)


@handler("aten.mean.default", "aten.mean.dim")
def h_mean(func, args, kwargs):
    mout = run_meta(func, args, kwargs)
    dims, keep = _dims_keep(args, kwargs) if ".dim" in str(func) else (None, False)
    a = A(args[0])
    out = reduce_dims(a, dims, keep, r_sum)
    n = a.size // max(out.size, 1)
    return out_like(vec(lambda v: S.div(v, float(n)), out), mout)


@handler("aten.prod.default", "aten.prod.dim_int")
def h_prod(func, args, kwargs):
    mout = run_meta(func, args, kwargs)
    if "dim_int" in str(func):
        dims, keep = _dims_keep(args, kwargs)
    else:
        dims, keep = None, False
    return out_like(reduce_dims(A(args[0]), dims, keep, r_prod), mout)


@handler("aten.any.default", "aten.any.dim", "aten.any.dims", "aten.all.default", "aten.all.dim", "aten.all.dims")
def h_anyall(func, args, kwargs):
    mout = run_meta(func, args, kwargs)
    name = str(func)
    dims, keep = _dims_keep(args, kwargs) if not name.endswith("default") else (None, False)
    return out_like(reduce_dims(A(args[0]), dims, keep, r_any if ".any." in name else r_all), mout)


@handler("aten.min.default", "aten.max.default", "aten.amin.default", "aten.amax.default")
def h_minmax_all(func, args, kwargs):
    mout = run_meta(func, args, kwargs)
    name = str(func)
    f = r_min if "min" in name else r_max
    dims, keep = (None, False)
    if "amin" in name or "amax" in name:
        dims, keep = _dims_keep(args, kwargs)
    return out_like(reduce_dims(A(args[0]), dims, keep, f), mout)


@handler("aten.min.dim", "aten.max.dim")
def h_minmax_dim(func, args, kwargs):
    mv, mi = run_meta(func, args, kwargs)
    name = str(func)
    dim, keep = _dims_keep(args, kwargs)
    a = A(args[0])
    vals = reduce_dims(a, dim, keep, r_min if "min" in name else r_max)
    idxs = reduce_dims(a, dim, keep, r_argmin if "min" in name else r_argmax)
    return out_like(vals, mv), out_like(idxs, mi)


@handler("aten.argmin.default", "aten.argmax.default")
def h_argminmax(func, args, kwargs):
    mout = run_meta(func, args, kwargs)
    dim, keep = _dims_keep(args, kwargs)
    a = A(args[0])
    f = r_argmin if "argmin" in str(func) else r_argmax
    if dim is None:
        out = np.empty((), dtype=object)
        out[()] = f(list(a.reshape(-1)))
        return out_like(out.reshape(tuple(mout.shape)), mout)
    return out_like(reduce_dims(a, dim, keep, f), mout)


@handler("aten.linalg_vector_norm.default", "aten.norm.Scalar", "aten.norm.ScalarOpt_dim")
def h_norm(func, args, kwargs):
    mout = run_meta(func, args, kwargs)
    ord_ = args[1] if len(args) > 1 else kwargs.get("ord", kwargs.get("p", 2))
    if ord_ is None:
        ord_ = 2
    if ord_ != 2:
        raise NotEncodable(f"vector norm of order {ord_}")
    dims = args[2] if len(args) > 2 else kwargs.get("dim")
    keep = args[3] if len(args) > 3 else kwargs.get("keepdim", False)
    sq = vec(lambda v: S.square(S.absv(v)), A(args[0]))
    out = reduce_dims(sq, dims, keep, r_sum)
    return out_like(vec(S.sqrt, out), mout)


@handler("aten.cumsum.default")
def h_cumsum(func, args, kwargs):
    mout = run_meta(func, args, kwargs)
    a = A(args[0])
    dim = args[1] % max(a.ndim, 1)
    b = np.moveaxis(a, dim, -1)
    out = np.empty(b.shape, dtype=object)
    for idx in np.ndindex(*b.shape[:-1]):
        acc = 0
        for j in range(b.shape[-1]):
            acc = S.add(acc, b[idx + (j,)])
            out[idx + (j,)] = acc
    return out_like(np.moveaxis(out, -1, dim), mout)


# ---- linear algebra ----------------------------------------------------------------------------
def _dot(xs, ys):
    terms = []
    for x, y in zip(xs, ys):
        if (type(x) in _CONC and x == 0) or (type(y) in _CONC and y == 0):
            continue
        terms.append(S.mul(x, y))
    if not terms:
        return 0
    return r_sum(terms)


@handler("aten.mm.default")
def h_mm(func, args, kwargs):
    mout = run_meta(func, args, kwargs)
    a, b = A(args[0]), A(args[1])
    out = np.empty((a.shape[0], b.shape[1]), dtype=object)
    cols = [list(b[:, j]) for j in range(b.shape[1])]
    for i in range(a.shape[0]):
        row = list(a[i])
        for j in range(b.shape[1]):
            out[i, j] = _dot(row, cols[j])
    return out_like(out, mout)


@handler("aten.bmm.default")
def h_bmm(func, args, kwargs):
    mout = run_meta(func, args, kwargs)
    a, b = A(args[0]), A(args[1])
    out = np.empty((a.shape[0], a.shape[1], b.shape[2]), dtype=object)
    for n in range(a.shape[0]):
        for i in range(a.shape[1]):
            for j in range(b.shape[2]):
                out[n, i, j] = _dot(list(a[n, i]), list(b[n, :, j]))
    return out_like(out, mout)


@handler("aten.mv.default")
def h_mv(func, args, kwargs):
    mout = run_meta(func, args, kwargs)
    a, b = A(args[0]), A(args[1])
    out = np.empty((a.shape[0],), dtype=object)
    for i in range(a.shape[0]):
        out[i] = _dot(list(a[i]), list(b))
    return out_like(out, mout)


@handler("aten.dot.default", "aten.vdot.default")
def h_dot(func, args, kwargs):
    mout = run_meta(func, args, kwargs)
    out = np.empty((), dtype=object)
    out[()] = _dot(list(A(args[0])), list(A(args[1])))
    return out_like(out, mout)


@handler("aten.addmm.default")
def h_addmm(func, args, kwargs):
    mout = run_meta(func, args, kwargs)
    if kwargs.get("alpha", 1) != 1 or kwargs.get("beta", 1) != 1:
        raise NotEncodable("addmm with alpha/beta")
    prod = h_mm(torch.ops.aten.mm.default, (args[1], args[2]), {})
    return out_like(vec(S.add, A(args[0]), A(prod)), mout)


# ---- shape-changing copies ---------------------------------------------------------------------
@handler("aten.cat.default")
def h_cat(func, args, kwargs):
    mout = run_meta(func, args, kwargs)
    dim = args[1] if len(args) > 1 else kwargs.get("dim", 0)
    arrs = [AK(t) for t in args[0] if not (t.dim() == 1 and t.numel() == 0)]
    if not arrs:
        return out_like(np.empty(tuple(mout.shape), dtype=object), mout)
    return out_like(np.concatenate(arrs, axis=dim), mout)


@handler("aten.stack.default")
def h_stack(func, args, kwargs):
    mout = run_meta(func, args, kwargs)
    dim = args[1] if len(args) > 1 else kwargs.get("dim", 0)
    arrs = [AK(t) for t in args[0]]
    nd = arrs[0].ndim + 1
    return out_like(np.stack(arrs, axis=dim % nd), mout)


@handler("aten.select_backward.default", "aten.slice_backward.default")
def h_view_backward(func, args, kwargs):
    """gradient of select / slice: zeros of the input size with the incoming gradient written at the viewed positions"""
    mout = run_meta(func, args, kwargs)
    sizes = [int(v) for v in args[1]]
    n = 1
    for v in sizes:
        n *= v
    with _disable_current_modes():
        pos = torch.arange(n).reshape(sizes)
        if "select" in str(func):
            pos = torch.select(pos, int(args[2]), int(args[3]))
        else:
            pos = torch.ops.aten.slice.Tensor(pos, int(args[2]), args[3], args[4], int(args[5]))
        pos = pos.reshape(-1).tolist()
    flat = np.empty(n, dtype=object)
    zero = S.Cx(0.0, 0.0) if mout.dtype.is_complex else 0.0
    for i in range(n):
        flat[i] = zero
    g = AK(args[0]).reshape(-1)
    for k, q in enumerate(pos):
        flat[q] = g[k]
    return out_like(flat.reshape(sizes), mout)


@handler("aten.flip.default")
def h_flip(func, args, kwargs):
    mout = run_meta(func, args, kwargs)
    return out_like(np.flip(AK(args[0]), axis=tuple(args[1])).copy(), mout)


@handler("aten.roll.default")
def h_roll(func, args, kwargs):
    mout = run_meta(func, args, kwargs)
    shifts = args[1]
    dims = args[2] if len(args) > 2 else kwargs.get("dims", [])
    a = AK(args[0])
    if not dims:
        return out_like(np.roll(a.reshape(-1), shifts[0] if isinstance(shifts, (list, tuple)) else shifts).reshape(a.shape), mout)
    return out_like(np.roll(a, tuple(shifts) if isinstance(shifts, (list, tuple)) else shifts, axis=tuple(dims)), mout)


@handler("aten.repeat.default")
def h_repeat(func, args, kwargs):
    mout = run_meta(func, args, kwargs)
    a = AK(args[0])
    reps = list(args[1])
    a = a.reshape((1,) * (len(reps) - a.ndim) + a.shape)
    return out_like(np.tile(a, reps), mout)


@handler("aten.repeat_interleave.self_int")
def h_repeat_interleave(func, args, kwargs):
    mout = run_meta(func, args, kwargs)
    a = AK(args[0])
    dim = kwargs.get("dim", args[2] if len(args) > 2 else None)
    if dim is None:
        return out_like(np.repeat(a.reshape(-1), args[1]), mout)
    return out_like(np.repeat(a, args[1], axis=dim), mout)


@handler("aten.constant_pad_nd.default")
def h_pad(func, args, kwargs):
    mout = run_meta(func, args, kwargs)
    a = AK(args[0])
    pad = list(args[1])
    val = args[2] if len(args) > 2 else 0
    widths = [(0, 0)] * a.ndim
    for i in range(len(pad) // 2):
        widths[a.ndim - 1 - i] = (pad[2 * i], pad[2 * i + 1])
    out = np.empty(tuple(mout.shape), dtype=object)
    out[...] = val
    sl = tuple(slice(w[0], w[0] + s) for w, s in zip(widths, a.shape))
    out[sl] = a
    return out_like(out, mout)


@handler("aten.tril.default", "aten.triu.default")
def h_tri(func, args, kwargs):
    mout = run_meta(func, args, kwargs)
    a = A(args[0]).copy()
    k = args[1] if len(args) > 1 else kwargs.get("diagonal", 0)
    lower = "tril" in str(func)
    for idx in np.ndindex(*a.shape):
        i, j = idx[-2], idx[-1]
        if (lower and j - i > k) or (not lower and j - i < k):
            a[idx] = 0
    return out_like(a, mout)


# ---- indexing ----------------------------------------------------------------------------------
def _concrete_index_array(t):
    """SymTensor of concrete ints -> numpy int array; None if symbolic"""
    a = t.arr()
    out = np.empty(a.shape, dtype=np.int64)
    for idx in np.ndindex(*a.shape):
        v = a[idx]
        if type(v) in (bool, int):
            out[idx] = int(v)
        elif isinstance(v, float) and v == int(v):
            out[idx] = int(v)
        else:
            return None
    return out


def _mask_to_indices(mask):
    """bool mask SymTensor -> tuple of int index arrays (forking on symbolic entries)"""
    a = mask.arr()
    pos = []
    for idx in np.ndindex(*a.shape):
        v = a[idx]
        if type(v) in _CONC:
            t = bool(v)
        else:
            t = Ctx.cur.decide(S.zbool(v))
        if t:
            pos.append(idx)
    nd = a.ndim
    return tuple(np.array([p[d] for p in pos], dtype=np.int64) for d in range(nd))


def _prep_indices(base, indices):
    """expand bool masks to integer indices; returns list with None / numpy int arrays / SymTensor (symbolic ints)"""
    out = []
    for ind in indices:
        if ind is None:
            out.append(None)
        elif ind.dtype == torch.bool or ind.dtype == torch.uint8:
            out.extend(_mask_to_indices(ind))
        else:
            c = _concrete_index_array(ind)
            out.append(c if c is not None else ind)
    return out


def _value_cases(v, size):
    """symbolic integer scalar -> [(guard, int)] over its feasible values"""
    if isinstance(v, S.Cases):
        out = []
        for g, x in v.cs:
            if S._is_sym(x):
                for g2, x2 in _value_cases(x, size):
                    out.append((S.band(g, g2), x2))
            else:
                out.append((g, int(x)))
        return out
    if S.is_bitlike(v):
        return [(S.bnot(v), 0), (v, 1)]
    p = S.topoly(v)
    pb = S._pb_form(p)
    if pb is None:
        if p.is_int and size <= 1024:
            # integer-valued term (e.g. a rounded and clamped level index): one case per table position, plus the
            # out-of-range cases so that the caller can fork on them
            e = S.poly_z3(p, True)
            out = [(S.mkbx(e == j), j) for j in range(size)]
            out.append((S.mkbx(e < 0), -size - 1))
            out.append((S.mkbx(e >= size), size))
            return out
        raise NotEncodable("symbolic index that is not an integer combination of bits")
    args_, c0 = pb
    nb = len(args_)
    if nb > 14:
        raise NotEncodable("symbolic index over more than 14 bits")
    out = []
    for assign in itertools.product([False, True], repeat=nb):
        val = c0 + sum(c for (_, c), t in zip(args_, assign) if t)
        g = z3.And([b if t else z3.Not(b) for (b, _), t in zip(args_, assign)])
        out.append((S.mkbx(g), val))
    return out


@handler("aten.index.Tensor", pre_meta=True)
def h_index(func, args, kwargs):
    base = args[0]
    inds = _prep_indices(base, args[1])
    a = base.arr()
    if all(i is None or isinstance(i, np.ndarray) for i in inds):
        key = tuple(slice(None) if i is None else i for i in inds)
        res = a[key]
        return from_arr(np.asarray(res, dtype=object), base.dtype, res.shape)
    # table[idx] with one table-valued index tensor and a concrete table: per-element lookup on the leaves
    if len(inds) == 1 and isinstance(inds[0], SymTensor) and is_concrete(base):
        r = _index_table_lookup(base, inds[0])
        if r is not None:
            return r
    # symbolic integer indices: finite-table mode first (exact leaves), else case lists
    if all(i is None or isinstance(i, (np.ndarray, SymTensor)) for i in inds):
        ind_args = [None if i is None else (from_arr(i, torch.int64) if isinstance(i, np.ndarray) else i) for i in inds]
        r = GT.gmode(torch.ops.aten.index.Tensor, (base, ind_args), {}, SymTensor, from_arr, to_real_concrete)
        if r is not None:
            return r
    k = len(inds)
    if any(i is None for i in inds):
        raise NotEncodable("symbolic index combined with a slice")
    arrs = [i if isinstance(i, np.ndarray) else i.arr() for i in inds]
    bs = np.broadcast_arrays(*arrs)
    bshape = bs[0].shape
    tail = a.shape[k:]
    out = np.empty(bshape + tail, dtype=object)
    for pos in np.ndindex(*bshape):
        css = []
        for d, b in enumerate(bs):
            v = b[pos]
            if isinstance(v, (int, np.integer)):
                css.append([(True, int(v))])
            else:
                css.append(_value_cases(v, a.shape[d]))
        combos = []
        oob = []
        for combo in itertools.product(*css):
            g = True
            for gg, _ in combo:
                g = S.band(g, gg)
            if g is False:
                continue
            idx = tuple(x for _, x in combo)
            if any(not (-a.shape[d] <= x < a.shape[d]) for d, x in enumerate(idx)):
                oob.append(g)
                continue
            combos.append((g, idx))
        if oob:
            # the real code raises IndexError exactly for the inputs on which the index leaves the table: fork on it
            cond = z3.Or([S.zbool(g) for g in oob]) if len(oob) > 1 else S.zbool(oob[0])
            if Ctx.cur.decide(cond):
                raise IndexError("index out of range (symbolic index leaves the table on this path)")
        for tpos in np.ndindex(*tail):
            out[pos + tpos] = _collapse_lookup([(g, a[idx + tpos]) for g, idx in combos])
    return from_arr(out, base.dtype)


def _index_table_lookup(base, ind):
    ia = ind.arr()
    flat = ia.reshape(-1)
    supports = []
    for v in flat:
        vs = GT.vars_of(v)
        if vs is None or len(vs) > GT.MAX_SEL:
            return None
        supports.append(tuple(sorted(vs, key=GT._varkey)))
    with _disable_current_modes():
        breal = to_real(base)
        tail = tuple(breal.shape[1:])
        tnum = int(np.prod(tail)) if tail else 1
        b2 = breal.reshape(breal.shape[0], tnum)
    out = np.empty((flat.shape[0], tnum), dtype=object)
    for j, v in enumerate(flat):
        sel = supports[j]
        pos = {x: k for k, x in enumerate(sel)}
        with _disable_current_modes():
            idx = GT.table_of(v, sel, pos, torch.int64)
            if bool((idx < -b2.shape[0]).any()) or bool((idx >= b2.shape[0]).any()):
                raise IndexError("symbolic index can leave the table")
            rows = b2[idx]          # (2^s, tnum)
        for t in range(tnum):
            with _disable_current_modes():
                col = rows[:, t].clone()
            s2, l2 = GT.reduce_support(sel, col)
            if not s2:
                with _disable_current_modes():
                    out[j, t] = l2.reshape(-1)[0].item()
            else:
                out[j, t] = GT.G(s2, l2)
    shape = tuple(ia.shape) + tail
    return from_arr(out.reshape(shape) if shape else out.reshape(()), base.dtype, shape)


def _collapse_lookup(cs):
    vals = [v for _, v in cs]
    if all(type(v) in _CONC for v in vals) and all(v == vals[0] for v in vals):
        return vals[0]
    if any(isinstance(v, (S.Cx, complex)) for v in vals):
        re = _collapse_lookup([(g, S.tocx(v).re) for g, v in cs])
        im = _collapse_lookup([(g, S.tocx(v).im) for g, v in cs])
        return S.Cx(re, im)
    r = S.mkcases(list(cs))
    return r.collapse() if isinstance(r, S.Cases) else r


@handler("aten.index_put_.default", "aten.index_put.default", "aten._unsafe_index_put.default", pre_meta=True)
def h_index_put(func, args, kwargs):
    base, values = args[0], args[2]
    accumulate = args[3] if len(args) > 3 else kwargs.get("accumulate", False)
    inplace = "index_put_" in str(func)
    if not inplace:
        base = h_copy(torch.ops.aten.clone.default, (base,), {})
    raw = args[1]
    if (len(raw) == 1 and raw[0] is not None and raw[0].dtype == torch.bool and not is_concrete(raw[0]) and not accumulate
            and (not isinstance(values, SymTensor) or values.numel() == 1) and tuple(raw[0].shape) == tuple(base.shape[:raw[0].dim()])):
        # x[mask] = scalar with a symbolic mask: an elementwise select instead of a fork per element
        mask = raw[0]
        m = mask.reshape(tuple(mask.shape) + (1,) * (base.dim() - mask.dim()))
        v = values if isinstance(values, SymTensor) else from_arr([_sc(values)], base.dtype, ())
        if v.dtype != base.dtype:
            v = h_copy(torch.ops.aten._to_copy.default, (v,), {"dtype": base.dtype})
        res = dispatch(torch.ops.aten.where.self, "aten.where.self", (m, v.reshape(()), base), {})
        _write(base, res.arr())
        return base
    inds = _prep_indices(base, raw)
    if not all(i is None or isinstance(i, np.ndarray) for i in inds):
        raise NotEncodable("index_put with a symbolic integer index")
    key = tuple(slice(None) if i is None else i for i in inds)
    d = base.arr()
    v = AK(values)
    if isinstance(values, SymTensor) and values.dtype != base.dtype:
        v = vec(lambda x: _cast(x, values.dtype, base.dtype), v)
    v = vec(lambda x: norm_scalar(x, base.dtype), v)
    if accumulate:
        cur = d[key]
        d[key] = vec(S.add, cur, np.broadcast_to(v, cur.shape))
    else:
        tgt = d[key]
        d[key] = np.broadcast_to(v, tgt.shape) if v.ndim else v[()]
    base.storage_.sym = True
    return base


@handler("aten.masked_select.default", pre_meta=True)
def h_masked_select(func, args, kwargs):
    base, mask = args[0], args[1]
    a, m = np.broadcast_arrays(base.arr(), mask.arr())
    out = []
    for idx in np.ndindex(*a.shape):
        v = m[idx]
        t = bool(v) if type(v) in _CONC else Ctx.cur.decide(S.zbool(v))
        if t:
            out.append(a[idx])
    return from_arr(np.asarray(out + [None], dtype=object)[:-1], base.dtype, (len(out),))


@handler("aten.nonzero.default", pre_meta=True)
def h_nonzero(func, args, kwargs):
    a = args[0].arr()
    pos = []
    for idx in np.ndindex(*a.shape):
        v = a[idx]
        t = bool(v) if type(v) in _CONC else Ctx.cur.decide(S.zbool(S.tobit(v)))
        if t:
            pos.append(idx)
    out = np.empty((len(pos), a.ndim), dtype=object)
    for i, p in enumerate(pos):
        for d in range(a.ndim):
            out[i, d] = p[d]
    return from_arr(out, torch.int64, (len(pos), a.ndim))


@handler("aten.equal.default", pre_meta=True)
def h_equal(func, args, kwargs):
    a, b = args[0].arr(), args[1].arr()
    if a.shape != b.shape:
        return False
    c = True
    for x, y in zip(a.reshape(-1), b.reshape(-1)):
        c = S.band(c, S.eq(x, y))
    return bool(c) if type(c) in _CONC else Ctx.cur.decide(S.zbool(c))


@handler("aten.gather.default")
def h_gather(func, args, kwargs):
    mout = run_meta(func, args, kwargs)
    a = AK(args[0])
    dim = args[1]
    ind = _concrete_index_array(args[2])
    if ind is None:
        raise NotEncodable("gather with a symbolic index")
    out = np.empty(ind.shape, dtype=object)
    for idx in np.ndindex(*ind.shape):
        src = list(idx)
        src[dim] = int(ind[idx])
        out[idx] = a[tuple(src)]
    return out_like(out, mout)


@handler("aten.index_select.default")
def h_index_select(func, args, kwargs):
    mout = run_meta(func, args, kwargs)
    ind = _concrete_index_array(args[2])
    if ind is None:
        raise NotEncodable("index_select with a symbolic index")
    return out_like(np.take(AK(args[0]), ind, axis=args[1]), mout)


@handler("aten.scatter_.src", "aten.scatter_.value", "aten.scatter.src", "aten.scatter.value")
def h_scatter(func, args, kwargs):
    base = args[0]
    if "scatter_." not in str(func):
        base = h_copy(torch.ops.aten.clone.default, (base,), {})
    dim = args[1]
    ind = _concrete_index_array(args[2])
    if ind is None:
        raise NotEncodable("scatter with a symbolic index")
    src = AK(args[3])
    d = base.arr()
    for idx in np.ndindex(*ind.shape):
        tgt = list(idx)
        tgt[dim] = int(ind[idx])
        d[tuple(tgt)] = norm_scalar(src[idx] if src.ndim else src[()], base.dtype)
    base.storage_.sym = True
    return base


@handler("aten.sort.default", "aten.topk.default", "aten.argsort.default", "aten.unique.default",
         "aten._unique2.default", "aten.median.default", "aten.kthvalue.default")
def h_sortlike(func, args, kwargs):
    raise NotEncodable(f"{func} on symbolic values")
