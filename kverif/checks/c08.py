"""C08 — power / amplitude constraints enforce their limit on every batch item (PAPR bound: outside the claim)."""
from __future__ import annotations

import itertools

import torch
import z3
from torch.utils._python_dispatch import _disable_current_modes

from .. import sym as S
from ..common import Check, Tally, ob, tier, replay_main, TIER
from ..engine import fresh_reals, elems, Ctx
from ..harness import sym_paths, decide_nra_sliced, decide_any, zor, zand, model_reals


def decide(ctx, negated, extra=(), budget_s=40):
    return decide_nra_sliced(ctx, negated, (), budget_s, extra)
from ..sym import NotEncodable

PID = "C08"
XMAX = 100.0


def mk(kind, T):
    import kaira.constraints as C
    if kind == "total":
        return C.TotalPowerConstraint(T)
    if kind == "average":
        return C.AveragePowerConstraint(T)
    if kind == "antenna":
        return C.PerAntennaPowerConstraint(uniform_power=T)
    if kind == "antenna-budget":
        return C.PerAntennaPowerConstraint(power_budget=torch.tensor([T, 2 * T]))
    if kind == "peak":
        return C.PeakAmplitudeConstraint(T)
    raise ValueError(kind)


def items_of(kind, shape):
    """index groups (flat indices) of the per-item power definition + (is mean?)"""
    import numpy as np
    idx = np.arange(int(np.prod(shape))).reshape(shape)
    if kind in ("total", "average"):
        groups = [idx[i].reshape(-1).tolist() for i in range(shape[0])] if len(shape) > 1 and shape[0] > 1 else [idx.reshape(-1).tolist()]
        return groups, kind == "average"
    if kind.startswith("antenna"):
        groups = []
        for b in range(shape[0]):
            for a in range(shape[1]):
                groups.append(idx[b, a].reshape(-1).tolist())
        return groups, True
    return [], False


def sq(v):
    if isinstance(v, S.Cx):
        return S.add(S.mul(v.re, v.re), S.mul(v.im, v.im))
    return S.mul(v, v)


def parts(v):
    return [v.re, v.im] if isinstance(v, S.Cx) else [v]


def power(vals, mean):
    tot = 0
    for v in vals:
        tot = S.add(tot, sq(v))
    return S.div(tot, float(len(vals))) if mean else tot


def run_power(item, tl, mutate=None):
    kind, shape, cplx, T = item["kind"], tuple(item["shape"]), item["complex"], item["T"]
    config = item["config"]
    obs = []

    def rec(clause, status, **kw):
        obs.append(ob(clause, config, status, stretch=bool(item.get("stretch")), **kw, **tl.take()))
    c = mk(kind, T)
    if mutate:
        mutate(c)
    dtype = torch.complex64 if cplx else torch.float32
    groups, mean = items_of(kind, shape)
    budget = {}
    if kind == "antenna-budget":
        for gi, g in enumerate(groups):
            budget[gi] = T * (1 + gi % shape[1])
    want_idem = item.get("idempotent", False)

    def run(ctx):
        x = fresh_reals("x", shape, dtype)
        y = c(x)
        y2 = c(y) if want_idem else None
        return dict(x=x, y=y, y2=y2)
    nvar = int(torch.Size(shape).numel()) * (2 if cplx else 1)
    names = [f"x{i}r" for i in range(nvar // 2)] + [f"x{i}i" for i in range(nvar // 2)] if cplx else [f"x{i}" for i in range(nvar)]
    assume = [z3.And(z3.Real(nm) >= -XMAX, z3.Real(nm) <= XMAX) for nm in names]
    paths = sym_paths(run, assume, tl, max_paths=64, timeout_ms=20000)
    agg = {}

    def note(clause, st, model, what):
        cur = agg.get(clause)
        if st == "violated" and (cur is None or cur[0] != "violated"):
            agg[clause] = ("violated", what, model, None)
        elif st == "inconclusive" and (cur is None or cur[0] == "holds"):
            agg[clause] = (st, "", None, None)
        elif cur is None:
            agg[clause] = ("holds", "", None, None)
    for ctx, R in paths:
        x, y = elems(R["x"]), elems(R["y"])
        if len(x) != len(y) or tuple(R["y"].shape) != shape:
            note("shape", "violated", None, f"output shape {tuple(R['y'].shape)} != input shape {shape}")
            continue
        for gi, g in enumerate(groups):
            Tg = budget.get(gi, T)
            Px = power([x[j] for j in g], mean)
            Py = power([y[j] for j in g], mean)
            nonzero = S.zbool(S.gt(Px, 0))
            # (1) never more than the target for a non-zero input (zero input: the code substitutes a uniform signal of target power)
            st, model = decide(ctx, S.zbool(S.gt(Py, Tg * (1 + 1e-6))))
            note("power <= target", st, model, f"item {gi}: output power exceeds the target {Tg}")
            # (2) within 0.1% for inputs of non-negligible power
            st, model = decide(ctx, z3.And(S.zbool(S.ge(Px, 1e-4)), S.zbool(S.lt(Py, 0.999 * Tg))))
            note("power >= 0.999 target", st, model, f"item {gi}: output power below 99.9% of the target {Tg} for an input of power >= 1e-4")
            if item.get("power_only"):
                continue        # larger complex items: only the two power clauses (the collinearity clause is an NRA problem that does not finish)
            # (3) positive real factor: output collinear with the input and same orientation, component-wise
            xs = [p for j in g for p in parts(x[j])]
            ys = [p for j in g for p in parts(y[j])]
            bad = []
            for a in range(len(xs)):
                bad.append(S.zbool(S.lt(S.mul(xs[a], ys[a]), 0)))
                bad.append(z3.And(S.zbool(S.ne(xs[a], 0)), S.zbool(S.eq(ys[a], 0))))
                for b in range(a + 1, len(xs)):
                    bad.append(S.zbool(S.ne(S.mul(xs[a], ys[b]), S.mul(xs[b], ys[a]))))
            st, model = decide_any(ctx, bad, extra=[nonzero, S.zbool(S.ge(Px, 1e-9))])
            note("positive real factor (signs and phases preserved)", st, model, f"item {gi}: output is not a positive multiple of the input")
            if R["y2"] is not None:
                y2 = elems(R["y2"])
                d = []
                for j in g:
                    for p1, p2 in zip(parts(y[j]), parts(y2[j])):
                        diff = S.sub(p1, p2)
                        d.append(z3.Or(S.zbool(S.gt(diff, 1e-3 * (Tg ** 0.5))), S.zbool(S.lt(diff, -1e-3 * (Tg ** 0.5)))))
                st, model = decide_any(ctx, d, extra=[S.zbool(S.ge(Px, 1e-4))])
                note("idempotent", st, model, f"item {gi}: c(c(x)) differs from c(x) by more than 1e-3*sqrt(T)")
    for clause, (st, what, model, _) in agg.items():
        if st == "violated":
            w, rep, detail = replay_power(item, model, names, clause)
            rec(clause, st, what=f"{what}; {detail}", witness=w, replay={"reproduced": rep})
        else:
            rec(clause, st, sample=dict(query=clause, shape=list(shape), complex=cplx, T=T, paths=len(paths)))
    return obs


def build_input(item, vals):
    shape, cplx = tuple(item["shape"]), item["complex"]
    n = int(torch.Size(shape).numel())
    with _disable_current_modes():
        if cplx:
            return torch.complex(torch.tensor(vals[:n], dtype=torch.float64), torch.tensor(vals[n:], dtype=torch.float64)).reshape(shape).to(torch.complex128)
        return torch.tensor(vals, dtype=torch.float64).reshape(shape)


def replay_power(item, model, names, clause):
    vals = [float(S.zval(model, z3.Real(nm))) for nm in names] if model is not None else None
    if vals is None:
        return {}, True, ""
    kind, shape, T = item["kind"], tuple(item["shape"]), item["T"]
    with _disable_current_modes():
        x = build_input(item, vals)
        c = mk(kind, T)
        if kind == "antenna-budget":
            c.power_budget = c.power_budget.double()
        y = c(x)
        groups, mean = items_of(kind, shape)
        rep = False
        detail = ""
        xf, yf = x.reshape(-1), y.reshape(-1)
        for gi, g in enumerate(groups):
            Tg = T * (1 + gi % shape[1]) if kind == "antenna-budget" else T
            px = float((xf[g].abs() ** 2).mean() if mean else (xf[g].abs() ** 2).sum())
            py = float((yf[g].abs() ** 2).mean() if mean else (yf[g].abs() ** 2).sum())
            if clause == "power <= target" and py > Tg * (1 + 1e-6):
                rep, detail = True, f"x={xf[g].tolist()} -> power {py:.6g} > {Tg}"
            if clause == "power >= 0.999 target" and px >= 1e-4 and py < 0.999 * Tg:
                rep, detail = True, f"x={xf[g].tolist()} (power {px:.3g}) -> power {py:.6g} < 0.999*{Tg}"
            if clause.startswith("positive real factor") and px > 1e-9:
                ratio = yf[g] / xf[g]
                fin = ratio[torch.isfinite(ratio.real if ratio.is_complex() else ratio)]
                if fin.numel() and (bool((fin.imag.abs() > 1e-6 * fin.abs()).any()) if fin.is_complex() else False or bool(((fin.real if fin.is_complex() else fin) <= 0).any()) or bool(((fin - fin[0]).abs() > 1e-6 * fin[0].abs()).any())):
                    rep, detail = True, f"x={xf[g].tolist()} -> y={yf[g].tolist()}"
            if clause == "idempotent" and px >= 1e-4:
                y2 = c(y).reshape(-1)
                if float((y2[g] - yf[g]).abs().max()) > 1e-3 * Tg ** 0.5:
                    rep, detail = True, f"x={xf[g].tolist()}: c(c(x)) != c(x)"
    return {"x": vals}, rep, detail


def run_peak(item, tl):
    shape, A = tuple(item["shape"]), item["T"]
    config = item["config"]
    c = mk("peak", A)
    obs = []

    def run(ctx):
        x = fresh_reals("x", shape)
        return dict(x=x, y=c(x))
    n = int(torch.Size(shape).numel())
    paths = sym_paths(run, [], tl)
    ctx, R = paths[0]
    x, y = elems(R["x"]), elems(R["y"])
    bad = []
    for a, b in zip(x, y):
        bad.append(S.zbool(S.gt(b, A)))
        bad.append(S.zbool(S.lt(b, -A)))
        bad.append(z3.And(S.zbool(S.le(a, A)), S.zbool(S.ge(a, -A)), S.zbool(S.ne(a, b))))
        bad.append(z3.And(S.zbool(S.gt(a, A)), S.zbool(S.ne(b, A))))
        bad.append(z3.And(S.zbool(S.lt(a, -A)), S.zbool(S.ne(b, -A))))
    st, model = decide_any(ctx, bad)
    if st == "violated":
        vals = model_reals(model, "x", n)
        with _disable_current_modes():
            yy = c(torch.tensor(vals, dtype=torch.float64).reshape(shape))
            rep = bool((yy.abs() > A).any())
        obs.append(ob("peak amplitude", config, st, what=f"x={vals} -> {yy.flatten().tolist()} exceeds/does not clip at {A}", witness={"x": vals}, replay={"reproduced": rep}, **tl.take()))
    else:
        obs.append(ob("peak amplitude", config, st, sample=dict(query="exists x: |c(x)_j| > A, or c(x)_j != clip(x_j)"), **tl.take()))
    return obs


def run_composite(item, tl):
    """CompositeConstraint([c1, c2])(x) == c2(c1(x)) term-wise, also for apply_constraint_chain and the factory composites"""
    import kaira.constraints as C
    from kaira.constraints import utils as CU
    config = item["config"]
    obs = []
    shape = tuple(item["shape"])
    builders = {
        "peak+total": lambda: [C.PeakAmplitudeConstraint(1.5), C.TotalPowerConstraint(2.0)],
        "average+peak": lambda: [C.AveragePowerConstraint(1.0), C.PeakAmplitudeConstraint(1.2)],
        "total+average+peak": lambda: [C.TotalPowerConstraint(3.0), C.AveragePowerConstraint(0.5), C.PeakAmplitudeConstraint(2.0)],
    }
    cs = builders[item["chain"]]()

    def variants(cs):
        """the flat composite, a composite nested inside a composite, and a composite appended with add_constraint"""
        comp = C.CompositeConstraint(list(cs))
        nested = C.CompositeConstraint([C.CompositeConstraint(list(cs[:2]))] + list(cs[2:])) if len(cs) > 2 else C.CompositeConstraint([C.CompositeConstraint(list(cs))])
        grown = C.CompositeConstraint([cs[0]])
        grown.add_constraint(C.CompositeConstraint(list(cs[1:])))
        return comp, nested, grown
    comp, nested, grown = variants(cs)

    def run(ctx):
        x = fresh_reals("x", shape)
        a = comp(x)
        b = x
        for c in cs:
            b = c(b)
        d = CU.apply_constraint_chain(cs, x)
        return dict(x=x, a=a, b=b, d=d, n=nested(x), g=grown(x))
    n = int(torch.Size(shape).numel())
    assume = [z3.And(z3.Real(f"x{i}") >= -XMAX, z3.Real(f"x{i}") <= XMAX) for i in range(n)]
    paths = sym_paths(run, assume, tl, max_paths=64)
    status, wit, which = "holds", None, ""
    names = {"a": "CompositeConstraint(parts)", "d": "apply_constraint_chain", "n": "composite nested inside a composite", "g": "composite appended with add_constraint"}
    for ctx, R in paths:
        for nm in ("a", "d", "n", "g"):
            bad = [S.zbool(S.ne(p, q)) for p, q in zip(elems(R["b"]), elems(R[nm]))]
            st, model = decide_any(ctx, bad)
            if st == "violated" and wit is None:
                # prefer a witness with a material difference (replayable in float32)
                big = []
                for p_, q_ in zip(elems(R["b"]), elems(R[nm])):
                    d_ = S.sub(p_, q_)
                    big += [S.zbool(S.gt(d_, 1e-3)), S.zbool(S.lt(d_, -1e-3))]
                st2, m2 = decide_any(ctx, big)
                if st2 == "violated":
                    model = m2
                status, which = st, names[nm]
                wit = [float(S.zval(model, z3.Real(f"x{i}"))) for i in range(n)]
            elif st == "inconclusive" and status == "holds":
                status = st
    if status == "violated":
        with _disable_current_modes():
            cs2 = builders[item["chain"]]()
            x = torch.tensor(wit, dtype=torch.float32).reshape(shape)
            ref = x
            for c in cs2:
                ref = c(ref)
            outs = [v(x) for v in variants(cs2)] + [CU.apply_constraint_chain(cs2, x)]
            rep = any(float((o - ref).abs().max()) > 1e-5 for o in outs)
        obs.append(ob("composite = sequential application", config, "violated", what=f"{which} differs from applying the parts in order at x={wit}", witness={"chain": item["chain"], "x": wit}, replay={"reproduced": rep}, **tl.take()))
    else:
        obs.append(ob("composite = sequential application", config, status, sample=dict(query="exists x: Composite([c1..cn])(x) != cn(...c1(x)) (term-wise)", chain=item["chain"], paths=len(paths)), **tl.take()))
    return obs


def run_factory(item, tl):
    """factory composites: all non-PAPR limits hold simultaneously on the final output"""
    from kaira.constraints import utils as CU
    import kaira.constraints as C
    config = item["config"]
    obs = []
    if item["factory"] == "mimo":
        comp = CU.create_mimo_constraints(num_antennas=2, uniform_power=0.5, max_papr=None) if "max_papr" in CU.create_mimo_constraints.__code__.co_varnames else CU.create_mimo_constraints(2, 0.5)
        shape = (2, 2, 2)
    else:
        comp = CU.create_ofdm_constraints(total_power=1.0, max_papr=100.0, is_complex=False, peak_amplitude=1.0)
        shape = (2, 3)
    parts_ = list(comp.constraints)
    if any(isinstance(c, C.PAPRConstraint) for c in parts_) and item["factory"] == "mimo":
        return [ob("factory composite", config, "holds", note="contains a PAPR stage: limits after PAPR are outside the claim", **tl.take())]
    last_kinds = [type(c).__name__ for c in parts_]

    def run(ctx):
        x = fresh_reals("x", shape)
        return dict(x=x, y=comp(x))
    n = int(torch.Size(shape).numel())
    assume = [z3.And(z3.Real(f"x{i}") >= -XMAX, z3.Real(f"x{i}") <= XMAX) for i in range(n)]
    try:
        paths = sym_paths(run, assume, tl, max_paths=256)
    except NotEncodable as e:
        return [ob("factory composite", config, "inconclusive", what=f"NotEncodable: {e}", stretch=True, **tl.take())]
    status, what = "holds", ""
    for ctx, R in paths:
        y = elems(R["y"])
        bad = []
        for c in parts_:
            if isinstance(c, C.PeakAmplitudeConstraint):
                for v in y:
                    bad.append(S.zbool(S.gt(v, c.max_amplitude * (1 + 1e-6))))
                    bad.append(S.zbool(S.lt(v, -c.max_amplitude * (1 + 1e-6))))
            if isinstance(c, C.TotalPowerConstraint):
                groups, _ = items_of("total", shape)
                for g in groups:
                    bad.append(S.zbool(S.gt(power([y[j] for j in g], False), c.total_power * (1 + 1e-6))))
            if isinstance(c, C.PerAntennaPowerConstraint) and c.uniform_power is not None:
                groups, _ = items_of("antenna", shape)
                for g in groups:
                    bad.append(S.zbool(S.gt(power([y[j] for j in g], True), c.uniform_power * (1 + 1e-6))))
        st, model = decide_any(ctx, bad)
        if st == "violated":
            vals = model_reals(model, "x", n)
            with _disable_current_modes():
                yy = comp(torch.tensor(vals, dtype=torch.float32).reshape(shape))
                rep = False
                for c in parts_:
                    if isinstance(c, C.PeakAmplitudeConstraint) and bool((yy.abs() > c.max_amplitude * (1 + 1e-5)).any()):
                        rep = True
                    if isinstance(c, C.TotalPowerConstraint):
                        pw = (yy.reshape(shape[0], -1) ** 2).sum(dim=1) if shape[0] > 1 else (yy ** 2).sum().reshape(1)
                        if bool((pw > c.total_power * (1 + 1e-5)).any()):
                            rep = True
                    if isinstance(c, C.PerAntennaPowerConstraint) and c.uniform_power is not None:
                        pw = (yy ** 2).mean(dim=tuple(range(2, yy.dim())))
                        if bool((pw > c.uniform_power * (1 + 1e-5)).any()):
                            rep = True
            return [ob("factory composite: all limits simultaneously", config, "violated", what=f"stages {last_kinds}: x={vals} -> {yy.flatten().tolist()} violates an earlier stage's limit",
                       witness={"x": vals}, replay={"reproduced": rep}, **tl.take())]
        if st == "inconclusive":
            status = st
    return [ob("factory composite: all limits simultaneously", config, status, sample=dict(stages=last_kinds, paths=len(paths)), stretch=(status != "holds"), **tl.take())]


def work(item):
    tl = Tally()
    try:
        if item.get("selftest"):
            def mutate(c):
                c.total_power = 1.21 * c.total_power      # scale uses a larger target than the advertised one
            obs = run_power(dict(kind="total", shape=(2, 2), complex=False, T=1.0, config="selftest"), tl, mutate)
            hit = any(o["status"] == "violated" for o in obs)
            return [ob("selftest:target-inflated", "selftest", "holds" if hit else "error", what="" if hit else "mutant not flagged")]
        t = item["type"]
        if t == "power":
            return run_power(item, tl)
        if t == "peak":
            return run_peak(item, tl)
        if t == "composite":
            return run_composite(item, tl)
        return run_factory(item, tl)
    except NotEncodable as e:
        if "unknown" in str(e):
            return [ob("harness", item["config"], "inconclusive", what=f"{e}", stretch=bool(item.get("stretch")))]
        return [ob("harness", item["config"], "error", what=f"NotEncodable: {e}", stretch=bool(item.get("stretch")))]


def all_items():
    items = []
    Ts = tier([0.01, 1.0, 100.0], [0.001, 0.01, 1.0, 100.0, 1000.0])
    shapes = [(2,), (3,), (1, 3), (2, 2), (2, 3), (2, 2, 2)] + ([(4,), (2, 1, 2, 2)] if TIER == "thorough" else [])
    for kind in ("total", "average"):
        for shape in shapes:
            for T in (Ts if shape in ((2,), (2, 2)) else [1.0]):
                it = dict(type="power", kind=kind, shape=shape, complex=False, T=T)
                it["config"] = f"{kind} T={T} shape={shape} real"
                items.append(it)
                if shape in ((2,), (2, 2)) and T == 1.0:
                    it2 = dict(it, idempotent=True, stretch=True, config=it["config"] + " +idempotence")
                    items.append(it2)
        for shape in [(2,), (2, 2), (2, 1, 2), (2, 2, 1), (1, 1, 2)]:      # 3-D complex items keep two samples per item (NRA capacity)
            it = dict(type="power", kind=kind, shape=shape, complex=True, T=1.0, stretch=False, power_only=(len(shape) == 3))
            it["config"] = f"{kind} T=1.0 shape={shape} complex"
            items.append(it)
    for kind in ("antenna", "antenna-budget"):
        for shape, cplx in (((1, 2, 2), False), ((2, 2, 2), False), ((1, 2, 2), True)):
            it = dict(type="power", kind=kind, shape=shape, complex=cplx, T=0.5, stretch=False)
            it["config"] = f"{kind} T=0.5 shape={shape} {'complex' if cplx else 'real'}"
            items.append(it)
    for shape in ((3,), (2, 2)):
        for A in (0.5, 2.0):
            items.append(dict(type="peak", shape=shape, T=A, config=f"peak A={A} shape={shape}"))
    for chain in ("peak+total", "average+peak", "total+average+peak"):
        for shape in ((3,), (2, 2)):
            items.append(dict(type="composite", chain=chain, shape=shape, config=f"composite {chain} shape={shape}", stretch=(chain == "total+average+peak" and shape == (2, 2))))
    items.append(dict(type="factory", factory="ofdm", config="create_ofdm_constraints(total_power=1, max_papr=100, peak_amplitude=1) (PAPR stage inactive by construction)", stretch=True))
    items.append(dict(selftest=True, config="selftest"))
    if TIER == "quick":
        items = [it for it in items if not it.get("stretch")]
    return items


def replay(body):
    for it in all_items():
        if it.get("config") == body["config"]:
            obs = work(it)
            return any(o["clause"] == body["clause"] and o["status"] == "violated" and o["replay"]["reproduced"] for o in obs)
    return False


def main():
    replay_main(__name__)
    ck = Check(PID)
    items = all_items()
    import kaira.constraints as C
    from kaira.constraints import utils as CU
    ck.encoded(C.TotalPowerConstraint.forward, C.TotalPowerConstraint._apply_constraint_to_single_item, C.AveragePowerConstraint.forward, C.AveragePowerConstraint._apply_constraint_to_single_item,
               C.PerAntennaPowerConstraint.forward, C.PeakAmplitudeConstraint.forward, C.CompositeConstraint.forward, CU.apply_constraint_chain, CU.create_ofdm_constraints)
    ck.bound("inputs", f"item sizes 2..{tier(3, 4)} real / 2 complex samples, layouts 1-D, (1,n), (2,n), (2,2,2) / (B,A,T) for per-antenna; |x_j| <= {XMAX}; concrete targets from a grid over several decades")
    ck.assume("floats of symbolic quantities are reals (rounding outside the claim; obligations carry explicit margins); sqrt and division are purified (s >= 0, s^2 = p; q*b = a) and decided in QF_NRA")
    ck.assume("PAPR bound after PAPRConstraint is outside the claim (15 data-dependent clipping rounds; DESIGN §6)")
    ck.run_items(__name__, "work", items)
    ck.finish(min_obligations=30)


if __name__ == "__main__":
    main()
