"""C19, first sentence — analog channels and power constraints are differentiable with respect to their input, and the
gradient autograd delivers is the derivative of the function the stage computes (for a frozen noise realisation);
in a DeepJSCC pipeline the loss gradient reaches every encoder parameter through constraint and channel.

How: the real stage runs on symbolic float64 tensors that *require grad* (E1).  torch's own autograd engine runs its
backward formulas on the symbolic tensors, so the Jacobian autograd would deliver is obtained as symbolic scalars
J_auto[i][j](x, draws).  Independently the *value* y_i(x, draws) the stage computes is differentiated symbolically
(sym.deriv: product rule on the polynomial forms, implicit differentiation through the purification variables of
division / square root / if-then-else) giving J_true[i][j].  The solver decides, per execution path,

    exists x in the domain, draws :  J_auto[i][j] != J_true[i][j]          (gradient = derivative)
    exists x in the domain, draws :  some backward operation is undefined  (finite gradient: no 0/0, no sqrt'(0))

A stage that detaches the signal, takes .item() of the power, wraps the scale in no_grad or rebuilds a tensor from
Python floats computes the same *value* (so the value clauses of C07/C08/C13 stay green) but a different J_auto.
A witness is replayed on the real module in float64: autograd Jacobian against central finite differences under the
same (stubbed) draws.
"""
from __future__ import annotations

import math
import time

import torch
import z3
from torch.utils._python_dispatch import _disable_current_modes

from .. import sym as S
from ..common import Tally, ob, tier
from ..engine import fresh_reals, elems
from ..harness import sym_paths, decide_nra, decide_nra_sliced, zor, zand
from ..sym import NotEncodable
from .c07 import with_draws

XMAX = 20.0
PMIN = 0.05
KINK = 1e-3      # forward-pass margin from sqrt(0) and division by 0


# ----------------------------------------------------------------------------------------------------------------
# catalogue
# ----------------------------------------------------------------------------------------------------------------
def cubic(x):
    return x - 0.1 * x * x * x


def stages():
    from kaira.channels import (AWGNChannel, LaplacianChannel, PhaseNoiseChannel, FlatFadingChannel, NonlinearChannel,
                                RayleighFadingChannel, RicianFadingChannel)
    from kaira.constraints import TotalPowerConstraint, AveragePowerConstraint, PAPRConstraint, PeakAmplitudeConstraint
    from kaira.constraints.antenna import PerAntennaPowerConstraint
    S_ = {}

    def add(name, mk, shapes, cplx=(False,), quick=True, domain="power", xmax=XMAX):
        S_[name] = dict(mk=mk, shapes=shapes, cplx=cplx, quick=quick, domain=domain, xmax=xmax)
    add("AWGN(avg_noise_power=0.1)", lambda: AWGNChannel(avg_noise_power=0.1), [(3,), (2, 2)], (False, True))
    add("AWGN(snr_db=10)", lambda: AWGNChannel(snr_db=10.0), [(3,), (2, 2)], (False, True))
    add("Laplacian(scale=0.5)", lambda: LaplacianChannel(scale=0.5), [(3,)], (False, True))
    add("Laplacian(avg_noise_power=0.2)", lambda: LaplacianChannel(avg_noise_power=0.2), [(2,)], (False,), quick=False)
    add("Laplacian(snr_db=5)", lambda: LaplacianChannel(snr_db=5.0), [(2,)], (False, True))
    add("PhaseNoise(std=0.1)", lambda: PhaseNoiseChannel(phase_noise_std=0.1), [(2,)], (False, True))
    add("FlatFading(rayleigh,Tc=2,avg_noise_power=0.1)", lambda: FlatFadingChannel("rayleigh", 2, avg_noise_power=0.1), [(3,), (2, 2)], (False, True))
    add("FlatFading(rician,K=2,Tc=1,avg_noise_power=0.1)", lambda: FlatFadingChannel("rician", 1, k_factor=2.0, avg_noise_power=0.1), [(2,)], (True,), quick=False)
    add("RayleighFading(Tc=1,snr_db=10)", lambda: RayleighFadingChannel(coherence_time=1, snr_db=10.0), [(2,)], (False, True))
    add("RicianFading(K=1,Tc=2,snr_db=10)", lambda: RicianFadingChannel(k_factor=1.0, coherence_time=2, snr_db=10.0), [(2,)], (False,), quick=False)
    add("Nonlinear(x-0.1x^3)", lambda: NonlinearChannel(cubic), [(3,), (2, 2)], (False, True))
    add("Nonlinear(x-0.1x^3,cartesian)", lambda: NonlinearChannel(cubic, complex_mode="cartesian"), [(2,)], (True,))
    add("Nonlinear(x-0.1x^3,polar)", lambda: NonlinearChannel(cubic, complex_mode="polar"), [(2,)], (True,), xmax=1.5)
    add("Nonlinear(x-0.1x^3,noise snr_db=10)", lambda: NonlinearChannel(cubic, add_noise=True, snr_db=10.0), [(2,)], (False, True), xmax=1.5)
    add("Nonlinear(x-0.1x^3,noise P=0.1)", lambda: NonlinearChannel(cubic, add_noise=True, avg_noise_power=0.1), [(3,)], (False,), quick=False)
    add("TotalPower(2.0)", lambda: TotalPowerConstraint(total_power=2.0), [(3,), (1, 3), (2, 2), (2, 1, 2)], (False, True))
    add("AveragePower(0.5)", lambda: AveragePowerConstraint(average_power=0.5), [(3,), (1, 3), (2, 2), (2, 1, 2)], (False, True))
    add("PerAntennaPower(uniform=1.0)", lambda: PerAntennaPowerConstraint(uniform_power=1.0), [(1, 2, 2), (2, 2, 2)], (False, True))
    add("PeakAmplitude(1.0)", lambda: PeakAmplitudeConstraint(max_amplitude=1.0), [(3,), (2, 2)], (False,), domain="offkink")   # torch.clamp rejects complex tensors
    add("PAPR(3.0)", lambda: PAPRConstraint(max_papr=3.0), [(2, 2)], (False,), domain="power")     # never clips two samples: the no-clipping path
    add("PAPR(2.0)", lambda: PAPRConstraint(max_papr=2.0), [(3,)], (False,), quick=False, domain="power")   # clipping rounds: branch decisions are NRA (stretch)
    return S_


def all_items():
    out = []
    for name, s in stages().items():
        for shape in s["shapes"]:
            for cplx in s["cplx"]:
                if not s["quick"] and tier(True, False):
                    continue
                if tier(True, False) and cplx and name.startswith("Nonlinear(x-0.1x^3,noise snr_db=10)"):
                    continue      # open (stretch) in the complex case: thorough tier only
                out.append(dict(type="grad", stage=name, shape=list(shape), complex=cplx,
                                config=f"grad:{name} on {'complex' if cplx else 'real'}{tuple(shape)}"))
    for name in pipelines():
        if tier(True, False) and any(k in name for k in STRETCH_PIPE):
            continue          # open (stretch) items run in the thorough tier only
        out.append(dict(type="pipeline", pipeline=name, config=f"grad-pipeline:{name}"))
    out.append(dict(type="grad-selftest", config="grad-selftest"))
    return out


# ----------------------------------------------------------------------------------------------------------------
# one stage
# ----------------------------------------------------------------------------------------------------------------
def numel(shape):
    n = 1
    for s in shape:
        n *= s
    return n


def xnames(n, cplx):
    return [f"x{i}r" for i in range(n)] + [f"x{i}i" for i in range(n)] if cplx else [f"x{i}" for i in range(n)]


def domain(shape, cplx, kind, xmax=XMAX):
    n = numel(shape)
    names = xnames(n, cplx)
    A = [z3.And(z3.Real(nm) >= -xmax, z3.Real(nm) <= xmax) for nm in names]
    if kind == "offkink":
        # clipping constraints: stay 1% away from the clipping level (the kink of clamp)
        for nm in names:
            v = z3.Real(nm)
            A.append(z3.Or(v >= 1.01, z3.And(v <= 0.99, v >= -0.99), v <= -1.01))
    # every batch item (first dimension when there are >= 2) carries non-negligible power: away from the zero-signal branch
    rows = shape[0] if len(shape) > 1 else 1
    per = n // rows
    for r in range(rows):
        idx = range(r * per, (r + 1) * per)
        if cplx:
            tot = z3.Sum([z3.Real(f"x{i}r") * z3.Real(f"x{i}r") + z3.Real(f"x{i}i") * z3.Real(f"x{i}i") for i in idx])
        else:
            tot = z3.Sum([z3.Real(f"x{i}") * z3.Real(f"x{i}") for i in idx])
        A.append(tot >= PMIN)
    return names, A


def real_parts(vals):
    out = []
    for v in vals:
        if isinstance(v, S.Cx):
            out += [v.re, v.im]
        else:
            out.append(v)
    return out


def sym_jacobians(x, y):
    """-> (J_auto, J_true) as lists over (output real component, input real atom)"""
    xs = elems(x.detach())
    ys = elems(y.detach())
    ycomp = real_parts(ys)
    xatoms = []
    for v in xs:
        if isinstance(v, S.Cx):
            xatoms += [("re", S.atom_id(v.re)), ("im", S.atom_id(v.im))]
        else:
            xatoms.append(("re", S.atom_id(v)))
    n_in = len(xs)
    if y.requires_grad:
        yf = y.reshape(-1)
        comps = []
        if y.dtype.is_complex:
            yr = torch.view_as_real(yf)
            for i in range(len(ys)):
                comps += [yr[i, 0], yr[i, 1]]
        else:
            comps = [yf[i] for i in range(len(ys))]
    J_auto, J_true = [], []
    for k, yc in enumerate(ycomp):
        if y.requires_grad:
            g, = torch.autograd.grad(comps[k], x, retain_graph=True, allow_unused=True)
            gs = elems(g) if g is not None else [0.0] * n_in
        else:
            gs = [0.0] * n_in
        J_auto.append(real_parts([S.tocx(v) for v in gs]) if x.dtype.is_complex else list(gs))
    nb = len(S.ENV.defined)          # definedness conditions up to here: forward pass + autograd's backward formulas
    for k, yc in enumerate(ycomp):
        J_true.append([S.deriv(yc, aid) for (_, aid) in xatoms])
    return J_auto, J_true, nb


def run_stage(item, tl, mutate=None):
    spec = stages()[item["stage"]]
    shape, cplx = tuple(item["shape"]), item["complex"]
    config = item["config"]
    stage = spec["mk"]()
    if mutate:
        stage = mutate(stage)
    dtype = torch.complex128 if cplx else torch.float64
    names, A = domain(shape, cplx, spec["domain"], spec["xmax"])

    def run(ctx):
        x = fresh_reals("x", shape, dtype)
        x.requires_grad_(True)
        S.ENV.kink_margin = KINK          # forward pass: stay a margin away from sqrt(0) and x/0 (the kinks of the stage itself)
        S.ENV.inv_mode = True             # quotients as products with reciprocal variables: both Jacobians land in one polynomial ring
        try:
            try:
                y = stage(x)
            finally:
                S.ENV.kink_margin = 0
            nf = len(ctx.defined)
            Ja, Jt, nb = sym_jacobians(x, y)
        finally:
            S.ENV.inv_mode = False
        return dict(Ja=Ja, Jt=Jt, rg=bool(y.requires_grad), nf=nf, nb=nb)
    obs = []
    try:
        paths = sym_paths(run, A, tl, max_paths=tier(24, 64), state=(stage,))
    except NotEncodable as e:
        return [ob("autograd gradient = derivative of the computed function", config, "inconclusive", what=f"NotEncodable: {e}", stretch=True,
                   note="outside the claim: the stage uses an operation with no algebraic encoding", **tl.take())]
    st_g, st_f, viol_g, viol_f = "holds", "holds", None, None
    npaths = nq = 0
    lost = 0.0
    for ctx, R in paths:
        npaths += 1
        if getattr(ctx, "tainted", False) and st_g == "holds":
            st_g = st_f = "inconclusive"      # float() of a symbolic real on this path (see sym.nanbox): never 'holds'
        defined = [d for d in ctx.defined]
        # one query per Jacobian entry, each on the cone of influence of that entry
        for ra, rt in zip(R["Ja"], R["Jt"]):
            for a, t in zip(ra, rt):
                e = S.zbool(S.ne(a, t))
                if z3.is_false(e) or viol_g is not None:
                    continue
                if lost > 2 * tier(20, 90):
                    st_g = "inconclusive"      # open anyway: do not spend the budget of every remaining entry
                    continue
                nq += 1
                t0 = time.time()
                st, model = decide_nra_sliced(ctx, e, defined, budget_s=tier(20, 90))
                if st == "inconclusive":
                    lost += time.time() - t0
                if st == "violated":
                    # prefer a witness with a material difference (replayable against finite differences)
                    d = S.sub(a, t)
                    st2, m2 = decide_nra_sliced(ctx, z3.Or(S.zbool(S.gt(d, 1e-2)), S.zbool(S.lt(d, -1e-2))), defined, budget_s=20)
                    if st2 == "violated":
                        model = m2
                    w = witness_of(model, ctx, names)
                    rep, detail = replay_stage(item, w, mutate)
                    viol_g = dict(what=f"autograd's Jacobian differs from the derivative of the stage's own output: {detail}", witness=w, replay={"reproduced": rep})
                elif st == "inconclusive" and st_g == "holds":
                    st_g = st
        fwd, bwd = defined[:R["nf"]], defined[R["nf"]:R["nb"]]
        for cond in bwd:
            if viol_f is not None:
                break
            st, model = decide_nra_sliced(ctx, z3.Not(cond), fwd, budget_s=tier(20, 60))
            if st == "violated" and viol_f is None:
                w = witness_of(model, ctx, names)
                rep, detail = replay_stage(item, w, mutate, finite=True)
                viol_f = dict(what=f"a backward (or forward) operation is undefined inside the domain (0/0, sqrt'(0), log(0)): {detail}", witness=w, replay={"reproduced": rep})
            elif st == "inconclusive" and st_f == "holds":
                st_f = st
    q = dict(query="exists x in domain, draws: J_autograd[i][j] != d y_i / d x_j", shape=list(shape), complex=cplx, paths=npaths, entry_queries=nq,
             domain=f"|x| <= {spec['xmax']}, power of every batch item >= {PMIN}, forward sqrt radicands / divisors >= {KINK}" + ("; |x| at least 1% away from the clipping level" if spec["domain"] == "offkink" else ""))
    stretch = item["stage"].startswith(STRETCH)
    # a model that does not reproduce in float64 (over-approximated cos/sin variables, differences below the
    # finite-difference resolution) is reported as an open stretch item, never as a violation and never as 'holds'
    if viol_g:
        obs.append(ob("autograd gradient = derivative of the computed function", config, "violated", stretch=not viol_g["replay"]["reproduced"], **viol_g, **tl.take()))
    else:
        obs.append(ob("autograd gradient = derivative of the computed function", config, st_g, sample=q, stretch=stretch and st_g != "holds", **tl.take()))
    if viol_f:
        obs.append(ob("gradient finite on the domain", config, "violated", stretch=not viol_f["replay"]["reproduced"], **viol_f))
    else:
        obs.append(ob("gradient finite on the domain", config, st_f, stretch=stretch and st_f != "holds"))
    return obs


STRETCH = ("PAPR", "PhaseNoise", "Nonlinear(x-0.1x^3,noise snr_db=10)")
STRETCH_PIPE = ("AveragePower(0.5) -> Laplacian", "AveragePower(1) -> AWGN(snr", "Nonlinear(cubic)")   # thorough tier only
# every pipeline obligation that the NRA portfolio leaves open is reported as stretch (4 symbolic weights + draws + nested sqrt)


def witness_of(model, ctx, names):
    w = {nm: float(S.zval(model, z3.Real(nm))) for nm in names}
    w["draws"] = [float(S.zval(model, g)) for k, g in ctx.rng_log]
    return w


# ----------------------------------------------------------------------------------------------------------------
# replay on the real module (float64): autograd Jacobian vs central finite differences, same stubbed draws
# ----------------------------------------------------------------------------------------------------------------
def real_input(shape, cplx, w):
    n = numel(shape)
    if cplx:
        x = torch.complex(torch.tensor([w[f"x{i}r"] for i in range(n)], dtype=torch.float64), torch.tensor([w[f"x{i}i"] for i in range(n)], dtype=torch.float64))
    else:
        x = torch.tensor([w[f"x{i}"] for i in range(n)], dtype=torch.float64)
    return x.reshape(shape)


def real_jacobians(f, x, h=1e-6):
    """autograd and finite-difference Jacobians of f (real view of output wrt real view of input)"""
    cplx = x.is_complex()
    xr0 = torch.view_as_real(x).clone() if cplx else x.clone()

    def g(xr):
        xx = torch.view_as_complex(xr) if cplx else xr
        y = f(xx)
        return (torch.view_as_real(y) if y.is_complex() else y).reshape(-1)
    xr = xr0.clone().requires_grad_(True)
    y = g(xr)
    rows = []
    for k in range(y.numel()):
        if y.requires_grad:
            gr, = torch.autograd.grad(y[k], xr, retain_graph=True, allow_unused=True)
            rows.append(torch.zeros_like(xr0).reshape(-1) if gr is None else gr.reshape(-1).clone())
        else:
            rows.append(torch.zeros_like(xr0).reshape(-1))
    Ja = torch.stack(rows)
    flat = xr0.reshape(-1)
    cols = []
    with torch.no_grad():
        for j in range(flat.numel()):
            e = torch.zeros_like(flat)
            e[j] = h * max(1.0, abs(float(flat[j])))
            cols.append((g((flat + e).reshape(xr0.shape)) - g((flat - e).reshape(xr0.shape))) / (2 * e[j]))
    Jf = torch.stack(cols, dim=1)
    return Ja, Jf


def replay_stage(item, w, mutate=None, finite=False):
    spec = stages()[item["stage"]]
    shape, cplx = tuple(item["shape"]), item["complex"]
    with _disable_current_modes():
        stage = spec["mk"]()
        if mutate:
            stage = mutate(stage)
        x = real_input(shape, cplx, w)
        try:
            Ja, Jf = real_jacobians(lambda t: with_draws(w["draws"], lambda: stage(t)), x)
        except Exception as e:  # noqa: BLE001
            return False, f"replay raised {type(e).__name__}: {str(e)[:100]}"
        if finite:
            bad = not bool(torch.isfinite(Ja).all())
            return bad, f"x={x.reshape(-1).tolist()}: autograd Jacobian {'contains non-finite entries' if bad else 'is finite'}"
        err = (Ja - Jf).abs()
        tol = 1e-4 * (1 + Jf.abs())
        bad = bool((err > tol).any()) or not bool(torch.isfinite(Ja).all())
        k = int(torch.argmax(err - tol))
        i, j = divmod(k, Ja.shape[1])
        return bad, f"x={x.reshape(-1).tolist()}, draws={w['draws']}: d y[{i}]/d x[{j}] autograd {float(Ja[i, j]):.6g} vs finite differences {float(Jf[i, j]):.6g}"


# ----------------------------------------------------------------------------------------------------------------
# pipeline: encoder parameters receive the derivative of the loss through constraint and channel
# ----------------------------------------------------------------------------------------------------------------
class Lin(torch.nn.Module):
    """y = x W^T with W held as a plain attribute (so that it may be a symbolic tensor)"""

    def __init__(self, W):
        super().__init__()
        self.W = W

    def forward(self, x, *args, **kwargs):
        return x @ self.W.t()


X_IN = [[1.0, -0.5], [0.25, 2.0]]
V_DEC = [[0.5, -1.0], [1.5, 0.75]]
C_LOSS = [[1.0, -2.0], [0.5, 1.0]]


def pipelines():
    from kaira.channels import AWGNChannel, LaplacianChannel, NonlinearChannel
    from kaira.constraints import TotalPowerConstraint, AveragePowerConstraint
    P = {
        "Lin(2x2) -> TotalPower(1) -> AWGN(P=0.1) -> Lin": (lambda: TotalPowerConstraint(total_power=1.0), lambda: AWGNChannel(avg_noise_power=0.1)),
        "Lin(2x2) -> AveragePower(1) -> AWGN(snr=10dB) -> Lin": (lambda: AveragePowerConstraint(average_power=1.0), lambda: AWGNChannel(snr_db=10.0)),
        "Lin(2x2) -> AveragePower(0.5) -> Laplacian(scale=0.3) -> Lin": (lambda: AveragePowerConstraint(average_power=0.5), lambda: LaplacianChannel(scale=0.3)),
        "Lin(2x2) -> TotalPower(2) -> Nonlinear(cubic) -> Lin": (lambda: TotalPowerConstraint(total_power=2.0), lambda: NonlinearChannel(cubic)),
    }
    return P


def build_pipeline(name, W, mutate=None):
    from kaira.models.deepjscc import DeepJSCCModel
    mkc, mkch = pipelines()[name]
    c, ch = mkc(), mkch()
    if mutate:
        c, ch = mutate(c), ch
    return DeepJSCCModel(encoder=Lin(W), constraint=c, channel=ch, decoder=Lin(torch.tensor(V_DEC, dtype=torch.float64)))


def run_pipeline(item, tl, mutate=None):
    name, config = item["pipeline"], item["config"]
    wn = [f"w{i}" for i in range(4)]
    A = [z3.And(z3.Real(n) >= -5, z3.Real(n) <= 5) for n in wn]
    # every encoded item carries non-negligible power
    for row in X_IN:
        tot = 0
        for j in range(2):
            e = z3.Real(f"w{2 * j}") * row[0] + z3.Real(f"w{2 * j + 1}") * row[1]
            tot = tot + e * e
        A.append(tot >= PMIN)
    holder = {}

    def run(ctx):
        W = fresh_reals("w", (2, 2), torch.float64)
        ws = elems(W)
        W.requires_grad_(True)
        model = build_pipeline(name, W, mutate)
        holder["m"] = model
        x = torch.tensor(X_IN, dtype=torch.float64)
        S.ENV.kink_margin = KINK
        S.ENV.inv_mode = True
        try:
            out = model(x)
        finally:
            S.ENV.kink_margin = 0
        L = (out * torch.tensor(C_LOSS, dtype=torch.float64)).sum()
        Lval = elems(L.detach())[0]
        if L.requires_grad:
            g, = torch.autograd.grad(L, W, allow_unused=True)
            gs = elems(g) if g is not None else [0.0] * 4
        else:
            gs = [0.0] * 4
        ds = [S.deriv(Lval, S.atom_id(v)) for v in ws]
        S.ENV.inv_mode = False
        return dict(gs=gs, ds=ds)
    try:
        paths = sym_paths(run, A, tl, max_paths=32)
    except NotEncodable as e:
        return [ob("loss gradient reaches every encoder parameter", config, "error", what=f"NotEncodable: {e}")]
    st_g, viol, reach, unknown_reach = "holds", None, [False] * 4, [False] * 4
    for ctx, R in paths:
        defined = list(ctx.defined)
        if getattr(ctx, "tainted", False) and st_g == "holds":
            st_g = "inconclusive"
        for a, t in zip(R["gs"], R["ds"]):
            e = S.zbool(S.ne(a, t))
            if z3.is_false(e) or viol is not None:
                continue
            st, model = decide_nra_sliced(ctx, e, defined, budget_s=tier(40, 150))
            if st == "violated":
                d = S.sub(a, t)
                st2, m2 = decide_nra_sliced(ctx, z3.Or(S.zbool(S.gt(d, 1e-2)), S.zbool(S.lt(d, -1e-2))), defined, budget_s=20)
                if st2 == "violated":
                    model = m2
                w = {n: float(S.zval(model, z3.Real(n))) for n in wn}
                w["draws"] = [float(S.zval(model, g)) for k, g in ctx.rng_log]
                rep, detail = replay_pipeline(item, w, mutate)
                viol = dict(what=f"dL/dW from autograd differs from the derivative of the loss the pipeline computes: {detail}", witness=w, replay={"reproduced": rep})
            elif st == "inconclusive" and st_g == "holds":
                st_g = st
        # reachability twin: each parameter's derivative is not identically zero (a detached pipeline would make it so)
        for k in range(4):
            if not reach[k]:
                e = S.zbool(S.ne(R["gs"][k], 0.0))
                if not z3.is_false(e):
                    s2, _ = decide_nra_sliced(ctx, e, defined, budget_s=20)
                    reach[k] = s2 == "violated"     # 'violated' of the negation = a point with non-zero gradient exists
                    if s2 == "inconclusive":
                        unknown_reach[k] = True
    obs = []
    stretch = True
    if viol:
        obs.append(ob("loss gradient = derivative through constraint and channel", config, "violated", stretch=not viol["replay"]["reproduced"], **viol, **tl.take()))
    else:
        obs.append(ob("loss gradient = derivative through constraint and channel", config, st_g, stretch=stretch and st_g != "holds", sample=dict(query="exists W, draws: autograd dL/dW[k] != dL/dW[k] of the computed loss", W="2x2 symbolic", x=X_IN), **tl.take()))
    if all(reach):
        obs.append(ob("loss gradient reaches every encoder parameter", config, "holds", sample=dict(query="for each k: exists W, draws with autograd dL/dW[k] != 0 (sat expected)", reached=reach)))
    elif viol is None and st_g == "holds" and not any(u and not r for u, r in zip(unknown_reach, reach)):
        w = {n: 1.0 for n in wn}
        w["draws"] = []
        obs.append(ob("loss gradient reaches every encoder parameter", config, "violated", what=f"autograd's dL/dW is identically zero for parameters {[k for k in range(4) if not reach[k]]}",
                      witness=w, replay={"reproduced": replay_pipeline(item, w, mutate, zero=True)[0]}))
    else:
        obs.append(ob("loss gradient reaches every encoder parameter", config, "inconclusive" if viol is None else "violated", stretch=(stretch if viol is None else not viol["replay"]["reproduced"]),
                      what="" if viol is None else "see the gradient clause", witness=viol["witness"] if viol else None, replay=viol["replay"] if viol else None))
    return obs


def replay_pipeline(item, w, mutate=None, zero=False):
    name = item["pipeline"]
    with _disable_current_modes():
        W0 = torch.tensor([w[f"w{i}"] for i in range(4)], dtype=torch.float64)
        x = torch.tensor(X_IN, dtype=torch.float64)
        C = torch.tensor(C_LOSS, dtype=torch.float64)

        def f(Wflat):
            model = build_pipeline(name, Wflat.reshape(2, 2), mutate)
            draws = w["draws"] if w["draws"] else [0.3, -0.7, 1.1, 0.2, -0.4, 0.9, 0.5, -1.2]
            return (with_draws(draws, lambda: model(x)) * C).sum().reshape(1)
        try:
            Ja, Jf = real_jacobians(f, W0)
        except Exception as e:  # noqa: BLE001
            return False, f"replay raised {type(e).__name__}: {str(e)[:100]}"
        if zero:
            return bool((Ja == 0).any() and (Jf.abs() > 1e-6).any()), f"autograd {Ja.tolist()} vs finite differences {Jf.tolist()}"
        err = (Ja - Jf).abs()
        bad = bool((err > 1e-4 * (1 + Jf.abs())).any())
        return bad, f"W={W0.tolist()}: autograd dL/dW {Ja.reshape(-1).tolist()} vs finite differences {Jf.reshape(-1).tolist()}"


# ----------------------------------------------------------------------------------------------------------------
# entry points
# ----------------------------------------------------------------------------------------------------------------
class _Detached(torch.nn.Module):
    """self-test mutant: the wrapped constraint computes its scale from a detached copy of the signal"""

    def __init__(self, inner):
        super().__init__()
        self.inner = inner

    def forward(self, x, *a, **k):
        y = self.inner(x.detach(), *a, **k)
        scale = (y.abs().reshape(-1)[0] / x.detach().abs().reshape(-1)[0])
        return x * scale


def work(item):
    tl = Tally()
    if item["type"] == "grad":
        return run_stage(item, tl)
    if item["type"] == "pipeline":
        return run_pipeline(item, tl)
    if item["type"] == "grad-selftest":
        it = dict(type="grad", stage="TotalPower(2.0)", shape=[3], complex=False, config="grad-selftest")
        obs = run_stage(it, tl, mutate=_Detached)
        hit = any(o["status"] == "violated" and o["replay"]["reproduced"] for o in obs)
        return [ob("selftest:scale-from-detached-signal", "grad-selftest", "holds" if hit else "error", what="" if hit else "mutant (scale computed from x.detach()) not flagged")]
    raise ValueError(item["type"])


def replay(body):
    for it in all_items():
        if it["config"] == body["config"]:
            if it["type"] == "grad":
                return replay_stage(it, body["witness"], finite=body["clause"].startswith("gradient finite"))[0]
            if it["type"] == "pipeline":
                return replay_pipeline(it, body["witness"])[0]
    return False
