"""C05 — noise-free modulation followed by hard demodulation returns the transmitted bits."""
from __future__ import annotations

import torch
import z3
from torch.utils._python_dispatch import _disable_current_modes

from .. import sym as S
from ..catalog import modem_specs, build_modem
from ..common import Check, Tally, ob, tier, replay_main, TIER
from ..engine import fresh_bits, elems
from ..harness import sym_paths, differs, decide, model_bits, real_bits, concolic
from ..sym import NotEncodable

PID = "C05"


def expected(m, bits, shape, bps):
    """list of (output position, expected scalar) under the scheme's start-up convention; bits = flat input scalars"""
    L = shape[-1] // bps
    lead = 1
    for s in shape[:-1]:
        lead *= s
    exp = []
    for r in range(lead):
        row = bits[r * shape[-1]:(r + 1) * shape[-1]]
        if m["memory"] == "dpsk":
            exp.append(row[bps:])                 # bits carried by the reference symbol are not returned
        elif m["memory"] == "oqpsk":
            e = []
            for i in range(L):
                e.append(row[2 * i])                  # in-phase bit of symbol i
                e.append(row[2 * (i - 1) + 1] if i > 0 else None)   # quadrature stream delayed by one symbol
            exp.append(e)
        else:
            exp.append(row)
    return exp


def prepare(mod, demod):
    for o in (mod, demod):
        o.eval()
        if hasattr(o, "reset_state"):
            o.reset_state()


def run_one(m, via_registry, shape, tl, obs, mutate=None):
    bps = m["bps"]
    config = f"{m['name']}{' via registry' if via_registry else ''} layout={tuple(shape)}"

    def rec(clause, status, **kw):
        obs.append(ob(clause, config, status, **kw, **tl.take()))
    mod, demod = build_modem(m, via_registry)
    if mutate:
        mutate(mod, demod)
    n = 1
    for s in shape:
        n *= s

    def run(ctx):
        prepare(mod, demod)
        b = fresh_bits("b", shape)
        y = mod(b)
        d = demod(y)
        return dict(b=b, y=y, d=d)
    try:
        paths = sym_paths(run, (), tl, max_paths=64, state=(mod, demod))
    except (RuntimeError, ValueError, IndexError, TypeError) as e:
        if isinstance(e, NotEncodable):
            raise
        with _disable_current_modes():
            prepare(mod, demod)
            try:
                demod(mod(torch.zeros(shape)))
                rep = False
            except Exception:
                rep = True
        rec("roundtrip", "violated", what=f"raises on layout {tuple(shape)}: {type(e).__name__}: {str(e)[:100]}", witness={"layout": list(shape), "raises": True}, replay={"reproduced": rep})
        return
    for ctx, R in paths:
        L = shape[-1] // bps
        if tuple(R["y"].shape) != tuple(shape[:-1]) + (L,):
            rec("symbol-count", "violated", what=f"{tuple(R['y'].shape)} symbols for bit layout {tuple(shape)} with {bps} bits/symbol", witness={"layout": list(shape)}, replay={"reproduced": True})
            continue

        def realfn(b):
            prepare(mod, demod)
            return demod(mod(b))
        okc, detail = concolic(ctx, {"b": R["b"]}, realfn, [R["d"]], tl)
        if not okc:
            rec("harness", "error", what="concolic disagreement: " + detail)
            continue
        exp = expected(m, elems(R["b"]), shape, bps)
        flat_exp = [e for row in exp for e in row]
        out = elems(R["d"])
        if len(out) != len(flat_exp):
            with _disable_current_modes():
                real_n = realfn(torch.zeros(shape)).numel()
            rec("roundtrip", "violated", what=f"demodulator returns {len(out)} bits, expected {len(flat_exp)} for layout {tuple(shape)}", witness={"layout": list(shape), "bits_out": len(out)}, replay={"reproduced": real_n != len(flat_exp)})
            continue
        pairs = [(o, e) for o, e in zip(out, flat_exp) if e is not None]
        st, model = decide(ctx, differs([p[0] for p in pairs], [p[1] for p in pairs]))
        if st == "violated":
            bb = model_bits(model, "b", n)
            with _disable_current_modes():
                bt = real_bits(bb, shape)
                got = [int(round(float(v))) for v in realfn(bt).flatten().tolist()]
            exp_c = [e for row in expected(m, bb, shape, bps) for e in row]
            rep = any(e is not None and g != e for g, e in zip(got, exp_c))
            rec("roundtrip", st, what=f"bits {bb} -> demodulated {got}, expected {['-' if e is None else e for e in exp_c]}", witness={"bits": bb, "layout": list(shape)}, replay={"reproduced": rep})
        else:
            rec("roundtrip", st, sample=dict(query=f"exists bits in {{0,1}}^{list(shape)}: demod(mod(bits)) != bits (start-up convention: {m['memory'] or 'none'})", result=st))


def work(item):
    from .. import ops as O
    O.AUTO_TABLE = True
    tl = Tally()
    obs = []
    m = item["modem"]
    if item.get("selftest"):
        def mutate(mod, demod):
            bp = demod.modulator.bit_patterns
            bp[[1, 2]] = bp[[2, 1]].clone()      # two labels swapped in the demodulator's table
        run_one(m, False, (2 * m["bps"],), tl, obs, mutate)
        hit = any(o["status"] == "violated" and o["replay"]["reproduced"] for o in obs)
        return [ob("selftest:swapped-labels", "selftest", "holds" if hit else "error", what="" if hit else "mutant not flagged")]
    bps = m["bps"]
    Ls = [2] if (m["order"] or 2) > 16 else [tier(2, 3)]
    try:
        for via in ([False, True] if m.get("registry") else [False]):
            for L in Ls:
                shapes = [(bps * L,), (2, bps * L), (2, 2, bps * L)] if not via else [(2, bps * L)]
                if bps * L * 4 > 64:
                    shapes = shapes[:2]
                for shape in shapes:
                    run_one(m, via, shape, tl, obs)
    except NotEncodable as e:
        obs.append(ob("harness", m["name"], "error", what=f"NotEncodable: {e}"))
    return obs


def replay(body):
    for m in modem_specs():
        if body["config"].startswith(m["name"] + " ") or body["config"].startswith(m["name"] + " via"):
            obs = work({"modem": m})
            if any(o["config"] == body["config"] and o["clause"] == body["clause"] and o["status"] == "violated" and o["replay"]["reproduced"] for o in obs):
                return True
    return False


def main():
    replay_main(__name__)
    ck = Check(PID)
    items = [dict(modem=m, config=m["name"], stretch=bool(m.get("stretch"))) for m in modem_specs()]
    sm = [m for m in modem_specs() if m["name"] == "PSK8(gray=True)"][0]
    items.append(dict(modem=sm, selftest=True, config="selftest"))
    import kaira.modulations as MM
    ck.encoded(MM.BPSKModulator.forward, MM.BPSKDemodulator.forward, MM.QPSKModulator.forward, MM.QPSKDemodulator.forward, MM.PSKModulator.forward, MM.PSKDemodulator.forward,
               MM.QAMModulator.forward, MM.QAMDemodulator.forward, MM.PAMModulator.forward, MM.PAMDemodulator.forward, MM.DPSKModulator.forward, MM.DPSKDemodulator.forward,
               MM.OQPSKModulator.forward, MM.OQPSKDemodulator.forward, MM.Pi4QPSKModulator.forward, MM.Pi4QPSKDemodulator.forward, MM.IdentityModulator.forward)
    ck.bound("inputs", f"every bit sequence of L = {tier(2, 3)} symbols (2 for orders > 16) in layouts (bL,), (2,bL), (2,2,bL): one query per output tensor")
    ck.bound("catalogue", f"{len(items) - 1} scheme/order/labelling/normalisation options, each also through ModulationRegistry.create where registered")
    ck.assume("values that depend on a few input bits are kept as finite tables whose leaves are computed by torch itself (exact float32/complex64): no reals-for-floats gap in this check")
    ck.assume("memory schemes: after reset_state() and eval(); DPSK: the reference symbol's bits are not returned; OQPSK: quadrature stream delayed by one symbol, its first output (reset state) unconstrained")
    ck.run_items(__name__, "work", items)
    ck.finish(min_obligations=40)


if __name__ == "__main__":
    main()
