"""Shared plumbing for all checks: tiers, work-item pool, obligation records, known findings,
replay files, evidence files and exit-code discipline.

Exit codes: 0 = every claimed obligation decided and holding (or a listed known finding);
            1 = at least one replayed violation that known_findings.json does not list;
            2 = harness error (inconclusive claimed obligation, NotEncodable, replay mismatch, ...).
"""
from __future__ import annotations

import hashlib
import inspect
import json
import os
import sys
import time
import traceback
from concurrent.futures import ProcessPoolExecutor, as_completed
import multiprocessing as mp

ROOT = os.path.dirname(os.path.dirname(os.path.abspath(__file__)))
TIER = os.environ.get("VERIF_TIER", "quick")
if TIER not in ("quick", "thorough"):
    TIER = "quick"
SEED = int(os.environ.get("VERIF_SEED", "0") or 0)
WORKERS = int(os.environ.get("VERIF_WORKERS", "0") or 0) or min(16, os.cpu_count() or 4)


def _worker_init(parent_pid):
    """a worker must not outlive the check that started it (e.g. when the check is killed by a timeout)"""
    import threading
    try:        # kill -USR1 <worker pid> prints its Python stack to stderr (debugging aid for stuck solver calls)
        import faulthandler
        import signal
        faulthandler.register(signal.SIGUSR1, all_threads=True)
    except Exception:  # noqa: BLE001
        pass

    def watch():
        while True:
            time.sleep(2.0)
            if os.getppid() != parent_pid:
                os._exit(3)
    threading.Thread(target=watch, daemon=True).start()


def tier(quick, thorough):
    return thorough if TIER == "thorough" else quick


# ------------------------------------------------------------------------------------------------
# obligation records (plain dicts so that they pickle across the pool)
# ------------------------------------------------------------------------------------------------
def ob(clause, config, status, *, what="", witness=None, queries=None, solver_s=0.0, paths=0,
       validated=0, sample=None, stretch=False, replay=None, note=""):
    """status: holds | violated | inconclusive | error.
    `violated` MUST come with witness + replay (dict with 'reproduced': bool)."""
    return dict(clause=clause, config=config, status=status, what=what, witness=witness,
                queries=queries or {}, solver_s=solver_s, paths=paths, validated=validated,
                sample=sample, stretch=stretch, replay=replay, note=note)


class Tally:
    """per-work-item accumulator for solver statistics"""

    def __init__(self):
        self.q = {}
        self.solver_s = 0.0
        self.paths = 0
        self.validated = 0

    def count(self, res, dt):
        self.q[res] = self.q.get(res, 0) + 1
        self.solver_s += dt

    def take(self):
        r = dict(queries=dict(self.q), solver_s=self.solver_s, paths=self.paths, validated=self.validated)
        self.q = {}
        self.solver_s = 0.0
        self.paths = 0
        self.validated = 0
        return r


def load_known():
    p = os.path.join(ROOT, "known_findings.json")
    if not os.path.exists(p):
        return []
    with open(p) as f:
        return json.load(f).get("findings", [])


def known_match(known, pid, o):
    """A finding names property + clause + config (exact strings) and optionally a `witness` subset."""
    for k in known:
        if k.get("property") != pid or k.get("clause") != o["clause"]:
            continue
        if "configs" in k:
            if o["config"] not in k["configs"]:
                continue
        elif k.get("config") != o["config"]:
            continue
        w = k.get("witness")
        if w:
            ow = o.get("witness") or {}
            if any(ow.get(key) != val for key, val in w.items()):
                continue
        return k
    return None


def _worker_entry(modname, fnname, item):
    import importlib
    import warnings
    warnings.filterwarnings("ignore")
    try:
        import torch
        torch.set_num_threads(1)
    except Exception:
        pass
    t0 = time.time()
    try:
        mod = importlib.import_module(modname)
        res = getattr(mod, fnname)(item)
        return dict(item=item, obs=res, wall=time.time() - t0)
    except BaseException as e:  # noqa
        return dict(item=item, obs=[ob("harness", str(item.get("config", item)), "error",
                                       what=f"{type(e).__name__}: {e}", note=traceback.format_exc()[-1500:])],
                    wall=time.time() - t0)


class Check:
    def __init__(self, pid, level="model_checking"):
        self.pid = pid
        self.level = level
        self.t0 = time.time()
        self.obs = []
        self.functions = {}
        self.bounds = {}
        self.stubs = []
        self.assumptions = []
        self.samples = []
        self.extra = {}
        self.known = load_known()
        self.item_walls = []

    # -- descriptive evidence --------------------------------------------------------------------
    def encoded(self, *objs):
        """record the functions/classes whose real source is executed symbolically"""
        for o in objs:
            try:
                f = inspect.getsourcefile(o)
                name = getattr(o, "__module__", "") + "." + getattr(o, "__qualname__", str(o))
                with open(f, "rb") as fh:
                    h = hashlib.sha256(fh.read()).hexdigest()[:12]
                self.functions[name] = f"{os.path.relpath(f, '/repo')}@{h}"
            except Exception:
                self.functions[str(o)] = "?"

    def bound(self, key, val):
        self.bounds[key] = val

    def stub(self, s):
        if s not in self.stubs:
            self.stubs.append(s)

    def assume(self, s):
        if s not in self.assumptions:
            self.assumptions.append(s)

    # -- running work ----------------------------------------------------------------------------
    def run_items(self, modname, fnname, items, workers=None, budget_s=None):
        """Run fn(item) -> [ob,...] for every item on a process pool. Items are dicts with 'config'.
        Items flagged stretch=True are submitted last; when budget_s runs out, unfinished stretch
        items are dropped (recorded as undecided stretch), unfinished claimed items are errors."""
        workers = workers or WORKERS
        if budget_s is None:        # safety net: no check may run for ever (a stuck item ends as inconclusive, never as success)
            budget_s = int(os.environ.get("VERIF_BUDGET_S", "0") or 0) or tier(1500, 4 * 3600)
        items = sorted(items, key=lambda it: bool(it.get("stretch")))
        if workers <= 1 or len(items) <= 1:
            for it in items:
                r = _worker_entry(modname, fnname, it)
                self._absorb(r)
            return
        ctx = mp.get_context("spawn")
        with ProcessPoolExecutor(max_workers=min(workers, len(items)), mp_context=ctx, initializer=_worker_init, initargs=(os.getpid(),)) as ex:
            futs = {ex.submit(_worker_entry, modname, fnname, it): it for it in items}
            try:
                for f in as_completed(futs, timeout=budget_s):
                    it = futs[f]
                    try:
                        self._absorb(f.result())
                    except Exception as e:  # worker process died (e.g. out of memory)
                        self.obs.append(ob("harness", str(it.get("config", it)), "error", what=f"worker failed: {type(e).__name__}: {e}",
                                           stretch=bool(it.get("stretch"))))
                    del futs[f]
            except TimeoutError:
                for f, it in futs.items():
                    f.cancel()
                    self.obs.append(ob("budget", str(it.get("config", it)),
                                       "inconclusive", what="tier wall budget exhausted",
                                       stretch=bool(it.get("stretch"))))
                for p in list(getattr(ex, "_processes", {}).values()):
                    p.terminate()

    def _absorb(self, r):
        self.item_walls.append((round(r["wall"], 2), str(r["item"].get("config", ""))[:80]))
        for o in r["obs"]:
            if r["item"].get("stretch"):
                o["stretch"] = True
            self.obs.append(o)

    def add(self, o):
        self.obs.append(o)

    # -- verdict ---------------------------------------------------------------------------------
    def finish(self, min_obligations=1):
        pid = self.pid
        viol, knownhits, errors, inconc, stretch_open = [], [], [], [], []
        q = {}
        solver_s = 0.0
        paths = 0
        validated = 0
        holds = 0
        for o in self.obs:
            for k, v in o["queries"].items():
                q[k] = q.get(k, 0) + v
            solver_s += o["solver_s"]
            paths += o["paths"]
            validated += o["validated"]
            st = o["status"]
            if st == "holds":
                holds += 1
            elif st == "violated":
                rp = o.get("replay") or {}
                if not rp.get("reproduced"):
                    o["what"] = "solver model does NOT reproduce on the real code (encoding/stub error): " + o["what"]
                    (stretch_open if o["stretch"] else errors).append(o)
                    continue
                k = known_match(self.known, pid, o)
                if k is not None:
                    knownhits.append((k, o))
                else:
                    viol.append(o)
            elif st == "inconclusive":
                (stretch_open if o["stretch"] else inconc).append(o)
            else:
                (stretch_open if o["stretch"] else errors).append(o)
        # print known findings (one line per listed finding hit)
        seen = set()
        for k, o in knownhits:
            key = (k["clause"], k.get("config", k.get("id", "")), json.dumps(k.get("witness"), sort_keys=True))
            if key in seen:
                continue
            seen.add(key)
            nhit = sum(1 for kk, _ in knownhits if kk is k)
            print(f"KNOWN-FINDING: property={pid} {k.get('what', o['what'])} [{o['clause']} @ {o['config'] if 'configs' not in k else str(nhit) + ' of ' + str(len(k['configs'])) + ' listed configurations'}]")
        os.makedirs(os.path.join(ROOT, "replays", pid), exist_ok=True)
        for o in viol:
            body = dict(property=pid, clause=o["clause"], config=o["config"], what=o["what"],
                        witness=o["witness"], replay=o["replay"])
            h = hashlib.sha256(json.dumps(body, sort_keys=True, default=str).encode()).hexdigest()[:12]
            path = os.path.join(ROOT, "replays", pid, h + ".json")
            with open(path, "w") as f:
                json.dump(body, f, indent=1, default=str)
            print(f"VIOLATION property={pid} replay={path}")
            print(f"  clause={o['clause']} config={o['config']}: {o['what']}")
        for o in errors[:20]:
            print(f"HARNESS-ERROR property={pid} clause={o['clause']} config={o['config']}: {o['what']}")
            if o.get("note"):
                print("   " + o["note"].replace("\n", "\n   "))
        for o in inconc[:20]:
            print(f"INCONCLUSIVE property={pid} clause={o['clause']} config={o['config']}: {o['what']}")
        decided = holds + len(viol) + len(knownhits)
        if decided < min_obligations and not errors:
            errors.append(ob("harness", "-", "error", what=f"only {decided} obligations decided (< {min_obligations}): vacuous run"))
            print(f"HARNESS-ERROR property={pid}: vacuous run ({decided} obligations)")
        wall = time.time() - self.t0
        # ---- evidence ----------------------------------------------------------------------------
        samples = list(self.samples)
        for o in self.obs:
            if o.get("sample") is not None and len(samples) < 12:
                samples.append(dict(clause=o["clause"], config=o["config"], status=o["status"], obligation=o["sample"]))
        for k, o in knownhits[:6]:
            samples.append(dict(clause=o["clause"], config=o["config"], status="known-finding", witness=o["witness"], what=o["what"]))
        for o in viol[:6]:
            samples.append(dict(clause=o["clause"], config=o["config"], status="VIOLATION", witness=o["witness"], what=o["what"]))
        if not samples:
            samples = [dict(clause=o["clause"], config=o["config"], status=o["status"]) for o in self.obs[:5]]
        by_clause = {}
        for o in self.obs:
            d = by_clause.setdefault(o["clause"], {})
            d[o["status"] + ("(stretch)" if o["stretch"] and o["status"] != "holds" else "")] = d.get(o["status"] + ("(stretch)" if o["stretch"] and o["status"] != "holds" else ""), 0) + 1
        configs = sorted({o["config"] for o in self.obs})
        cov = dict(
            states=max(paths, 1) if self.obs else 0,
            transitions=max(sum(q.values()), 1) if self.obs else 0,
            traces_validated_against_impl=validated,
            samples=samples,
            evaluations=len(self.obs),
            distinct_nontrivial=len({(o["clause"], o["config"]) for o in self.obs if o["status"] in ("holds", "violated")}),
            rule="one obligation = (clause, configuration) decided by SMT queries over all symbolic inputs of the stated shape; distinct = distinct (clause, configuration) pairs that were decided",
            obligations=len(self.obs),
            discharged=holds,
            known_findings_hit=len(seen),
            violations_new=len(viol),
            inconclusive=len(inconc),
            harness_errors=len(errors),
            stretch_undecided=[dict(clause=o["clause"], config=o["config"], what=o["what"]) for o in stretch_open][:40],
            symbolic_paths=paths,
            solver_queries=q,
            solver_time_s=round(solver_s, 2),
            obligations_by_clause=by_clause,
            configurations=len(configs),
            configuration_list=configs[:400],
            functions_encoded=self.functions,
            bounds=self.bounds,
            stubs=self.stubs,
            slowest_items=sorted(self.item_walls, reverse=True)[:8],
            exhaustive=False,
            explanation="bounded symbolic execution of the real code; each obligation is the negated property handed to z3 (unsat = holds for every input inside the bound; sat = concrete input, replayed on the real code before being reported)",
        )
        cov.update(self.extra)
        ev = dict(property_id=pid, tier=TIER, seed=SEED, level=self.level, coverage=cov,
                  assumptions=self.assumptions, wall_s=round(wall, 2), violations=len(viol))
        os.makedirs(os.path.join(ROOT, "evidence"), exist_ok=True)
        with open(os.path.join(ROOT, "evidence", pid + ".json"), "w") as f:
            json.dump(ev, f, indent=1, default=str)
        print(f"[{pid}] tier={TIER} obligations={len(self.obs)} holds={holds} known={len(knownhits)} new-violations={len(viol)} "
              f"inconclusive={len(inconc)} errors={len(errors)} stretch-open={len(stretch_open)} paths={paths} queries={q} "
              f"solver={solver_s:.1f}s wall={wall:.1f}s")
        if viol:
            sys.exit(1)
        if errors or inconc:
            sys.exit(2)
        sys.exit(0)


def replay_main(modname):
    """`./check <id> --replay file` → module.replay(body) -> bool (True = violation reproduces)."""
    if len(sys.argv) >= 3 and sys.argv[1] == "--replay":
        import importlib
        spec = getattr(sys.modules.get("__main__"), "__spec__", None)
        if modname == "__main__" and spec is not None:
            modname = spec.name
        if os.environ.get("VERIF_TIER") != "thorough":
            # replays look configurations up in the catalogues: use the widest (thorough) catalogue regardless of the caller's tier
            env = dict(os.environ, VERIF_TIER="thorough")
            os.execve(sys.executable, [sys.executable, "-m", modname] + sys.argv[1:], env)
        with open(sys.argv[2]) as f:
            body = json.load(f)
        mod = importlib.import_module(modname)
        bad = mod.replay(body)
        print(("VIOLATION reproduces: " if bad else "does not reproduce: ") + body.get("what", ""))
        sys.exit(1 if bad else 0)
