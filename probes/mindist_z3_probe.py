"""Probe: z3 on 'exists nonzero message with codeword weight < d' for real kaira generator matrices."""
import warnings; warnings.filterwarnings("ignore")
import sys, time, io, contextlib
import torch, z3
from kaira.models.fec.encoders import *

def mindist_query(G, d, timeout=120):
    k, n = G.shape
    m = [z3.Bool(f"m{i}") for i in range(k)]
    cw = []
    for j in range(n):
        terms = [m[i] for i in range(k) if G[i, j] == 1]
        if not terms: cw.append(z3.BoolVal(False)); continue
        x = terms[0]
        for t in terms[1:]: x = z3.Xor(x, t)
        cw.append(x)
    s = z3.Solver(); s.set("timeout", timeout * 1000)
    s.add(z3.Or(m))
    s.add(z3.AtMost(*cw, d - 1))
    t0 = time.time(); r = s.check(); dt = time.time() - t0
    return str(r), dt

def exact(G):
    import itertools, numpy as np
    G = G.numpy().astype(int); k, n = G.shape
    if k > 16: return None
    best = n
    for i in range(1, 2**k):
        msg = np.array([(i >> b) & 1 for b in range(k)])
        best = min(best, int(((msg @ G) % 2).sum()))
    return best

cases = []
cases.append(("hamming3", HammingCodeEncoder(3), 3))
cases.append(("hamming4ext", HammingCodeEncoder(4, extended=True), 4))
cases.append(("hamming5", HammingCodeEncoder(5), 3))
cases.append(("hamming6", HammingCodeEncoder(6), 3))
cases.append(("golay", GolayCodeEncoder(), 7))
cases.append(("golayext", GolayCodeEncoder(extended=True), 8))
cases.append(("rm(2,5)", ReedMullerCodeEncoder(2, 5), 8))
cases.append(("rm(1,6)", ReedMullerCodeEncoder(1, 6), 32))
cases.append(("rm(3,6)", ReedMullerCodeEncoder(3, 6), 8))
for mu, delta in [(4, 5), (4, 7), (5, 5), (5, 7), (5, 11), (6, 7), (6, 11), (6, 15)]:
    try:
        cases.append((f"bch({mu},{delta})", BCHCodeEncoder(mu, delta), delta))
    except Exception as e:
        print("bch", mu, delta, "ERR", e)
for name, enc, d in cases:
    G = enc.generator_matrix
    r, dt = mindist_query(G, d)
    ex = exact(G)
    print(f"{name:14s} (n={G.shape[1]},k={G.shape[0]}) claim d>={d}: z3 says exists-lighter={r} in {dt:.2f}s   exact={ex}")
    sys.stdout.flush()
