"""Inventory of aten ops hit by the kaira components the properties anchor (concrete runs under a logging mode)."""
import warnings; warnings.filterwarnings("ignore")
import io, contextlib, collections
import torch
from torch.utils._python_dispatch import TorchDispatchMode

class Log(TorchDispatchMode):
    def __init__(self): super().__init__(); self.ops = collections.Counter()
    def __torch_dispatch__(self, func, types, args=(), kwargs=None):
        self.ops[str(func)] += 1
        return func(*args, **(kwargs or {}))

ALL = collections.Counter()
def run(name, fn):
    with Log() as L:
        try:
            with contextlib.redirect_stdout(io.StringIO()):
                fn()
            err = None
        except Exception as e:
            err = f"{type(e).__name__}: {e}"
    ALL.update(L.ops)
    print(f"== {name}: {len(L.ops)} ops{' ERR ' + err if err else ''}")
    print("   ", " ".join(sorted(k.replace('aten.', '') for k in L.ops)))

from kaira.models.fec.encoders import *
from kaira.models.fec.decoders import *
enc = HammingCodeEncoder(mu=3)
bch = BCHCodeEncoder(mu=4, delta=5)
rm = ReedMullerCodeEncoder(1, 3)
spc = SingleParityCheckCodeEncoder(3)
H = torch.tensor([[1,0,1,1,0,0],[0,1,1,0,1,0],[0,0,0,1,1,1]], dtype=torch.float32)
ldpc = LDPCCodeEncoder(H)
with contextlib.redirect_stdout(io.StringIO()):
    pol = PolarCodeEncoder(4, 8, frozen_zeros=True)
m4 = torch.tensor([[1., 0, 1, 1]])
run("hamming enc+inv", lambda: enc.inverse_encode(enc(m4)))
run("syndrome dec", lambda: SyndromeLookupDecoder(enc)(enc(m4)))
d = BruteForceMLDecoder(enc)
run("ml dec", lambda: d(enc(m4)))
bm = BerlekampMasseyDecoder(bch)
c = bch(torch.ones(1, 7)); c[0, 3] = 1 - c[0, 3]
run("bm dec", lambda: bm(c))
run("rm inverse", lambda: rm.inverse_encode(rm(m4)))
rd = ReedMullerDecoder(rm)
run("rm dec hard", lambda: rd(rm(m4)))
rds = ReedMullerDecoder(rm, input_type="soft")
run("rm dec soft", lambda: rds(1 - 2 * rm(m4)))
w = WagnerSoftDecisionDecoder(spc)
run("wagner", lambda: w(torch.tensor([[-2.1, 1.5, -1.8, 0.2]])))
bp = BeliefPropagationDecoder(ldpc, bp_iters=3)
run("bp", lambda: bp(1 - 2 * ldpc(torch.tensor([[1., 0, 1]]))))
ms = MinSumLDPCDecoder(ldpc, bp_iters=3)
run("minsum", lambda: ms(1 - 2 * ldpc(torch.tensor([[1., 0, 1]]))))
run("polar enc", lambda: pol(m4))
sc = SuccessiveCancellationDecoder(pol, regime="min_sum")
run("sc minsum", lambda: sc(1 - 2 * pol(m4)))
with contextlib.redirect_stdout(io.StringIO()):
    pbp = BeliefPropagationPolarDecoder(pol, bp_iters=3, regime="min_sum")
run("polar bp", lambda: pbp(1 - 2 * pol(m4)))

from kaira.modulations import *
bits = torch.tensor([[1., 0, 1, 1, 0, 0, 1, 0]])
for nm, mo, de in [("bpsk", BPSKModulator(), BPSKDemodulator()), ("qpsk", QPSKModulator(), QPSKDemodulator()),
                   ("psk8", PSKModulator(8), PSKDemodulator(8)), ("qam16", QAMModulator(16), QAMDemodulator(16)),
                   ("pam4", PAMModulator(4), PAMDemodulator(4)), ("dpsk4", DPSKModulator(4), DPSKDemodulator(4)),
                   ("oqpsk", OQPSKModulator(), OQPSKDemodulator()), ("pi4", Pi4QPSKModulator(), Pi4QPSKDemodulator())]:
    b = bits[:, :6] if nm == "psk8" else bits
    run(nm + " hard", lambda: de(mo(b)))
    run(nm + " soft", lambda: de(mo(b), 0.1))

from kaira.channels import *
x = torch.randn(2, 8); xc = torch.complex(x, x)
run("awgn", lambda: (AWGNChannel(snr_db=3.0)(x), AWGNChannel(avg_noise_power=0.1)(xc)))
run("laplace", lambda: (LaplacianChannel(snr_db=3.0)(x), LaplacianChannel(avg_noise_power=0.1)(xc)))
run("fading", lambda: (FlatFadingChannel("rician", 3, k_factor=2.0, snr_db=3.0)(xc), FlatFadingChannel("rayleigh", 3, avg_noise_power=.1)(x)))
b01 = torch.tensor([[0., 1, 1, 0]])
run("bsc/bec/z", lambda: (BinarySymmetricChannel(0.1)(b01), BinaryErasureChannel(0.2)(b01), BinaryZChannel(0.3)(b01), BinarySymmetricChannel(0.1)(2 * b01 - 1)))
from kaira.constraints import *
run("constraints", lambda: (TotalPowerConstraint(1.0)(x), AveragePowerConstraint(1.0)(xc), PeakAmplitudeConstraint(1.0)(x), PerAntennaPowerConstraint(uniform_power=1.0)(x.reshape(2, 2, 4)), TotalPowerConstraint(1.0)(x[0])))
run("papr", lambda: PAPRConstraint(2.0)(x))
from kaira.metrics.signal import BitErrorRate, BlockErrorRate
def met():
    a = BitErrorRate(); a.update(b01, 1 - b01); a.compute(); a(b01, b01); a.reset()
    b = BlockErrorRate(block_size=2); b.update(b01, 1 - b01); b.compute(); b(b01, b01); b.reset()
run("metrics", met)
from kaira.utils.snr import *
run("snr utils", lambda: (calculate_snr(x, x + 0.1), add_noise_for_snr(x, 3.0), noise_power_to_snr(1.0, 0.1), snr_linear_to_db(2.0)))
print("\nTOTAL distinct aten ops:", len(ALL))
print(" ".join(sorted(k.replace('aten.', '') for k in ALL)))
