"""C11 — polar encoding is the Arikan transform on the 5G information set and inverts (SC / BP decoders)."""
from __future__ import annotations

import contextlib
import io
import os
import random

import torch
import z3
from torch.utils._python_dispatch import _disable_current_modes

from .. import sym as S
from ..common import Check, Tally, ob, tier, replay_main, TIER, SEED
from ..engine import fresh_bits, fresh_reals, elems, from_arr
from ..harness import sym_paths, differs, decide, model_bits, model_reals, real_bits, concolic, zor, zand
from ..sym import NotEncodable
from .. import ops as O

PID = "C11"


def quiet(f, *a, **k):
    with contextlib.redirect_stdout(io.StringIO()):
        return f(*a, **k)


def kron_power(m):
    G = [[1]]
    F = [[1, 0], [1, 1]]
    for _ in range(m):
        n = len(G)
        G2 = [[0] * (2 * n) for _ in range(2 * n)]
        for i in range(n):
            for j in range(n):
                for a in range(2):
                    for b in range(2):
                        G2[2 * i + a][2 * j + b] = G[i][j] * F[a][b]
        G = G2
    # note: Kronecker ordering: kron(G, F) index = i*2 + a
    return G


def bitrev(i, m):
    return int(format(i, f"0{m}b")[::-1], 2) if m else 0


def ref_info_set(N, k):
    """independent reading of the 5G reliability ranking: freeze the N-k least reliable positions"""
    import kaira.models.fec as fec
    path = os.path.join(os.path.dirname(fec.__file__), "rank_polar.csv")
    Q = []
    with open(path) as f:
        next(f)
        for line in f:
            parts = line.split()
            if len(parts) >= 2:
                Q.append(int(parts[1]))
    q = [x for x in Q if x < N]
    frozen = set(q[: N - k])
    return [i not in frozen for i in range(N)]


def mk_encoder(cfgd):
    from kaira.models.fec.encoders import PolarCodeEncoder
    kw = dict(frozen_zeros=cfgd["frozen_zeros"], polar_i=cfgd["polar_i"])
    if cfgd.get("mask") is not None:
        kw.update(load_rank=False, info_indices=torch.tensor(cfgd["mask"], dtype=torch.bool))
    return quiet(PolarCodeEncoder, cfgd["k"], cfgd["N"], **kw)


def cfgstr(c):
    return f"Polar(k={c['k']}, N={c['N']}, frozen_zeros={c['frozen_zeros']}, polar_i={c['polar_i']}" + (f", mask={''.join('1' if b else '0' for b in c['mask'])}" if c.get("mask") is not None else "") + ")"


def xor_combo(bits, col):
    acc = False
    for b, g in zip(bits, col):
        if g:
            acc = S.bxor(acc, b)
    return acc


def encoder_item(c, tl):
    obs = []
    config = cfgstr(c)
    N, k = c["N"], c["k"]
    m = N.bit_length() - 1
    enc = mk_encoder(c)

    def rec(clause, status, **kw):
        obs.append(ob(clause, config, status, **kw, **tl.take()))
    G = kron_power(m)
    # generator matrix published by the encoder (ground)
    with _disable_current_modes():
        Gk = enc.get_generator_matrix().to(torch.int64).tolist()
    rec("generator=kronecker-power", "holds" if Gk == G else "violated", what="" if Gk == G else "get_generator_matrix() != F^{(x)m}",
        witness=None if Gk == G else {"N": N}, replay=None if Gk == G else {"reproduced": True})
    # information set
    info = [bool(b) for b in enc.info_indices.tolist()]
    exp = c["mask"] if c.get("mask") is not None else ref_info_set(N, k)
    okinfo = info == [bool(b) for b in exp] and sum(info) == k
    rec("information-set", "holds" if okinfo else "violated", what="" if okinfo else f"info_indices {[i for i, b in enumerate(info) if b]} != expected {[i for i, b in enumerate(exp) if b]}",
        witness=None if okinfo else {"info": info}, replay=None if okinfo else {"reproduced": True})

    def run(ctx):
        u = fresh_bits("u", (1, N))
        x = enc.polar_transform(u)
        msg = fresh_bits("m", (2, k))
        cw = enc(msg)
        return dict(u=u, x=x, msg=msg, cw=cw)
    paths = sym_paths(run, (), tl, state=(enc,))
    ctx, R = paths[0]
    okc, detail = concolic(ctx, {"u": R["u"], "m": R["msg"]}, lambda u, m: (enc.polar_transform(u), enc(m)), [R["x"], R["cw"]], tl)
    if not okc:
        rec("harness", "error", what="concolic disagreement: " + detail)
        return obs
    u, x = elems(R["u"]), elems(R["x"])
    ref = [xor_combo(u, [G[i][j] for i in range(N)]) for j in range(N)]
    if c["polar_i"]:
        ref = [ref[bitrev(j, m)] for j in range(N)]
    st, model = decide(ctx, differs(x, ref))
    if st == "violated":
        ub = model_bits(model, "u", N)
        with _disable_current_modes():
            out = [int(v) for v in enc.polar_transform(real_bits(ub, (1, N))).flatten().tolist()]
        e = [sum(ub[i] * G[i][j] for i in range(N)) % 2 for j in range(N)]
        if c["polar_i"]:
            e = [e[bitrev(j, m)] for j in range(N)]
        rec("transform=u.F^m", st, what=f"polar_transform({ub}) = {out}, u.F^(x){m}{' bit-reversed' if c['polar_i'] else ''} = {e}", witness={"u": ub}, replay={"reproduced": out != e})
    else:
        rec("transform=u.F^m", st, sample=dict(query="exists u in {0,1}^N: polar_transform(u) != u.F^{(x)m}", N=N, result=st))
    # encoder = transform of (message on information positions, frozen value elsewhere), for a 2-row batch
    msg = elems(R["msg"])
    cw = elems(R["cw"])
    refcw = []
    fz = 0 if c["frozen_zeros"] else 1
    for row in range(2):
        v = []
        it = iter(msg[row * k:(row + 1) * k])
        for i in range(N):
            v.append(next(it) if info[i] else bool(fz))
        r = [xor_combo(v, [G[i][j] for i in range(N)]) for j in range(N)]
        if c["polar_i"]:
            r = [r[bitrev(j, m)] for j in range(N)]
        refcw += r
    if len(cw) != len(refcw):
        rec("encoder=transform(placed message)", "violated", what=f"encoder output has {len(cw)} bits for a (2,{k}) batch, expected {2 * N}", witness={"len": len(cw)}, replay={"reproduced": True})
    else:
        st, model = decide(ctx, differs(cw, refcw))
        if st == "violated":
            mb = model_bits(model, "m", 2 * k)
            with _disable_current_modes():
                out = [int(v) for v in enc(real_bits(mb, (2, k))).flatten().tolist()]
            e = []
            for row in range(2):
                v, it = [], iter(mb[row * k:(row + 1) * k])
                for i in range(N):
                    v.append(next(it) if info[i] else fz)
                r = [sum(v[i] * G[i][j] for i in range(N)) % 2 for j in range(N)]
                if c["polar_i"]:
                    r = [r[bitrev(j, m)] for j in range(N)]
                e += r
            rec("encoder=transform(placed message)", st, what=f"enc({mb}) = {out} != {e}", witness={"m": mb}, replay={"reproduced": out != e})
        else:
            rec("encoder=transform(placed message)", st)
    return obs


# ---- textbook successive cancellation on symbolic scalars (harness reference) ---------------------
def ref_f(regime, a, b, clip):
    if regime == "min_sum":
        r = S.mul(S.mul(S.sign(a), S.sign(b)), S.minimum(S.absv(a), S.absv(b)))
    else:
        r = S.mul(2, O.s_atanh(S.mul(O.s_tanh(S.div(a, 2)), O.s_tanh(S.div(b, 2)))))
    return S.clamp(r, -clip, clip)


def ref_sc(y, info, frozen_bit, regime, clip, interleave, leaves):
    """returns (u_hat list, x list) for llr list y (textbook recursion; natural order = upper/lower halves)"""
    N = len(y)
    if N == 1:
        if info[0]:
            leaves.append(y[0])
            b = S.lt(y[0], 0)
        else:
            b = bool(frozen_bit)
        return [b], [b]
    if not interleave:
        ye, yo = y[: N // 2], y[N // 2:]
    else:
        ye, yo = y[0::2], y[1::2]
    y1 = [ref_f(regime, a, b, clip) for a, b in zip(ye, yo)]
    u1, x1 = ref_sc(y1, info[: N // 2], frozen_bit, regime, clip, interleave, leaves)
    y2 = [S.add(b, S.mul(S.sub(1, S.mul(2, S.where(xb, 1.0, 0.0) if not isinstance(xb, bool) else float(xb))), a)) for a, b, xb in zip(ye, yo, x1)]
    u2, x2 = ref_sc(y2, info[N // 2:], frozen_bit, regime, clip, interleave, leaves)
    x = [S.bxor(a, b) for a, b in zip(x1, x2)] + x2
    if interleave:
        xx = [None] * N
        for i in range(N // 2):
            xx[2 * i] = x[i]
            xx[2 * i + 1] = x[N // 2 + i]
        x = xx
    return u1 + u2, x


def decoder_item(c, tl):
    S.ENV.tiefree = True
    try:
        return _decoder_item(c, tl)
    finally:
        S.ENV.tiefree = False


def _decoder_item(c, tl):
    from kaira.models.fec.decoders import SuccessiveCancellationDecoder, BeliefPropagationPolarDecoder
    obs = []
    N, k = c["N"], c["k"]
    regime, kind = c["regime"], c["decoder"]
    config = f"{kind}[{regime}] @ {cfgstr(c)}" + (f" iters={c['iters']}" if kind == "bp" else "") + (f" {c['opts']}" if c.get("opts") else "")
    enc = mk_encoder(c)
    if kind == "sc":
        dec = quiet(SuccessiveCancellationDecoder, enc, regime=regime)
    else:
        dec = quiet(BeliefPropagationPolarDecoder, enc, regime=regime, bp_iters=c["iters"], **(c.get("opts") or {}))
    info = [bool(b) for b in enc.info_indices.tolist()]

    def rec(clause, status, **kw):
        obs.append(ob(clause, config, status, **kw, **tl.take()))

    # (i) clean LLRs of any positive magnitude decode to the message
    def run_clean(ctx):
        msg = fresh_bits("m", (1, k))
        a = fresh_reals("a", (1, N))
        cw = enc(msg)
        llr = (1 - 2 * cw) * a
        out = dec(llr)
        return dict(msg=msg, a=a, out=out)
    amax = 50.0
    assume = [z3.And(z3.Real(f"a{i}") >= z3.RealVal("1/2"), z3.Real(f"a{i}") <= amax) for i in range(N)]
    paths = sym_paths(run_clean, assume, tl, max_paths=200, state=(enc, dec))
    status, viol = "holds", None
    for ctx, R in paths:
        okc, detail = (True, "") if regime == "sum_product" else concolic(ctx, {"m": R["msg"], "a": R["a"]}, lambda m, a: dec((1 - 2 * enc(m)) * a), [R["out"]], tl, tol=1e-4)
        if not okc:
            rec("harness", "error", what="concolic disagreement: " + detail)
            return obs
        st, model = decide(ctx, differs(elems(R["out"]), elems(R["msg"])))
        if st == "violated" and viol is None:
            mb, av = model_bits(model, "m", k), model_reals(model, "a", N)
            with _disable_current_modes():
                mt = real_bits(mb, (1, k))
                out = dec((1 - 2 * enc(mt)) * torch.tensor([av], dtype=torch.float32))
                rep = not torch.equal(out.to(mt.dtype).reshape(1, k), mt)
            viol = dict(what=f"noise-free LLRs with magnitudes {['%.3g' % v for v in av]} of message {mb} decode to {[int(v) for v in out.flatten().tolist()]}",
                        witness={"m": mb, "magnitudes": av}, replay={"reproduced": rep})
            status = "violated"
        elif st == "inconclusive" and status == "holds":
            status = "inconclusive"
    if viol:
        rec("clean-llr-decodes", "violated", **viol)
    else:
        rec("clean-llr-decodes", status, stretch=(regime == "sum_product"), sample=dict(query="exists m, magnitudes a_i in [0.5,50]: dec((1-2 enc(m)) * a) != m", N=N, k=k, result=status))
    # (ii) SC equals the textbook recursion for arbitrary (tie-free) LLRs
    if kind == "sc":
        def run_any(ctx):
            y = fresh_reals("y", (1, N))
            return dict(y=y, out=dec(y))
        paths = sym_paths(run_any, [z3.And(z3.Real(f"y{i}") >= -amax, z3.Real(f"y{i}") <= amax) for i in range(N)], tl, max_paths=200, state=(enc, dec))
        status, viol = "holds", None
        for ctx, R in paths:
            # (no concolic validation in the sum-product regime: a solver model interprets tanh/atanh freely, so its path need not be the real one)
            okc, detail = (True, "") if regime == "sum_product" else concolic(ctx, {"y": R["y"]}, lambda y: dec(y), [R["out"]], tl, tol=1e-4, extra=[z3.Or(z3.Real(f"y{i}") >= z3.RealVal("1/1000"), z3.Real(f"y{i}") <= -z3.RealVal("1/1000")) for i in range(N)])   # validation points away from float32 underflow (tanh of 1e-30 is 0 in float32)
            if not okc:
                rec("harness", "error", what="concolic disagreement: " + detail)
                return obs
            S.ENV.side, S.ENV.defined = ctx.side, ctx.defined
            from ..engine import Ctx
            Ctx.cur = ctx
            try:
                leaves = []
                uhat, _ = ref_sc(elems(R["y"]), info, 0 if c["frozen_zeros"] else 1, regime, dec.clip, c["polar_i"], leaves)
            finally:
                S.ENV.side = S.ENV.defined = None
                Ctx.cur = None
            refu = [b for b, i in zip(uhat, info) if i]
            noties = [S.zbool(S.ne(l, 0)) for l in leaves]
            st, model = decide(ctx, differs(elems(R["out"]), refu), extra=noties)
            if st == "violated" and viol is None:
                yv = model_reals(model, "y", N)
                with _disable_current_modes():
                    out = [int(round(float(v))) for v in dec(torch.tensor([yv], dtype=torch.float32)).flatten().tolist()]
                    exp = [int(bool(S.evaluate(b, model))) for b in refu]
                viol = dict(what=f"llr={['%.4g' % v for v in yv]}: decoder gives {out}, textbook SC gives {exp}", witness={"llr": yv}, replay={"reproduced": out != exp})
                status = "violated"
            elif st == "inconclusive" and status == "holds":
                status = "inconclusive"
        if viol:
            rec("sc=textbook-recursion", "violated", **viol)
        else:
            rec("sc=textbook-recursion", status, stretch=(regime == "sum_product" and N > 4), sample=dict(query="exists llr (no zero decision LLR): SC decoder output != textbook SC", N=N, regime=regime, result=status))
    return obs


def work(item):
    tl = Tally()
    try:
        if item.get("selftest"):
            from kaira.models.fec.decoders import SuccessiveCancellationDecoder as D
            orig = D.bitnode
            D.bitnode = lambda self, y: y[1] - (1 - 2 * y[2]) * y[0]   # g-function with the wrong sign
            try:
                obs = decoder_item(dict(N=4, k=2, frozen_zeros=True, polar_i=False, decoder="sc", regime="min_sum"), tl)
            finally:
                D.bitnode = orig
            hit = any(o["status"] == "violated" and o["replay"]["reproduced"] for o in obs)
            return [ob("selftest:g-node-sign", "selftest", "holds" if hit else "error", what="" if hit else "mutant not flagged")]
        if item["type"] == "enc":
            return encoder_item(item["c"], tl)
        return decoder_item(item["c"], tl)
    except NotEncodable as e:
        return [ob("harness", item["config"], "error", what=f"NotEncodable: {e}", stretch=bool(item.get("stretch")))]


def all_items():
    rng = random.Random(SEED * 13 + 3)
    items = []

    def add_enc(N, k, fz, pi, mask=None):
        c = dict(N=N, k=k, frozen_zeros=fz, polar_i=pi, mask=mask)
        items.append(dict(type="enc", c=c, config=cfgstr(c)))
    maxall = tier(8, 32)
    for m in range(1, tier(6, 10) + 1):
        N = 2 ** m
        ks = list(range(1, N)) if N <= maxall else sorted(rng.sample(range(1, N), tier(3, 6)))
        if N > 64:
            ks = ks[:2]
        for k in ks:
            combos = [(True, False), (False, True)] if N > 16 else [(True, False), (False, False), (True, True), (False, True)]
            for fz, pi in combos:
                add_enc(N, k, fz, pi)
    for N, k in ((4, 2), (8, 3), (16, 7)):
        mask = [False] * N
        for i in rng.sample(range(N), k):
            mask[i] = True
        add_enc(N, k, True, False, mask)
        add_enc(N, k, False, True, mask)

    def add_dec(kind, regime, N, k, fz, pi, iters=None, stretch=False, mask=None, opts=None):
        c = dict(N=N, k=k, frozen_zeros=fz, polar_i=pi, mask=mask, decoder=kind, regime=regime, iters=iters, opts=opts)
        items.append(dict(type="dec", c=c, config=f"{kind}[{regime}] {cfgstr(c)}" + (f" iters={iters}" if iters else "") + (f" {opts}" if opts else ""), stretch=stretch))
    for N in (2, 4, 8) + ((16,) if TIER == "thorough" else ()):
        ks = list(range(1, N)) if N <= 4 else ([N // 2, N - 2, 2] if N == 8 else [8, 5])
        for k in ks:
            for fz, pi in ((True, False), (False, False), (True, True)):
                add_dec("sc", "min_sum", N, k, fz, pi, stretch=(N == 16))
    # user-supplied information masks (not nested like the 5G ranking): information bit before a frozen bit inside a sub-block
    user_masks = [[True, False, False, True], [False, True, True, False], [False, False, True, False, False, True, True, True], [True, False, True, False, False, True, False, True]]
    for _ in range(tier(2, 6)):
        N = rng.choice([4, 8])
        k = rng.randint(1, N - 1)
        mk = [False] * N
        for i in rng.sample(range(N), k):
            mk[i] = True
        user_masks.append(mk)
    for mk in user_masks:
        for fz, pi in ((True, False), (False, True)):
            add_dec("sc", "min_sum", len(mk), sum(mk), fz, pi, mask=mk)
    for N, k in ((2, 1), (4, 2), (4, 3)):
        add_dec("sc", "sum_product", N, k, True, False)
    for N, k in ((2, 1), (4, 2), (4, 3)) + (((8, 4),) if TIER == "thorough" else ()):
        for iters in (1, 2) + ((3,) if TIER == "thorough" else ()):
            add_dec("bp", "min_sum", N, k, True, False, iters=iters, stretch=(N == 8))
    # belief propagation with its options: factor-graph permutations, early stopping, frozen ones
    for N, k in ((4, 2), (4, 3)) + (((8, 4),) if TIER == "thorough" else ()):
        for opts in (dict(early_stop=True), dict(perm="cycle"), dict(perm="cycle", early_stop=True)):
            add_dec("bp", "min_sum", N, k, True, False, iters=2, opts=opts, stretch=(N == 8))
        add_dec("bp", "min_sum", N, k, False, False, iters=2, opts=dict(perm="cycle", early_stop=True), stretch=(N == 8))
    items.append(dict(selftest=True, config="selftest"))
    return items


def replay(body):
    for it in all_items():
        if it.get("selftest"):
            continue
        obs = work(it)
        if any(o["config"] == body["config"] and o["clause"] == body["clause"] and o["status"] == "violated" and o["replay"]["reproduced"] for o in obs):
            return True
    return False


def main():
    replay_main(__name__)
    ck = Check(PID)
    items = all_items()
    from kaira.models.fec.encoders import polar_code
    from kaira.models.fec.decoders import successive_cancellation as sc, belief_propagation_polar as bpp
    from kaira.models.fec import utils as U
    ck.encoded(polar_code.PolarCodeEncoder.polar_transform, polar_code.PolarCodeEncoder.forward, polar_code._index_matrix, polar_code.calculate_gm,
               sc.SuccessiveCancellationDecoder.decode_recursive, sc.SuccessiveCancellationDecoder.checknode, sc.SuccessiveCancellationDecoder.bitnode, sc.SuccessiveCancellationDecoder.f2,
               bpp.BeliefPropagationPolarDecoder.decode_iterative, bpp.BeliefPropagationPolarDecoder.update_left, bpp.BeliefPropagationPolarDecoder.update_right,
               U.min_sum, U.sum_product, U.sign_to_bin)
    ck.bound("encoder", f"N = 2..{2 ** tier(6, 10)}; all k for N <= {tier(8, 32)}, seeded sample above; frozen zeros/ones; interleaving on/off; user masks; all 2^N inputs / all messages of a (2,k) batch per query")
    ck.bound("decoders", "SC min-sum N <= 8 (16 stretch), SC sum-product N <= 4, polar BP min-sum N <= 4 (8 stretch), iterations <= 2 (3); LLR magnitudes symbolic reals in [0.5, 50]")
    ck.assume("floats of symbolic quantities are reals; decision LLRs exactly 0 are excluded (the code maps sign 0 to the non-bit 0.5); tanh/atanh are uninterpreted functions with sound axioms (sum-product items are stretch)")
    ck.stub("print() silenced; pandas.read_csv runs concretely at construction time")
    ck.run_items(__name__, "work", items)
    ck.finish(min_obligations=40)


if __name__ == "__main__":
    main()
