"""C13 — flat-fading channels apply block-constant, correctly normalised gains: y = h.x + n."""
from __future__ import annotations

from fractions import Fraction

import torch
import z3
from torch.utils._python_dispatch import _disable_current_modes

from .. import sym as S
from ..common import Check, Tally, ob, tier, replay_main, TIER
from ..engine import fresh_reals, elems, from_arr
from ..harness import sym_paths, decide_nra as decide, decide_any, zor
from ..sym import NotEncodable
from .c07 import parts, sq, mean_power, bounds, with_draws

PID = "C13"


def mkch(fading, Tc, k=None, snr=None, power=None):
    from kaira.channels import FlatFadingChannel
    kw = {}
    if fading == "rician":
        kw["k_factor"] = k
    if fading == "lognormal":
        kw["shadow_sigma_db"] = 4.0
    if snr is not None:
        kw["snr_db"] = snr
    else:
        kw["avg_noise_power"] = power if power is not None else 0.1
    return FlatFadingChannel(fading, Tc, **kw)


def cmul(a, b):
    a, b = S.tocx(a), S.tocx(b)
    return S.Cx(S.sub(S.mul(a.re, b.re), S.mul(a.im, b.im)), S.add(S.mul(a.re, b.im), S.mul(a.im, b.re)))


def expectation(p):
    """E[p] for a polynomial in independent unit-variance zero-mean draws (moment lemma: E g = 0, E g^2 = 1); degree <= 2 per draw"""
    p = S.topoly(p)
    tot = Fraction(0)
    for m, c in p.t.items():
        term = c
        for aid, pw in m:
            if pw == 1:
                term = 0
                break
            if pw == 2:
                continue
            raise NotEncodable("moment lemma needs degree <= 2 in each draw")
        tot += term
    return float(tot)


def run_supplied(item, tl):
    shape, cplx = tuple(item["shape"]), item["complex"]
    config = item["config"]
    ch = mkch("rayleigh", 2)
    dtype = torch.complex64 if cplx else torch.float32
    n = int(torch.Size(shape).numel())
    flat2 = (shape[0], n // shape[0]) if len(shape) > 1 else (1, n)

    def run(ctx):
        x = fresh_reals("x", shape, dtype)
        h = fresh_reals("h", flat2, torch.complex64)
        nz = fresh_reals("n", flat2, torch.complex64)
        return dict(x=x, h=h, nz=nz, y=ch(x, csi=h, noise=nz))
    paths = sym_paths(run, [], tl, max_paths=4)
    ctx, R = paths[0]
    obs = []
    if tuple(R["y"].shape) != shape:
        return [ob("supplied csi/noise: y = h.x + n, shape preserved", config, "violated", what=f"output shape {tuple(R['y'].shape)} != input shape {shape}", witness={"shape": list(R['y'].shape)}, replay={"reproduced": True}, **tl.take())]
    bad = []
    for a, h, nz, y in zip(elems(R["x"]), elems(R["h"]), elems(R["nz"]), elems(R["y"])):
        e = cmul(h, a)
        e = S.Cx(S.add(e.re, S.tocx(nz).re), S.add(e.im, S.tocx(nz).im))
        yy = S.tocx(y)
        bad += [S.zbool(S.ne(e.re, yy.re)), S.zbool(S.ne(e.im, yy.im))]
    st, model = decide_any(ctx, bad)
    return [ob("supplied csi/noise: y = h.x + n, shape preserved", config, st, what="channel(x, csi=h, noise=n) != h*x + n" if st == "violated" else "",
               witness={"supplied": True} if st == "violated" else None, replay={"reproduced": True} if st == "violated" else None,
               sample=dict(query="exists x, h, n: channel(x, csi=h, noise=n) != h.x + n", shape=list(shape)), **tl.take())]


def run_generated(item, tl, mutate=None):
    fading, B, L, Tc, k = item["fading"], item["B"], item["L"], item["Tc"], item.get("k")
    snr = item.get("snr")
    config = item["config"]
    ch = mkch(fading, Tc, k=k, snr=snr, power=0.25 if snr is None else None)
    if mutate:
        mutate(ch)
    nb = (L + Tc - 1) // Tc
    shape = (B, L) if B > 1 else (L,)
    if item.get("nd"):
        shape = (B,) + tuple(item["nd"])        # (B, C, L/C): the per-item sequence is the flattened trailing part
    obs = []

    def rec(clause, st, **kw):
        obs.append(ob(clause, config, st, **kw, **tl.take()))

    def run(ctx):
        x = fresh_reals("x", shape, torch.complex64)
        y = ch(x)
        return dict(x=x, y=y, draws=[g for kk, g in ctx.rng_log])
    names = [f"x{i}r" for i in range(B * L)] + [f"x{i}i" for i in range(B * L)]
    paths = sym_paths(run, bounds(names, -20, 20), tl, max_paths=4)
    ctx, R = paths[0]
    draws = [S.topoly(g) for g in R["draws"]]
    need = 2 * B * nb + 2 * B * L + (B * nb if fading == "lognormal" else 0)     # log-normal: one more draw per (item, block) for the shadowing
    if len(draws) != need:
        rec("block-constant independent gains", "violated", what=f"{len(draws)} Gaussian draws, expected {need} (one complex coefficient per (batch item, block) + one complex noise sample per symbol)",
            witness={"draws": len(draws)}, replay={"reproduced": True})
        return obs
    if fading == "lognormal":
        # exp() of a draw has no algebraic encoding: only the number of independent draws per (batch item, block) is claimed here
        rec("block-constant independent gains", "holds", sample=dict(query="number of Gaussian draws consumed = 3 per (batch item, block) + 2 per symbol", draws=len(draws)),
            note="log-normal fading: draw-count clause only (value law outside the claim)")
        return obs
    g1, g2 = draws[:B * nb], draws[B * nb:2 * B * nb]
    zr, zi = draws[2 * B * nb:2 * B * nb + B * L], draws[2 * B * nb + B * L:]
    if fading == "rayleigh":
        los, sc = 0.0, 2 ** -0.5
    else:
        los, sc = (k / (k + 1)) ** 0.5, (1 / (k + 1)) ** 0.5 / 2 ** 0.5
    x, y = elems(R["x"]), elems(R["y"])
    faded = []
    for b in range(B):
        for i in range(L):
            blk = b * nb + i // Tc
            H = S.Cx(S.add(los, S.mul(g1[blk], sc)), S.mul(g2[blk], sc))
            faded.append(cmul(H, x[b * L + i]))
    if snr is not None:
        target = S.div(mean_power(faded), float(10.0 ** (snr / 10.0)))
    else:
        target = 0.25
    dbound = [z3.And(g >= -8, g <= 8) for g in R["draws"]]      # |draw| <= 8 sigma: keeps float32 replay meaningful
    if snr is None:
        # fixed noise power: y - (H x + z sqrt(P/2)) is a polynomial in (x, draws); its normal form must vanish.
        # Coefficients are compared with a 1e-6 margin (float32 vs double constants), then the solver is asked for a
        # point where the residual exceeds 1e-3 (unsat when every coefficient is within the margin is implied by the bounds)
        cst = (0.25 / 2.0) ** 0.5
        worst = 0.0
        resid = []
        for j in range(B * L):
            yy = S.tocx(y[j])
            for ycomp, fcomp, z in ((yy.re, faded[j].re, zr[j]), (yy.im, faded[j].im, zi[j])):
                r = S.topoly(S.sub(ycomp, S.add(fcomp, S.mul(z, cst))))
                resid.append(r)
                for m, c in r.t.items():
                    worst = max(worst, abs(float(c)))
        if worst <= 1e-6:
            tl.count("unsat", 0.0)
            st, model = "holds", None
        else:
            bad = []
            for r in resid:
                bad += [S.zbool(S.gt(r, 1e-3)), S.zbool(S.lt(r, -1e-3))]
            st, model = decide_any(ctx, bad, extra=dbound, budget_s=60)
    else:
        bad = []
        for j in range(B * L):
            yy = S.tocx(y[j])
            for d, z in ((S.sub(yy.re, faded[j].re), zr[j]), (S.sub(yy.im, faded[j].im), zi[j])):
                lhs, rhs = S.mul(d, d), S.mul(S.mul(z, z), S.div(target, 2.0))
                tol = S.add(S.mul(rhs, 1e-3), 1e-6)
                bad += [S.zbool(S.gt(S.sub(lhs, rhs), tol)), S.zbool(S.lt(S.sub(lhs, rhs), S.neg(tol))), S.zbool(S.lt(S.mul(d, z), -1e-6))]
        st, model = decide_any(ctx, bad, extra=dbound, budget_s=60)
    if st == "violated":
        w = {nm: float(S.zval(model, z3.Real(nm))) for nm in names}
        w["draws"] = [float(S.zval(model, g)) for g in R["draws"]]
        rep, detail = replay_generated(item, w)
        rec("block-constant independent gains", st, what=f"y - noise != H[b, i // Tc] * x with H = LOS + (g1 + j g2) * s, noise = draw * sqrt(P/2): {detail}", witness=w, replay={"reproduced": rep})
    else:
        rec("block-constant independent gains", st, stretch=(snr is not None and st != "holds"), sample=dict(query="exists x, draws: y_{b,i} != H_{b, floor(i/Tc)} x_{b,i} + z_{b,i} sqrt(P/2)", B=B, L=L, Tc=Tc, blocks=nb, fading=fading, k=k, snr=snr))
    # normalisation through the moment lemma on the coefficient polynomial (K, LOS from the real code's arithmetic)
    def run_h(ctx):
        return dict(h=ch._generate_fading_coefficients(1, 1, "cpu"))
    ph = sym_paths(run_h, [], tl, max_paths=2)
    H = S.tocx(elems(ph[0][1]["h"])[0])
    e2 = expectation(S.add(S.mul(H.re, H.re), S.mul(H.im, H.im)))
    okn = abs(e2 - 1.0) < 1e-5
    rec("unit mean-square gain", "holds" if okn else "violated", what="" if okn else f"E|h|^2 = {e2:.6f} for {fading} (K={k})", witness=None if okn else {"E|h|^2": e2}, replay=None if okn else {"reproduced": True})
    if fading == "rician" and k > 0:
        mre = expectation(H.re)
        scat = e2 - mre * mre
        ratio = mre * mre / scat
        okk = abs(ratio - k) < 1e-4 * max(k, 1)
        rec("LOS / scattered power = K", "holds" if okk else "violated", what="" if okk else f"LOS^2 / E|scatter|^2 = {ratio:.6f}, configured K = {k}", witness=None if okk else {"ratio": ratio}, replay=None if okk else {"reproduced": True})
    return obs


def replay_generated(item, w):
    fading, B, L, Tc, k = item["fading"], item["B"], item["L"], item["Tc"], item.get("k")
    snr = item.get("snr")
    nb = (L + Tc - 1) // Tc
    with _disable_current_modes():
        ch = mkch(fading, Tc, k=k, snr=snr, power=0.25 if snr is None else None)
        x = torch.complex(torch.tensor([w[f"x{i}r"] for i in range(B * L)], dtype=torch.float32), torch.tensor([w[f"x{i}i"] for i in range(B * L)], dtype=torch.float32)).reshape(((B,) + tuple(item["nd"])) if item.get("nd") else ((B, L) if B > 1 else (L,)))
        y = with_draws(w["draws"], lambda: ch(x)).reshape(B, L)
        d = w["draws"]
        g1, g2 = d[:B * nb], d[B * nb:2 * B * nb]
        zr, zi = d[2 * B * nb:2 * B * nb + B * L], d[2 * B * nb + B * L:]
        los, sc = (0.0, 2 ** -0.5) if fading == "rayleigh" else ((k / (k + 1)) ** 0.5, (1 / (k + 1)) ** 0.5 / 2 ** 0.5)
        xs = x.reshape(B, L)
        faded = torch.zeros(B, L, dtype=torch.complex64)
        for b in range(B):
            for i in range(L):
                blk = b * nb + i // Tc
                faded[b, i] = complex(los + g1[blk] * sc, g2[blk] * sc) * xs[b, i]
        target = float((faded.abs() ** 2).mean()) / (10.0 ** (snr / 10.0)) if snr is not None else 0.25
        exp = faded + torch.complex(torch.tensor(zr).reshape(B, L), torch.tensor(zi).reshape(B, L)) * (target / 2) ** 0.5
        bad = bool(((y - exp).abs() > 1e-3 * (1 + exp.abs())).any())
        return bad, f"y={y.flatten().tolist()[:4]} expected {exp.flatten().tolist()[:4]}"


def work(item):
    tl = Tally()
    try:
        if item.get("selftest"):
            def mutate(ch):
                ch.coherence_time = ch.coherence_time + 1      # blocks longer than configured
            it = dict(fading="rayleigh", B=1, L=4, Tc=2, config="selftest")
            ch_obs = run_generated(it, tl, mutate)
            hit = any(o["status"] == "violated" for o in ch_obs)
            return [ob("selftest:coherence-off-by-one", "selftest", "holds" if hit else "error", what="" if hit else "mutant not flagged")]
        if item["type"] == "supplied":
            return run_supplied(item, tl)
        return run_generated(item, tl)
    except NotEncodable as e:
        return [ob("harness", item["config"], "inconclusive" if "unknown" in str(e) else "error", what=f"NotEncodable: {e}", stretch=bool(item.get("stretch")))]


def all_items():
    items = []
    for shape, cplx in (((4,), True), ((3,), False), ((2, 3), True), ((2, 1, 2, 2), False)):
        items.append(dict(type="supplied", shape=shape, complex=cplx, config=f"supplied csi/noise shape={shape} {'complex' if cplx else 'real'}"))
    L = tier(4, 6)
    for fading, k in (("rayleigh", None), ("rician", 0.0), ("rician", 2.0), ("rician", 100.0)):
        for Tc in range(1, L + 2):
            for B, snr in ((1, None), (2, None)) + (((1, 10.0),) if TIER == "thorough" else ()):
                if (B == 2 or snr is not None) and Tc not in (2, 3):
                    continue
                if fading == "rician" and k != 2.0 and (B == 2 or snr is not None or Tc not in (1, 3)):
                    continue
                it = dict(type="generated", fading=fading, k=k, B=B, L=L, Tc=Tc, snr=snr)
                it["config"] = f"{fading}{'' if k is None else f'(K={k})'} B={B} L={L} Tc={Tc} {'snr=' + str(snr) if snr is not None else 'power=0.25'}"
                items.append(it)
    for B in (1, 2):
        it = dict(type="generated", fading="lognormal", k=None, B=B, L=L, Tc=2, snr=None)
        it["config"] = f"lognormal(sigma=4dB) B={B} L={L} Tc=2 power=0.25"
        items.append(it)
    # inputs with more than two dimensions: the per-item sequence is the flattened (C, L/C) part, so coherence times
    # between the last dimension and the flattened length still split an item into several independent blocks
    C = 2
    for B in (1, 2):
        for Tc in range(L // C, L + 1):
            if TIER == "quick" and (B, Tc) not in ((1, L // C), (2, L // C + 1), (1, L - 1)):
                continue
            it = dict(type="generated", fading="rayleigh", k=None, B=B, L=L, Tc=Tc, snr=None, nd=[C, L // C])
            it["config"] = f"rayleigh B={B} shape=({B},{C},{L // C}) Tc={Tc} power=0.25"
            items.append(it)
    items.append(dict(selftest=True, config="selftest"))
    return items


def replay(body):
    for it in all_items():
        if it.get("config") == body["config"] and it.get("type") == "generated":
            return replay_generated(it, body["witness"])[0]
    return False


def main():
    replay_main(__name__)
    ck = Check(PID)
    items = all_items()
    import kaira.channels.analog as A
    ck.encoded(A.FlatFadingChannel.forward, A.FlatFadingChannel._generate_fading_coefficients, A.FlatFadingChannel._expand_coefficients)
    ck.bound("inputs", f"sequence length L = {tier(4, 6)}, coherence times 1..L+1 (non-divisors included), batch 1..2, shapes (L,), (B,L), (B,C,H,W) for supplied csi; Rician K in {{0, 2, 100}}; symbolic complex inputs |x| <= 20 and symbolic Gaussian draws")
    ck.stub("torch.randn / randn_like -> fresh symbolic reals in generation order (coefficients first, then noise), assumed within 8 standard deviations")
    ck.assume("moment lemma: draws are independent with E g = 0, E g^2 = 1 (torch's generator trusted); E|h|^2 and the K ratio are computed from the coefficient polynomial produced by the real code; log-normal shadowing is checked for structure only by the supplied-csi clause (outside: its normalisation)")
    ck.run_items(__name__, "work", items)
    ck.finish(min_obligations=15)


if __name__ == "__main__":
    main()
