"""Feasibility probe for E2 (NOT framework code): AST-level symbolic interpreter for kaira's pure-Python
integer code (algebra.py, modulations/utils.py) over z3 bit-vectors.
 - `if` on a symbolic condition: interpret both arms and merge with ite when the arms only assign
   mergeable values; otherwise fork (re-execution with a decision prefix).
 - `while` on a symbolic guard: fork per trip count (bounded, unwinding assertion at the bound).
"""
import ast, inspect, textwrap, time, sys, warnings
warnings.filterwarnings("ignore")
import z3

import os
W = int(os.environ.get("W", "64"))
class Unwind(Exception): pass
class PathAbort(Exception): pass
class RaisedInTarget(Exception):
    def __init__(self, exc): self.exc = exc

class Ctx:
    def __init__(self, prefix, assumptions):
        self.prefix = list(prefix); self.pos = 0; self.pc = list(assumptions); self.open = []; self.side = []
    def decide(self, cond):
        cond = z3.simplify(cond)
        if z3.is_true(cond): return True
        if z3.is_false(cond): return False
        if self.pos < len(self.prefix): v = self.prefix[self.pos]
        else:
            s = z3.Solver(); s.add(*self.pc)
            t_ok = s.check(cond) == z3.sat; f_ok = s.check(z3.Not(cond)) == z3.sat
            if t_ok and f_ok: v = True; self.open.append(self.pos)
            elif t_ok: v = True
            elif f_ok: v = False
            else: raise PathAbort()
            self.prefix.append(v)
        self.pos += 1; self.pc.append(cond if v else z3.Not(cond)); return v
CTX = None

def explore(fn, assumptions=()):
    global CTX
    stack = [[]]; out = []
    while stack:
        prefix = stack.pop(); CTX = Ctx(prefix, assumptions)
        try: r = fn()
        except PathAbort: continue
        except RaisedInTarget as e: r = ("raised", type(e.exc).__name__)
        out.append((CTX, r))
        for p in CTX.open:
            if p >= len(prefix): stack.append(CTX.prefix[:p] + [False])
    return out

# ---- symbolic ints ---------------------------------------------------------------------------
class SI:
    """symbolic non-negative Python int modelled as BitVec(W); overflow side conditions recorded"""
    def __init__(self, e): self.e = e
def bv(x): return x.e if isinstance(x, SI) else z3.BitVecVal(int(x), W)
def is_sym(x): return isinstance(x, (SI, SB))
class SB:
    def __init__(self, e): self.e = e
def bo(x): return x.e if isinstance(x, SB) else z3.BoolVal(bool(x))
def truth(x):
    if isinstance(x, SB): return CTX.decide(x.e)
    if isinstance(x, SI): return CTX.decide(x.e != 0)
    return bool(x)
def bit_length(x):
    e = bv(x); r = z3.BitVecVal(0, W)
    for i in range(W): r = z3.If(z3.Extract(i, i, e) == 1, z3.BitVecVal(i + 1, W), r)
    return SI(z3.simplify(r))
def popcount(x):
    e = bv(x); return SI(z3.simplify(z3.Sum([z3.ZeroExt(W - 1, z3.Extract(i, i, e)) for i in range(W)])))

def binop(op, a, b):
    if not is_sym(a) and not is_sym(b):
        return {ast.BitXor: lambda: a ^ b, ast.BitAnd: lambda: a & b, ast.BitOr: lambda: a | b, ast.LShift: lambda: a << b, ast.RShift: lambda: a >> b,
                ast.Add: lambda: a + b, ast.Sub: lambda: a - b, ast.Mult: lambda: a * b, ast.Mod: lambda: a % b, ast.FloorDiv: lambda: a // b, ast.Pow: lambda: a ** b}[op]()
    x, y = bv(a), bv(b)
    if op is ast.BitXor: return SI(x ^ y)
    if op is ast.BitAnd: return SI(x & y)
    if op is ast.BitOr: return SI(x | y)
    if op is ast.RShift: return SI(z3.LShR(x, y))
    if op is ast.LShift:
        r = x << y; CTX.side.append(z3.And(z3.ULT(y, W), z3.LShR(r, y) == x)); return SI(r)
    if op is ast.Add: r = x + y; CTX.side.append(z3.UGE(r, x)); return SI(r)
    if op is ast.Sub: CTX.side.append(z3.UGE(x, y)); return SI(x - y)   # only used where non-negative in the target code
    if op is ast.Mod and not is_sym(b) and b & (b - 1) == 0: return SI(x & (b - 1))
    raise NotImplementedError(op)
def cmpop(op, a, b):
    if not is_sym(a) and not is_sym(b):
        return {ast.Eq: a == b, ast.NotEq: a != b, ast.Lt: a < b, ast.LtE: a <= b, ast.Gt: a > b, ast.GtE: a >= b}[op] if op not in (ast.Is, ast.IsNot) else ((a is b) if op is ast.Is else (a is not b))
    if isinstance(a, SB) or isinstance(b, SB):
        x, y = bo(a), bo(b); return SB(x == y if op is ast.Eq else x != y)
    # signed view is needed for the 'degree' (-1) comparisons: degrees are small, compare as signed
    x, y = bv(a), bv(b)
    return SB({ast.Eq: x == y, ast.NotEq: x != y, ast.Lt: x < y, ast.LtE: x <= y, ast.Gt: x > y, ast.GtE: x >= y}[op])

class Rec:
    def __init__(self, cls, fields): self.cls = cls; self.f = fields

def mergeable(a, b):
    if isinstance(a, Rec) and isinstance(b, Rec): return a.cls is b.cls and a.f.keys() == b.f.keys() and all(mergeable(a.f[k], b.f[k]) for k in a.f)
    if isinstance(a, (SI, int)) and isinstance(b, (SI, int)) and not isinstance(a, bool) and not isinstance(b, bool): return True
    if isinstance(a, (SB, bool)) and isinstance(b, (SB, bool)): return True
    return a is b or (type(a) is type(b) and not isinstance(a, (Rec,)) and a == b)
def merge(c, a, b):
    if a is b: return a
    if isinstance(a, Rec): return Rec(a.cls, {k: merge(c, a.f[k], b.f[k]) for k in a.f})
    if isinstance(a, (SB, bool)) and isinstance(b, (SB, bool)): return SB(z3.If(c, bo(a), bo(b)))
    if isinstance(a, (SI, int)) and isinstance(b, (SI, int)): return SI(z3.If(c, bv(a), bv(b)))
    return a

class Ret(Exception):
    def __init__(self, v): self.v = v
class Brk(Exception): pass

SRC = {}
def fdef(fn):
    fn = getattr(fn, "__wrapped__", fn)
    if fn not in SRC:
        SRC[fn] = ast.parse(textwrap.dedent(inspect.getsource(fn))).body[0]   # re-parsed from /repo on every run
    return SRC[fn]

class Interp:
    def __init__(self, classes, max_unroll=70): self.classes = classes; self.max_unroll = max_unroll
    def call(self, fn, args, kwargs=None):
        node = fdef(fn); env = dict(fn.__globals__) if hasattr(fn, "__globals__") else {}
        names = [a.arg for a in node.args.args]
        defaults = node.args.defaults
        loc = {}
        for i, n in enumerate(names):
            if i < len(args): loc[n] = args[i]
            else: loc[n] = self.ev(defaults[i - (len(names) - len(defaults))], {}, env)
        try: self.block(node.body, loc, env)
        except Ret as r: return r.v
        return None
    def simple(self, stmts):
        return all(isinstance(s, (ast.Assign, ast.AugAssign, ast.Pass)) or (isinstance(s, ast.If) and self.simple(s.body) and self.simple(s.orelse)) or (isinstance(s, ast.Expr) and isinstance(s.value, ast.Constant)) for s in stmts)
    def block(self, stmts, loc, env):
        for s in stmts: self.stmt(s, loc, env)
    def stmt(self, s, loc, env):
        if isinstance(s, ast.Expr): self.ev(s.value, loc, env); return
        if isinstance(s, ast.Pass): return
        if isinstance(s, ast.Return): raise Ret(self.ev(s.value, loc, env) if s.value else None)
        if isinstance(s, ast.Break): raise Brk()
        if isinstance(s, ast.Raise):
            raise RaisedInTarget(ValueError("raised by target"))
        if isinstance(s, ast.Assign):
            v = self.ev(s.value, loc, env)
            for t in s.targets: self.assign(t, v, loc, env)
            return
        if isinstance(s, ast.AugAssign):
            cur = self.ev(s.target, loc, env); v = binop(type(s.op), cur, self.ev(s.value, loc, env)); self.assign(s.target, v, loc, env); return
        if isinstance(s, ast.If):
            c = self.ev(s.test, loc, env)
            if not is_sym(c):
                self.block(s.body if c else s.orelse, loc, env); return
            ce = z3.simplify(bo(c) if isinstance(c, SB) else bv(c) != 0)
            if z3.is_true(ce) or z3.is_false(ce):
                self.block(s.body if z3.is_true(ce) else s.orelse, loc, env); return
            if self.simple(s.body) and self.simple(s.orelse):
                la, lb = dict(loc), dict(loc)
                self.block(s.body, la, env); self.block(s.orelse, lb, env)
                if la.keys() == lb.keys() and all(mergeable(la[k], lb[k]) for k in la):
                    for k in la: loc[k] = merge(ce, la[k], lb[k])
                    return
            self.block(s.body if CTX.decide(ce) else s.orelse, loc, env); return
        if isinstance(s, ast.While):
            for it in range(self.max_unroll + 1):
                c = self.ev(s.test, loc, env)
                if not truth(c): return                     # fork per trip count
                if it == self.max_unroll: raise Unwind("unwinding assertion failed")
                try: self.block(s.body, loc, env)
                except Brk: return
            return
        if isinstance(s, ast.For):
            it = self.ev(s.iter, loc, env)
            for v in it:
                self.assign(s.target, v, loc, env)
                try: self.block(s.body, loc, env)
                except Brk: break
            return
        raise NotImplementedError(ast.dump(s)[:80])
    def assign(self, t, v, loc, env):
        if isinstance(t, ast.Name): loc[t.id] = v
        elif isinstance(t, ast.Attribute):
            o = self.ev(t.value, loc, env); o.f[t.attr] = v
        elif isinstance(t, ast.Tuple):
            for tt, vv in zip(t.elts, v): self.assign(tt, vv, loc, env)
        else: raise NotImplementedError(ast.dump(t))
    def ev(self, e, loc, env):
        if isinstance(e, ast.Constant): return e.value
        if isinstance(e, ast.Name):
            if e.id in loc: return loc[e.id]
            if e.id in env: return env[e.id]
            import builtins; return getattr(builtins, e.id)
        if isinstance(e, ast.Tuple): return tuple(self.ev(x, loc, env) for x in e.elts)
        if isinstance(e, ast.BinOp): return binop(type(e.op), self.ev(e.left, loc, env), self.ev(e.right, loc, env))
        if isinstance(e, ast.UnaryOp):
            v = self.ev(e.operand, loc, env)
            if isinstance(e.op, ast.Not): return SB(z3.Not(bo(v) if isinstance(v, SB) else bv(v) != 0)) if is_sym(v) else (not v)
            if isinstance(e.op, ast.USub): return -v
        if isinstance(e, ast.BoolOp):
            vals = []
            for x in e.values:
                v = self.ev(x, loc, env)
                if not is_sym(v):
                    if isinstance(e.op, ast.Or) and v: return v
                    if isinstance(e.op, ast.And) and not v: return v
                    continue
                vals.append(bo(v) if isinstance(v, SB) else bv(v) != 0)
            if not vals: return isinstance(e.op, ast.And)
            return SB(z3.Or(vals) if isinstance(e.op, ast.Or) else z3.And(vals))
        if isinstance(e, ast.Compare):
            l = self.ev(e.left, loc, env); res = None
            for op, r in zip(e.ops, e.comparators):
                rv = self.ev(r, loc, env)
                if isinstance(l, Rec) and isinstance(rv, Rec) and type(op) in (ast.Eq, ast.NotEq):
                    c = self.method(l, "__eq__", [rv]); c = c if type(op) is ast.Eq else (SB(z3.Not(bo(c))) if is_sym(c) else not c)
                else: c = cmpop(type(op), l, rv)
                res = c if res is None else SB(z3.And(bo(res), bo(c))); l = rv
            return res
        if isinstance(e, ast.Attribute):
            o = self.ev(e.value, loc, env)
            if isinstance(o, Rec):
                if e.attr in o.f: return o.f[e.attr]
                p = inspect.getattr_static(o.cls, e.attr)
                if isinstance(p, property): return self.call(p.fget, [o])
                raise AttributeError(e.attr)
            return getattr(o, e.attr)
        if isinstance(e, ast.Call):
            if isinstance(e.func, ast.Attribute):
                o = self.ev(e.func.value, loc, env); args = [self.ev(a, loc, env) for a in e.args]
                if isinstance(o, SI) and e.func.attr == "bit_length": return bit_length(o)
                if isinstance(o, Rec): return self.method(o, e.func.attr, args)
                return getattr(o, e.func.attr)(*args)
            f = self.ev(e.func, loc, env); args = [self.ev(a, loc, env) for a in e.args]
            if f is isinstance: return isinstance(args[0], args[1]) if not isinstance(args[0], Rec) else issubclass(args[0].cls, args[1])
            if f in self.classes:
                r = Rec(f, {}); self.call(f.__init__, [r] + args); return r
            if inspect.isfunction(f) and any(is_sym(a) or isinstance(a, Rec) for a in args): return self.call(f, args)
            return f(*args)
        raise NotImplementedError(ast.dump(e)[:80])
    def method(self, o, name, args):
        return self.call(inspect.getattr_static(o.cls, name), [o] + args)

# ---- harnesses -------------------------------------------------------------------------------
def decide_all(name, fn, assumptions, prop, timeout=60):
    """prop(result) -> z3 Bool that must hold on every path"""
    t0 = time.time(); paths = explore(fn, assumptions); nq = 0; bad = []
    for ctx, r in paths:
        s = z3.Solver(); s.set("timeout", timeout * 1000); s.add(*ctx.pc)
        if ctx.side and s.check(z3.Not(z3.And(ctx.side))) != z3.unsat: bad.append(("side-condition", None)); continue
        p = prop(r); s.add(z3.Not(p)); nq += 1; res = s.check()
        if res != z3.unsat: bad.append((str(res), s.model() if res == z3.sat else None))
    print(f"{name}: paths={len(paths)} queries={nq} bad={[(b[0], str(b[1])[:70]) for b in bad[:2]]} {time.time()-t0:.1f}s", flush=True)

if __name__ == "__main__":
    from kaira.modulations import utils as U
    from kaira.models.fec import algebra as A
    I = Interp({A.BinaryPolynomial})
    n = z3.BitVec("n", W); n2 = z3.BitVec("n2", W)
    lim = lambda v, bits: z3.ULT(v, z3.BitVecVal(1 << bits, W))
    if W == 64: decide_all("gray round trip  g2b(b2g(n))==n, n<2^60", lambda: I.call(U.gray_to_binary, [I.call(U.binary_to_gray, [SI(n)])]), [lim(n, 60)], lambda r: bv(r) == n)
    if W == 64: decide_all("gray adjacent    popcount(g(n)^g(n+1))==1", lambda: popcount(binop(ast.BitXor, I.call(U.binary_to_gray, [SI(n)]), I.call(U.binary_to_gray, [SI(n + 1)]))), [lim(n, 60)], lambda r: bv(r) == 1)
    if W == 64: decide_all("gray injective", lambda: (I.call(U.binary_to_gray, [SI(n)]), I.call(U.binary_to_gray, [SI(n2)])), [lim(n, 60), lim(n2, 60), n != n2], lambda r: bv(r[0]) != bv(r[1]))
    a, b, c = z3.BitVecs("a b c", W)
    P = lambda v: Rec(A.BinaryPolynomial, {"value": SI(v)})
    for D in [int(x) for x in os.environ.get("DEGS", "4").split(",")]:
        def divlaw():
            pa, pb = P(a), P(b)
            q = I.method(pa, "div", [pb]); r = I.method(pa, "__mod__", [pb]); qb = I.method(q, "__mul__", [pb])
            return qb.f["value"], r.f["value"], I.ev(ast.parse("r.degree", mode="eval").body, {"r": r}, {}), I.ev(ast.parse("b.degree", mode="eval").body, {"b": pb}, {})
        decide_all(f"poly a=q*b+r, deg r<deg b, deg<={D}", divlaw, [lim(a, D + 1), lim(b, D + 1), b != 0], lambda r: z3.And((bv(r[0]) ^ bv(r[1])) == a, bv(r[2]) < bv(r[3])), timeout=120)
