"""C02 — hard-decision decoders correct every error pattern within the advertised capability;
complete decoders are minimum-distance (ML) decoders."""
from __future__ import annotations

import random

import torch
import z3
from torch.utils._python_dispatch import _disable_current_modes

from .. import sym as S
from ..catalog import build_code, cfg, spec, T
from ..common import Check, Tally, ob, tier, replay_main, TIER, SEED
from ..engine import fresh_bits, elems, from_arr
from ..harness import sym_paths, differs, decide, model_bits, real_bits, concolic, zor, zand
from ..sym import NotEncodable
from .c03 import advertised

PID = "C02"


def make_decoder(kind, enc):
    from kaira.models.fec import decoders as D
    if kind == "syndrome":
        return D.SyndromeLookupDecoder(enc)
    if kind == "ml":
        return D.BruteForceMLDecoder(enc)
    if kind == "bm":
        return D.BerlekampMasseyDecoder(enc)
    if kind == "rm-majority":
        return D.ReedMullerDecoder(enc)
    if kind == "inverse_encode":
        class _Inv:
            def __call__(self, r):
                return enc.inverse_encode(r)[0]
        return _Inv()
    raise ValueError(kind)


def capability(enc):
    d, exact, src = advertised(enc)
    if hasattr(enc, "error_correction_capability"):
        return int(enc.error_correction_capability), "error_correction_capability"
    if d is None:
        return None, ""
    return (int(d) - 1) // 2, f"floor((d-1)/2), d from {src}"


def pb_weight_lt(a_bits, b_bits):
    """z3: weight(a) < weight(b) for lists of bit-like scalars"""
    d = S.sub(_sum(a_bits), _sum(b_bits))
    return S.zbool(S.lt(d, 0))


def _sum(bits):
    acc = 0
    for b in bits:
        acc = S.add(acc, b)
    return acc


def run_pair(item, tl):
    s, kind = item["spec"], item["decoder"]
    config = f"{kind} @ {cfg(s)}"
    obs = []

    def rec(clause, status, **kw):
        obs.append(ob(clause, config, status, **kw, **tl.take()))
    try:
        enc = build_code(s)
        dec = make_decoder(kind, enc)
    except (ValueError, AssertionError, RuntimeError, IndexError, TypeError) as e:
        return []
    if item.get("mutant") == "table-shift":
        # in-memory mutant: coset-leader table answers with the wrong leader for one syndrome
        tab = dec._syndrome_table
        keys = sorted(tab)
        tab[keys[1]], tab[keys[2]] = tab[keys[2]], tab[keys[1]]
    k, n = enc.code_dimension, enc.code_length
    t, tsrc = capability(enc)
    rows = item.get("rows", 1)
    fixed_cw = item.get("fixed_message")
    maxp = item.get("max_paths", 5000)

    def real_decode(rt):
        with _disable_current_modes():
            out = dec(rt.clone())
            return out[0] if isinstance(out, tuple) else out

    # ---- clause A: <= t errors are corrected -----------------------------------------------------
    if t is not None and not item.get("ml_only"):
        def runA(ctx):
            if fixed_cw is None:
                m = fresh_bits("m", (rows, k))
            else:
                m = from_arr([float(b) for b in fixed_cw] * rows, torch.float32, (rows, k))
            e = fresh_bits("e", (rows, n))
            c = enc(m)
            r = (c + e) % 2
            d = dec(r)
            return dict(m=m, e=e, r=r, d=d)
        assume = []
        for row in range(rows):
            eb = [z3.Bool(f"e{row * n + j}") for j in range(n)]
            assume.append(z3.AtMost(*eb, t) if t < n else z3.BoolVal(True))
            if item.get("min_weight"):
                assume.append(z3.AtLeast(*eb, item["min_weight"]))
            for j, v in enumerate(item.get("e_prefix", [])):
                assume.append(eb[j] if v else z3.Not(eb[j]))
        try:
            paths = sym_paths(runA, assume, tl, max_paths=maxp)
        except (RuntimeError, ValueError, IndexError, TypeError, AssertionError, KeyError) as e:
            if isinstance(e, NotEncodable):
                raise
            paths = None
            rec("corrects<=t", "violated", what=f"decoder raises on a word within capability: {type(e).__name__}: {str(e)[:120]}",
                witness={"raises": type(e).__name__}, replay={"reproduced": _raises_somewhere(enc, real_decode, k, n, t, rows)})
        if paths is not None:
            viol = None
            nval = 0
            status = "holds"
            for ctx, R in paths:
                if nval < 3:
                    ins = {"e": R["e"]}
                    if fixed_cw is None:
                        ins["m"] = R["m"]

                    def realfn(e, m=None):
                        mm = m if m is not None else real_bits([float(b) for b in fixed_cw] * rows, (rows, k))
                        return real_decode((enc(mm) + e) % 2)
                    okc, detail = concolic(ctx, ins, realfn, [R["d"]], tl)
                    nval += 1
                    if not okc:
                        rec("harness", "error", what="concolic disagreement: " + detail)
                        return obs
                st, model = decide(ctx, differs(elems(R["d"]), elems(R["m"])))
                if st == "violated" and viol is None:
                    mb = model_bits(model, "m", rows * k) if fixed_cw is None else list(fixed_cw) * rows
                    ebits = model_bits(model, "e", rows * n)
                    with _disable_current_modes():
                        mt, et = real_bits(mb, (rows, k)), real_bits(ebits, (rows, n))
                        out = real_decode((enc(mt) + et) % 2)
                        rep = not torch.equal(out.to(mt.dtype).reshape(rows, k), mt)
                        got = [int(v) for v in out.flatten().tolist()]
                    viol = dict(what=f"{sum(ebits)} bit error(s) (capability t={t}: {tsrc}) not corrected: m={mb}, e={ebits} -> decoded {got}",
                                witness={"m": mb, "e": ebits, "decoded": got}, replay={"reproduced": rep})
                    status = "violated"
                    if not rep:
                        break
                elif st == "inconclusive" and status == "holds":
                    status = "inconclusive"
            if viol:
                rec("corrects<=t", "violated", **viol)
            else:
                rec("corrects<=t", status, sample=dict(query=f"exists m, e with wt(e) <= {t}: decoder(enc(m)+e) != m", paths=len(paths), n=n, k=k, rows=rows, result=status))
    # ---- clause B: minimum-distance decoding for every received word -------------------------------
    if item.get("ml"):
        def runB(ctx):
            r = fresh_bits("r", (1, n))
            w = fresh_bits("w", (1, k))
            d = dec(r)
            chat = enc(d.to(torch.float32))
            cw = enc(w)
            return dict(r=r, d=d, chat=chat, cw=cw)
        paths = sym_paths(runB, (), tl, max_paths=maxp)
        viol = None
        status = "holds"
        nval = 0
        for ctx, R in paths:
            if nval < 2:
                okc, detail = concolic(ctx, {"r": R["r"]}, lambda r: real_decode(r), [R["d"]], tl)
                nval += 1
                if not okc:
                    rec("harness", "error", what="concolic disagreement (ML run): " + detail)
                    return obs
            r = elems(R["r"])
            dist_hat = [S.bxor(a, b) for a, b in zip(r, elems(R["chat"]))]
            dist_w = [S.bxor(a, b) for a, b in zip(r, elems(R["cw"]))]
            st, model = decide(ctx, pb_weight_lt(dist_w, dist_hat))
            if st == "violated" and viol is None:
                rb, wb = model_bits(model, "r", n), model_bits(model, "w", k)
                with _disable_current_modes():
                    rt = real_bits(rb, (1, n))
                    out = real_decode(rt)
                    d1 = int(((enc(out.to(torch.float32).reshape(1, k)) + rt) % 2).sum().item())
                    d2 = int(((enc(real_bits(wb, (1, k))) + rt) % 2).sum().item())
                viol = dict(what=f"received {rb}: decoder's codeword is at distance {d1}, the codeword of {wb} at distance {d2}",
                            witness={"r": rb, "better_message": wb, "d_decoded": d1, "d_better": d2}, replay={"reproduced": d2 < d1})
                status = "violated"
            elif st == "inconclusive" and status == "holds":
                status = "inconclusive"
        if viol:
            rec("minimum-distance-decoding", "violated", **viol)
        else:
            rec("minimum-distance-decoding", status, sample=dict(query="exists r in {0,1}^n, w: d(r, enc(w)) < d(r, enc(decoder(r)))", paths=len(paths), n=n, k=k, result=status))
    return obs


def _raises_somewhere(enc, real_decode, k, n, t, rows):
    rng = random.Random(1)
    with _disable_current_modes():
        for _ in range(50):
            m = torch.tensor([[float(rng.randint(0, 1)) for _ in range(k)] for _ in range(rows)])
            e = torch.zeros(rows, n)
            for row in range(rows):
                for j in rng.sample(range(n), rng.randint(0, min(t, n))):
                    e[row, j] = 1.0
            try:
                real_decode((enc(m) + e) % 2)
            except Exception:
                return True
    return False


def work(item):
    tl = Tally()
    try:
        obs = run_pair(item, tl)
    except NotEncodable as e:
        return [ob("harness", f"{item['decoder']} @ {cfg(item['spec'])}", "error", what=f"NotEncodable: {e}")]
    if item.get("mutant"):
        hit = any(o["status"] == "violated" and o["replay"] and o["replay"]["reproduced"] for o in obs)
        return [ob(f"selftest:{item['mutant']}", item["config"], "holds" if hit else "error", what="" if hit else "mutant not flagged")]
    return obs


def pairs():
    rng = random.Random(SEED * 31 + 5)
    out = []

    def add(s, decoder, **kw):
        it = dict(spec=s, decoder=decoder, **kw)
        it["config"] = f"{decoder} @ {cfg(s)}"
        out.append(it)
    ham = [spec("HammingCodeEncoder", mu=mu, information_set=info) for mu in (2, 3) for info in ("left", "right")]
    ham += [spec("HammingCodeEncoder", mu=3, extended=True), spec("HammingCodeEncoder", mu=4), spec("HammingCodeEncoder", mu=3, information_set=[1, 2, 4, 6])]
    small = [spec("RepetitionCodeEncoder", repetition_factor=3), spec("RepetitionCodeEncoder", repetition_factor=5),
             spec("SingleParityCheckCodeEncoder", dimension=3),
             spec("CyclicCodeEncoder", code_length=7, generator_polynomial=0b1011), spec("CyclicCodeEncoder", code_length=7, generator_polynomial=0b10111, information_set="right"),
             spec("BCHCodeEncoder", mu=3, delta=3), spec("BCHCodeEncoder", mu=3, delta=7),
             spec("ReedMullerCodeEncoder", order=1, length_param=3),
             spec("LinearBlockCodeEncoder", generator_matrix=T([[1, 1, 0, 1, 0, 0, 1], [0, 1, 1, 0, 1, 0, 1], [1, 1, 1, 0, 0, 1, 0]])),
             spec("SystematicLinearBlockCodeEncoder", parity_submatrix=T([[1, 1, 0], [0, 1, 1], [1, 0, 1]]), information_set=[0, 2, 5]),
             # low-rate codes whose covering radius exceeds (n-k)/2: deep cosets have heavy leaders
             spec("SystematicLinearBlockCodeEncoder", parity_submatrix=T([[1, 1, 0], [0, 1, 1]])),
             spec("SystematicLinearBlockCodeEncoder", parity_submatrix=T([[1, 1, 0, 1, 0], [0, 1, 1, 0, 1], [1, 0, 1, 1, 1]])),
             spec("LinearBlockCodeEncoder", generator_matrix=T([[1, 0, 1, 1, 0, 1, 1, 0, 1], [0, 1, 1, 0, 1, 1, 0, 1, 1]]))]
    bigger = [spec("HammingCodeEncoder", mu=4, extended=True), spec("BCHCodeEncoder", mu=4, delta=5), spec("BCHCodeEncoder", mu=4, delta=3, information_set="right"),
]
    for s in ham + small:
        add(s, "syndrome", ml=True)
    for s in ham[:5] + small:
        add(s, "ml", ml=True)
    for s in bigger:
        add(s, "syndrome", ml=(TIER == "thorough"))
    if TIER == "thorough":
        add(spec("GolayCodeEncoder"), "syndrome", ml=False, max_paths=5000, stretch=True)
        add(spec("BCHCodeEncoder", mu=4, delta=7), "syndrome", ml=True, stretch=True)
        add(spec("BCHCodeEncoder", mu=4, delta=7), "ml", ml=True, stretch=True)
        add(spec("BCHCodeEncoder", mu=4, delta=5), "ml", ml=True, stretch=True)
    # the encoders' own correcting inverses
    for s in ham:
        add(s, "inverse_encode", ml=False)
    add(spec("HammingCodeEncoder", mu=3), "inverse_encode", rows=2)
    for r, m in ((0, 2), (1, 2), (0, 3), (1, 3)) + (((2, 3), (1, 4)) if TIER == "thorough" else ()):
        add(spec("ReedMullerCodeEncoder", order=r, length_param=m), "inverse_encode", ml=True, stretch=(m == 4))
    # Reed-Muller majority-logic decoder (hard)
    for m in range(2, tier(4, 5) + 1):
        for r in range(0, m):
            add(spec("ReedMullerCodeEncoder", order=r, length_param=m), "rm-majority", max_paths=2000)
    # Berlekamp-Massey: every received bit is concretised by the decoder's front end -> one path per feasible word
    for delta in (2, 3, 7):
        for info in ("left", "right"):
            add(spec("BCHCodeEncoder", mu=3, delta=delta, information_set=info), "bm", max_paths=4000)
    add(spec("BCHCodeEncoder", mu=3, delta=3), "bm", rows=2, max_paths=20000, fixed_message=[1, 0, 1, 1])
    add(spec("BCHCodeEncoder", mu=4, delta=3), "bm", rows=2, max_paths=20000, fixed_message=[1, 0, 1, 1, 0, 0, 1, 0, 1, 1, 1])
    out[-1]["config"] += " rows=2"
    for delta in (3, 5, 7):
        for info in ("left", "right"):
            msgs = [[0] * 0]
            s = spec("BCHCodeEncoder", mu=4, delta=delta, information_set=info)
            kk = {3: 11, 5: 7, 7: 5}[delta]
            fixed = [[0] * kk, [rng.randint(0, 1) for _ in range(kk)]]
            if TIER == "thorough":
                fixed.append([rng.randint(0, 1) for _ in range(kk)])
                fixed.append([1] * kk)
            for fm in fixed:
                add(s, "bm", fixed_message=fm, max_paths=4000)
                out[-1]["config"] += f" codeword-of={fm}"
    # high-capability code: the Berlekamp-Massey recursion only reaches its later branches for t >= 5. BCH(15,1), t = 7,
    # error weights t-1..t (quick) / 4..t (thorough), split over the first four error positions so that items run in parallel
    import itertools as _it
    for pre in _it.product((0, 1), repeat=4):
        add(spec("BCHCodeEncoder", mu=4, delta=15), "bm", fixed_message=[0], min_weight=tier(6, 4), e_prefix=list(pre), max_paths=20000)
        out[-1]["config"] += f" codeword-of=[0] weight>={tier(6, 4)} e[0:4]={list(pre)}"
    if TIER == "thorough":
        add(spec("BCHCodeEncoder", mu=4, delta=3), "bm", max_paths=40000, stretch=True)
        add(spec("BCHCodeEncoder", mu=4, delta=5), "bm", rows=2, fixed_message=[1, 0, 0, 1, 1, 0, 1], max_paths=20000, stretch=True)
    return out


def replay(body):
    for it in pairs():
        if it["config"] == body["config"] or f"{it['decoder']} @ {cfg(it['spec'])}" == body["config"]:
            obs = work(it)
            if any(o["clause"] == body["clause"] and o["status"] == "violated" and o["replay"]["reproduced"] for o in obs):
                return True
    return False


def main():
    replay_main(__name__)
    ck = Check(PID)
    items = pairs()
    mut = dict(spec=spec("HammingCodeEncoder", mu=3), decoder="syndrome", ml=False, mutant="table-shift", config="selftest syndrome table with two leaders swapped")
    items.append(mut)
    from kaira.models.fec.decoders import syndrome_lookup, brute_force_ml, berlekamp_massey, reed_muller_decoder
    from kaira.models.fec.encoders import hamming_code, reed_muller_code, bch_code, base
    ck.encoded(syndrome_lookup.SyndromeLookupDecoder.forward, syndrome_lookup.SyndromeLookupDecoder._syndrome_to_int, brute_force_ml.BruteForceMLDecoder.forward,
               brute_force_ml.BruteForceMLDecoder._decode_batch, berlekamp_massey.BerlekampMasseyDecoder.forward, berlekamp_massey.BerlekampMasseyDecoder.berlekamp_massey_algorithm,
               berlekamp_massey.BerlekampMasseyDecoder._find_error_locations, bch_code.BCHCodeEncoder.calculate_syndrome_polynomial,
               reed_muller_decoder.ReedMullerDecoder.forward, hamming_code.HammingCodeEncoder.inverse_encode, reed_muller_code.ReedMullerCodeEncoder.inverse_encode,
               base.BaseBlockCodeEncoder.extract_message)
    ck.bound("pairs", f"{len(items)} (code, decoder) pairs; n <= 16 (quick) / 23 (thorough, stretch); all messages x all error patterns of weight <= t in one query per path; ML clause over all 2^n received words x all 2^k competitors")
    ck.bound("berlekamp-massey", "decoder concretises every received bit (int(round(.item()))): one path per feasible received word, solver prunes by weight; mu=3 all (m,e); mu=4 with fixed codewords (quick: 2 per code; thorough: 4) - weakest use of the technique, stated")
    ck.assume("capability t = error_correction_capability where the class has it, else floor((d_adv-1)/2) with d_adv as in C03")
    ck.run_items(__name__, "work", items)
    ck.finish(min_obligations=30)


if __name__ == "__main__":
    main()
