#!/bin/sh
# Builds the overlay venv (z3-solver, cvc5, jsonschema on top of /venv) from the offline wheelhouse. Idempotent.
set -e
cd "$(dirname "$0")"
if [ ! -x .venv/bin/python ] || ! .venv/bin/python -c "import z3, torch, kaira" >/dev/null 2>&1; then
  rm -rf .venv
  /venv/bin/python -m venv .venv
  SP=$(.venv/bin/python -c "import site;print(site.getsitepackages()[0])")
  printf "import site; site.addsitedir('/venv/lib/python3.12/site-packages')\n/repo\n" > "$SP/_overlay.pth"
  PIP_NO_INDEX=1 .venv/bin/pip install -q --no-index --find-links /opt/veriftools/wheels z3-solver cvc5 jsonschema
fi
.venv/bin/python -c "import z3, torch, kaira; print('kverif venv ok: z3', z3.get_version_string())" 2>/dev/null
