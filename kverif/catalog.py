"""Configuration catalogues (explicit bounds): which code / modem objects are instantiated.
Specs are plain picklable dicts; the objects are built by the real constructors in the worker."""
from __future__ import annotations

import random

from .common import TIER, SEED, tier


# ------------------------------------------------------------------------------------------------
# independent GF(2)[X] helpers on int bitmasks (used for catalogues and oracles, not from kaira)
# ------------------------------------------------------------------------------------------------
def pdeg(a):
    return a.bit_length() - 1


def pmod(a, b):
    db = pdeg(b)
    while a and pdeg(a) >= db:
        a ^= b << (pdeg(a) - db)
    return a


def pdivmod(a, b):
    q = 0
    db = pdeg(b)
    while a and pdeg(a) >= db:
        s = pdeg(a) - db
        q |= 1 << s
        a ^= b << s
    return q, a


def pmul(a, b):
    r = 0
    while b:
        if b & 1:
            r ^= a
        a <<= 1
        b >>= 1
    return r


def divisors_of_xn1(n):
    """all divisors g of X^n + 1 with 1 <= deg g <= n-1"""
    mod = (1 << n) | 1
    out = []
    for g in range(2, 1 << n):
        if g & 1 == 0:
            continue
        if pmod(mod, g) == 0:
            out.append(g)
    return out


def gf2_rank(rows):
    rows = [r for r in rows]
    rank = 0
    for bit in reversed(range(max((r.bit_length() for r in rows), default=0))):
        piv = None
        for i in range(rank, len(rows)):
            if (rows[i] >> bit) & 1:
                piv = i
                break
        if piv is None:
            continue
        rows[rank], rows[piv] = rows[piv], rows[rank]
        for i in range(len(rows)):
            if i != rank and (rows[i] >> bit) & 1:
                rows[i] ^= rows[rank]
        rank += 1
    return rank


def random_full_rank(rng, k, n, systematic_cols=False):
    while True:
        rows = [rng.getrandbits(n) for _ in range(k)]
        if gf2_rank(rows) == k and all(rows):
            M = [[(r >> (n - 1 - j)) & 1 for j in range(n)] for r in rows]
            # reject matrices that contain k distinct unit columns (those take the "systematic" shortcuts)
            units = set()
            for j in range(n):
                col = [M[i][j] for i in range(k)]
                if sum(col) == 1:
                    units.add(col.index(1))
            if systematic_cols or len(units) < k:
                return M


def T(m, dtype="float32"):
    return {"__tensor__": m, "dtype": dtype}


def materialise(x):
    import torch
    if isinstance(x, dict) and "__tensor__" in x:
        return torch.tensor(x["__tensor__"], dtype=getattr(torch, x["dtype"]))
    if isinstance(x, dict):
        return {k: materialise(v) for k, v in x.items()}
    if isinstance(x, list):
        return [materialise(v) for v in x]
    return x


def spec(cls, _via=None, **kw):
    return {"cls": cls, "kw": kw, "via": _via}


def cfg(s):
    def f(v):
        if isinstance(v, dict) and "__tensor__" in v:
            m = v["__tensor__"]
            if m and isinstance(m[0], list):
                return "[" + "|".join("".join(str(int(x)) for x in r) for r in m) + "]"
            return str(m)
        return repr(v)
    via = f".{s['via']}" if s.get("via") else ""
    return f"{s['cls']}{via}(" + ", ".join(f"{k}={f(v)}" for k, v in s["kw"].items()) + ")"


def build_code(s):
    from kaira.models.fec import encoders as E
    cls = getattr(E, s["cls"])
    kw = materialise(s["kw"])
    if s.get("via"):
        return getattr(cls, s["via"])(**kw)
    if s["cls"] in ("LinearBlockCodeEncoder",):
        return cls(kw.pop("generator_matrix"), **kw)
    return cls(**kw)


def code_specs(families=None, max_n=None):
    rng = random.Random(SEED * 7919 + 17)
    out = []

    def fam(name):
        return families is None or name in families

    if fam("linear"):
        out.append(spec("LinearBlockCodeEncoder", generator_matrix=T([[1, 0, 0, 0, 1, 1, 0], [0, 1, 0, 0, 1, 0, 1], [0, 0, 1, 0, 0, 1, 1], [0, 0, 0, 1, 1, 1, 1]])))
        # a full-rank non-systematic 3x7 other than the hard-coded test matrix, and scattered identity columns
        out.append(spec("LinearBlockCodeEncoder", generator_matrix=T([[1, 1, 0, 1, 0, 0, 1], [0, 1, 1, 0, 1, 0, 1], [1, 1, 1, 0, 0, 1, 0]])))
        out.append(spec("LinearBlockCodeEncoder", generator_matrix=T([[1, 0, 1, 0, 1, 0, 1], [0, 1, 1, 0, 0, 1, 1], [0, 0, 0, 1, 1, 1, 1]])))
        out.append(spec("LinearBlockCodeEncoder", generator_matrix=T([[1, 1, 0, 1, 0], [1, 0, 1, 0, 0], [0, 1, 0, 0, 1]])))
        out.append(spec("LinearBlockCodeEncoder", generator_matrix=T([[1, 1], [0, 1]])))
        for _ in range(tier(6, 30)):
            k = rng.randint(2, 5)
            n = rng.randint(k + 1, 9)
            out.append(spec("LinearBlockCodeEncoder", generator_matrix=T(random_full_rank(rng, k, n))))
    if fam("systematic"):
        for i in range(tier(4, 20)):
            k = rng.randint(2, 5)
            m = rng.randint(1, 4)
            P = [[rng.randint(0, 1) for _ in range(m)] for _ in range(k)]
            n = k + m
            cust = sorted(rng.sample(range(n), k))
            perm = cust[:]
            while perm == cust and k > 1:
                rng.shuffle(perm)
            for info in ("left", "right", cust, perm):
                out.append(spec("SystematicLinearBlockCodeEncoder", parity_submatrix=T(P), information_set=info))
    if fam("hamming"):
        for mu in range(2, tier(4, 6) + 1):
            n = 2 ** mu - 1
            k = n - mu
            for ext in (False, True):
                nn = n + (1 if ext else 0)
                cust = sorted(rng.sample(range(nn), k))
                for info in ("left", "right", cust):
                    out.append(spec("HammingCodeEncoder", mu=mu, extended=ext, information_set=info))
    if fam("repetition"):
        for n in range(1, tier(7, 15) + 1):
            out.append(spec("RepetitionCodeEncoder", repetition_factor=n))
    if fam("spc"):
        for k in range(1, tier(8, 16) + 1):
            out.append(spec("SingleParityCheckCodeEncoder", dimension=k))
    if fam("rm"):
        for m in range(1, tier(4, 5) + 1):
            for r in range(0, m):
                out.append(spec("ReedMullerCodeEncoder", order=r, length_param=m))
        if TIER == "thorough":
            for r in (1, 4):
                s = spec("ReedMullerCodeEncoder", order=r, length_param=6)
                s["stretch"] = True
                out.append(s)
    if fam("cyclic"):
        ns = tier([7, 9, 15], [3, 5, 6, 7, 9, 10, 12, 14, 15, 17, 18, 20, 21])
        for n in ns:
            divs = divisors_of_xn1(n) if n <= 15 else _divs_large(n)
            if TIER == "quick" and len(divs) > 8:
                divs = rng.sample(divs, 8)
            elif len(divs) > 40:
                divs = rng.sample(divs, 40)
            for g in divs:
                h, rem = pdivmod((1 << n) | 1, g)
                assert rem == 0
                for info in ("left", "right"):
                    out.append(spec("CyclicCodeEncoder", code_length=n, generator_polynomial=g, information_set=info))
                out.append(spec("CyclicCodeEncoder", code_length=n, check_polynomial=h))
                k_ = n - (g.bit_length() - 1)
                if n <= 9 and 1 < k_ < n:
                    # custom (non-window) information sets, from either polynomial
                    idx = sorted(random.Random(1000 * n + g).sample(range(n), k_))      # own generator: the shared stream (and with it the rest of the catalogue) stays as it was
                    out.append(spec("CyclicCodeEncoder", code_length=n, check_polynomial=h, information_set=idx))
                    out.append(spec("CyclicCodeEncoder", code_length=n, generator_polynomial=g, information_set=idx))
        for name in ("Hamming(7,4)", "Simplex(7,3)", "BCH(15,7)", "BCH(15,5)", "Golay(23,12)"):
            for info in ("left", "right"):
                out.append(spec("CyclicCodeEncoder", "create_standard_code", name=name, information_set=info))
    if fam("bch"):
        for mu in range(3, tier(4, 5) + 1):
            for delta in range(2, 2 ** mu):   # every delta; the constructor rejects non-Bose ones (skipped)
                for info in ("left", "right"):
                    out.append(spec("BCHCodeEncoder", mu=mu, delta=delta, information_set=info))
        if TIER == "thorough":
            for delta in bose_distances(6):
                s = spec("BCHCodeEncoder", mu=6, delta=delta, information_set="left")
                s["stretch"] = True
                out.append(s)
    if fam("golay"):
        for ext in (False, True):
            for info in ("left", "right"):
                out.append(spec("GolayCodeEncoder", extended=ext, information_set=info))
    if fam("rs"):
        for mu in range(2, tier(3, 4) + 1):
            for delta in range(2, 2 ** mu):
                for info in ("left", "right"):
                    out.append(spec("ReedSolomonCodeEncoder", mu=mu, delta=delta, information_set=info))
    if fam("ldpc"):
        out.append(spec("LDPCCodeEncoder", check_matrix=T([[1, 0, 1, 1, 0, 0], [0, 1, 1, 0, 1, 0], [0, 0, 0, 1, 1, 1]])))
        out.append(spec("LDPCCodeEncoder", check_matrix=T([[1, 1, 0, 1, 0, 0], [0, 1, 1, 0, 1, 0], [1, 1, 0, 1, 0, 0]])))       # repeated row
        out.append(spec("LDPCCodeEncoder", check_matrix=T([[1, 1, 0, 1, 0, 0, 1], [0, 0, 0, 0, 0, 0, 0], [0, 1, 1, 0, 1, 0, 1]])))  # zero row
        for _ in range(tier(3, 12)):
            n = rng.randint(6, 12)
            m = rng.randint(2, n - 2)
            H = []
            for _r in range(m):
                row = [0] * n
                for j in rng.sample(range(n), rng.randint(2, 3)):
                    row[j] = 1
                H.append(row)
            out.append(spec("LDPCCodeEncoder", check_matrix=T(H)))
    if max_n is not None:
        out = [s for s in out if _len_hint(s) <= max_n]
    return out


def _divs_large(n):
    """divisors of X^n+1 for n > 15 through factorisation into irreducibles (bitmask routines only)"""
    mod = (1 << n) | 1
    irreds = []
    rem = mod
    d = 1
    while pdeg(rem) > 0 and d <= pdeg(rem):
        found = False
        for f in range((1 << d) | 1, 1 << (d + 1), 2):
            while pdeg(rem) >= d and pmod(rem, f) == 0:
                # f divides rem; is f irreducible? it is, since all smaller-degree factors were divided out
                irreds.append(f)
                rem, _ = pdivmod(rem, f)
                found = True
        d += 1
    if rem != 1:
        irreds.append(rem)
    outs = {1}
    for f in irreds:
        outs |= {pmul(o, f) for o in outs}
    return sorted(o for o in outs if 1 <= pdeg(o) <= n - 1)


def bose_distances(mu):
    """Bose distances of primitive narrow-sense BCH codes of length 2^mu - 1 via cyclotomic cosets"""
    n = 2 ** mu - 1

    def coset(i):
        s = set()
        x = i % n
        while x not in s:
            s.add(x)
            x = (2 * x) % n
        return s
    out = []
    delta = 2
    while delta <= n:
        roots = set()
        for i in range(1, delta):
            roots |= coset(i)
        # Bose distance: the largest delta' with the same generator = smallest positive non-root
        d = delta
        while d <= n - 1 and d in roots:
            d += 1
        if len(roots) >= n:
            out.append(n)
            break
        out.append(d)
        delta = d + 1
    return sorted(set(out))


def _len_hint(s):
    kw = s["kw"]
    c = s["cls"]
    if c in ("HammingCodeEncoder", "BCHCodeEncoder", "ReedSolomonCodeEncoder"):
        return 2 ** kw["mu"]
    if c == "ReedMullerCodeEncoder":
        return 2 ** kw["length_param"]
    if c == "CyclicCodeEncoder":
        return kw.get("code_length", 31)
    if c == "GolayCodeEncoder":
        return 24
    return 16


# ------------------------------------------------------------------------------------------------
# modem catalogue
# ------------------------------------------------------------------------------------------------
def modem(name, mod, demod, bps, mod_kw=None, demod_kw=None, memory=None, registry=None, order=None):
    return dict(name=name, mod=mod, demod=demod, bps=bps, mod_kw=mod_kw or {}, demod_kw=demod_kw if demod_kw is not None else dict(mod_kw or {}),
                memory=memory, registry=registry, order=order)


def modem_specs(max_order=None):
    out = []
    out.append(modem("BPSK", "BPSKModulator", "BPSKDemodulator", 1, {}, {}, registry=("bpskmodulator", "bpskdemodulator"), order=2))
    out.append(modem("BPSK(real)", "BPSKModulator", "BPSKDemodulator", 1, {"complex_output": False}, {}, order=2))
    for nz in (True, False):
        out.append(modem(f"QPSK(normalize={nz})", "QPSKModulator", "QPSKDemodulator", 2, {"normalize": nz}, registry=("qpskmodulator", "qpskdemodulator") if nz else None, order=4))
    for M in [4, 8, 16, 32, 64]:
        for gray in (True, False):
            if TIER == "quick" and M > 16 and not gray:
                continue
            out.append(modem(f"PSK{M}(gray={gray})", "PSKModulator", "PSKDemodulator", M.bit_length() - 1, {"order": M, "gray_coding": gray}, order=M,
                             registry=("pskmodulator", "pskdemodulator") if (M == 8 and gray) else None))
    for M in [4, 16, 64]:
        for gray in (True, False):
            for nz in (True, False):
                if TIER == "quick" and M > 16 and not (gray and nz):
                    continue
                out.append(modem(f"QAM{M}(gray={gray},normalize={nz})", "QAMModulator", "QAMDemodulator", M.bit_length() - 1,
                                 {"order": M, "gray_coding": gray, "normalize": nz}, order=M))
    if TIER == "thorough":
        m = modem("QAM256(gray=True,normalize=True)", "QAMModulator", "QAMDemodulator", 8, {"order": 256, "gray_coding": True, "normalize": True}, order=256)
        m["stretch"] = True
        out.append(m)
    for M in [2, 4, 8, 16, 32, 64]:
        for gray in (True, False):
            if TIER == "quick" and M > 8 and not gray:
                continue
            for nz in ((True, False) if M <= 8 else (True,)):
                out.append(modem(f"PAM{M}(gray={gray},normalize={nz})", "PAMModulator", "PAMDemodulator", M.bit_length() - 1,
                                 {"order": M, "gray_coding": gray, "normalize": nz}, order=M))
    for M in tier([2, 4, 8], [2, 4, 8, 16]):
        for gray in (True, False):
            out.append(modem(f"DPSK{M}(gray={gray})", "DPSKModulator", "DPSKDemodulator", M.bit_length() - 1, {"order": M, "gray_coding": gray}, memory="dpsk", order=M))
    out.append(modem("DBPSK", "DBPSKModulator", "DBPSKDemodulator", 1, {}, {}, memory="dpsk", registry=("dbpsk", "dbpsk"), order=2))
    out.append(modem("DQPSK", "DQPSKModulator", "DQPSKDemodulator", 2, {}, {}, memory="dpsk", registry=("dqpsk", "dqpsk"), order=4))
    for nz in (True, False):
        out.append(modem(f"OQPSK(normalize={nz})", "OQPSKModulator", "OQPSKDemodulator", 2, {"normalize": nz}, memory="oqpsk", registry=("oqpsk", "oqpsk") if nz else None, order=4))
    for gray in (True, False):
        out.append(modem(f"Pi4QPSK(gray_coded={gray})", "Pi4QPSKModulator", "Pi4QPSKDemodulator", 2, {"gray_coded": gray}, {}, memory="pi4", registry=("pi4qpsk", "pi4qpsk") if gray else None, order=4))
    out.append(modem("Identity", "IdentityModulator", "IdentityDemodulator", 1, {}, {}, registry=("identitymodulator", "identitydemodulator")))
    if max_order:
        out = [m for m in out if (m["order"] or 2) <= max_order]
    return out


def build_modem(m, via_registry=False):
    import kaira.modulations as MM
    if via_registry and m.get("registry"):
        from kaira.modulations.registry import ModulationRegistry
        return ModulationRegistry.create(m["registry"][0], "modulator", **m["mod_kw"]), ModulationRegistry.create(m["registry"][1], "demodulator", **m["demod_kw"])
    return getattr(MM, m["mod"])(**m["mod_kw"]), getattr(MM, m["demod"])(**m["demod_kw"])
